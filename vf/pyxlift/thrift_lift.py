"""Lifted thrift (de)serialiser of cencoding.pyx, assembled into one namespace."""
import os
import sys

STAGE = os.environ.get("VERIF_STAGE")
if STAGE and STAGE not in sys.path:
    sys.path.insert(0, STAGE)

from vf.pyxlift import lift, rt


class ThriftObject:
    """stand-in with the two cdef attributes the serialiser touches"""

    def __init__(self, name, data):
        self.name, self.data = name, data

    @property
    def contents(self):
        return self.data

    def __getitem__(self, item):
        return self.data.get(item)


def build(size_only=False, tokens=False):
    ns = rt.namespace({"ThriftObject": ThriftObject, "np": rt.NPShim,
                       "NumpyIO": (lambda buf: rt.PyNumpyIO(buf.n, content=None, strict_drop=True))})
    if size_only:
        ns["encode_unsigned_varint"] = rt.encode_unsigned_varint_size
        ns["long_zigzag"] = lambda n: n * 2 if n >= 0 else -2 * n - 1
    if tokens:
        ns["encode_unsigned_varint"] = rt.tok_encode_varint
        ns["read_unsigned_var_int"] = rt.tok_read_varint
        ns["long_zigzag"] = rt.tok_long_zigzag
        ns["zigzag_long"] = rt.tok_zigzag_long
    infos = {}
    for name, cls in (("read_thrift", None), ("read_list", None), ("write_thrift", None), ("write_list", None),
                      ("dict_eq", None), ("to_bytes", "ThriftObject")):
        src, info = lift.lift(name, cls)
        infos[name] = info
        exec(compile(src, "<lifted %s>" % name, "exec"), ns)
    ThriftObject.to_bytes = ns["to_bytes"]
    # ThriftObject.copy (plain Python in the .pyx): the shallow copy make_part_file / merge / __getitem__ rely on
    src, info = lift.lift("copy", "ThriftObject")
    infos["copy"] = info
    cns = dict(ns)
    exec(compile(src, "<lifted ThriftObject.copy>", "exec"), cns)
    ThriftObject.copy = cns["copy"]
    ns["DRIFT"] = any(i["drift"] for i in infos.values())
    ns["INFOS"] = infos
    return ns
