"""C15 - LIST columns stored in DATA_PAGE_V2 pages: the real core.read_col drives the real core.read_data_page_v2
(repeated-column branch: level reads, null count, dictionary indices, row offset carried across pages) which drives the
lifted _assemble_objects.  The decoders and numpy allocation are contract shims (their behaviour is E1's subject); what
runs symbolically is the page bookkeeping of read_data_page_v2 and the assembler, over symbolic level streams and page
boundaries (v2 pages start on a row boundary)."""
import os
from typing import List

from vf.pyxlift import rt
from vf.pyxlift.h_c15 import assemble, dremel, valid, N, OPT_LIST, OPT_ELEM, THR, MAXD, _schema

import fastparquet.core as core
from fastparquet import parquet_thrift
from fastparquet.schema import SchemaHelper

REP_LEN, DEF_LEN, VAL_LEN, HDR = 11, 7, 5, 3      # distinct byte lengths identify what a read() asks for


class _Vec:
    """1-d array shim (levels, dictionary indices)"""

    def __init__(self, items):
        self.items = items
        self.shape = (len(items),)

    def __len__(self):
        return len(self.items)

    def __getitem__(self, i):
        if isinstance(i, slice):
            return _Vec(self.items[i])
        if not (0 <= i < len(self.items)):
            raise rt.CapacityViolation("index %r out of range %r" % (i, len(self.items)))
        return self.items[i]

    def view(self, dt):
        return self

    def __ne__(self, v):
        return _Vec([x != v for x in self.items])

    def __eq__(self, v):
        return _Vec([x == v for x in self.items])

    __hash__ = None


class _ODType:
    kind = "O"
    itemsize = 8


class _Assign:
    """object output column; slices are views (numpy semantics), stores are bounds-checked (the C is not)"""
    dtype = _ODType()

    def __init__(self, store, lo=0, hi=None):
        self.store, self.lo = store, lo
        self.hi = len(store) if hi is None else hi
        self.shape = (self.hi - self.lo,)

    def __len__(self):
        return self.hi - self.lo

    def __getitem__(self, k):
        if isinstance(k, slice):
            n = len(self)
            a = 0 if k.start is None else k.start
            b = n if k.stop is None else k.stop
            a = min(max(a, 0), n)
            b = min(max(b, a), n)
            return _Assign(self.store, self.lo + a, self.lo + b)
        if not (0 <= k < len(self)):
            raise rt.CapacityViolation("memoryview index %r out of range %r (boundscheck is off in the C)" % (k, len(self)))
        return self.store[self.lo + k]

    def __setitem__(self, k, v):
        if not (0 <= k < len(self)):
            raise rt.CapacityViolation("memoryview store %r out of range %r" % (k, len(self)))
        self.store[self.lo + k] = v


class _Dic:
    def __init__(self, labels):
        self.labels = labels

    def __getitem__(self, val):
        return [self.labels[i] for i in val.items]


class _Tok:
    def __init__(self, kind, page):
        self.kind, self.page = kind, page


class _ColIO:
    """the column chunk as read_col sees it: [dictionary page] then data pages; each data page is
    HDR bytes of header + REP_LEN + DEF_LEN + VAL_LEN"""

    def __init__(self, pages):
        # (a chunk of PLAIN pages has no dictionary page: the layout below keeps HDR bytes in front either way)
        self.pages, self.k, self.pos, self.dict_done = pages, -1, (HDR if V2ENC == "plain" else 0), V2ENC == "plain"

    def tell(self):
        return self.pos

    def seek(self, off, whence=0):
        self.pos = off if whence == 0 else self.pos + off

    def read(self, n=-1):
        base = HDR + (self.k + 1) * (HDR + REP_LEN + DEF_LEN + VAL_LEN) - (REP_LEN + DEF_LEN + VAL_LEN)
        rel = self.pos - base
        self.pos += n
        if n == REP_LEN and rel == 0:
            return _Tok("rep", self.pages[self.k])
        if n == DEF_LEN and rel == REP_LEN:
            return _Tok("def", self.pages[self.k])
        if n == VAL_LEN and rel == REP_LEN + DEF_LEN:
            return _Tok("val", self.pages[self.k])
        return _Tok("garbage", None)        # wrong offset or length: decodes to nothing sensible


class _PageIO:
    def __init__(self, src):
        self.src = src

    def read_byte(self):
        return 4

    def tell(self):
        return 0


class _Raw:
    def seek(self, off):
        pass

    def read(self, n):
        return b""


PAGES = [None]
V2ENC = os.environ.get("VERIF_V2ENC", "dict")          # dict | plain   (encoding of the values of every data page)


def _fill(dst, values, n):
    """decoder contract: writes min(n, capacity) values"""
    tgt = dst.src
    for i in range(min(n, len(tgt.items), len(values))):
        tgt.items[i] = values[i]


class _EncNS:
    _assemble_objects = staticmethod(assemble)

    @staticmethod
    def NumpyIO(buf):
        if isinstance(buf, (bytes, bytearray)):
            return _ColIO(PAGES[0])
        return _PageIO(buf)

    @staticmethod
    def width_from_max_int(v):
        return int(v).bit_length()

    @staticmethod
    def read_rle_bit_packed_hybrid(io_obj, width, length, o, itemsize=4):
        tok = io_obj.src
        # `length` limits the input bytes the decoder may consume: a level stream may need all of its bytes (runs of
        # few values), so anything below the stream's byte length cuts it short
        if tok.kind == "rep" and length >= REP_LEN:
            _fill(o, tok.page[1], len(tok.page[1]))
        elif tok.kind == "def" and length >= DEF_LEN:
            _fill(o, tok.page[0], len(tok.page[0]))
        elif tok.kind == "val":
            # `length` is a byte count for the value stream; the decoder stops at the output's capacity
            _fill(o, tok.page[2], len(tok.page[2]))
        else:
            _fill(o, [9] * 16, 16)


class _TO:
    @staticmethod
    def from_buffer(infile, name):
        infile.pos += HDR
        if not infile.dict_done:
            infile.dict_done = True
            ph = parquet_thrift.PageHeader(type=parquet_thrift.PageType.DICTIONARY_PAGE)
            return ph
        infile.k += 1
        d, r, v = infile.pages[infile.k]
        nn = 0
        for x in d:
            nn += (x != MAXD)
        nr = 0
        for x in r:
            nr += (x == 0)
        size = REP_LEN + DEF_LEN + VAL_LEN
        dph = parquet_thrift.DataPageHeaderV2(
            num_values=len(d), num_nulls=nn, num_rows=nr,
            encoding=parquet_thrift.Encoding.PLAIN if V2ENC == "plain" else parquet_thrift.Encoding.RLE_DICTIONARY,
            definition_levels_byte_length=DEF_LEN, repetition_levels_byte_length=REP_LEN, is_compressed=False)
        return parquet_thrift.PageHeader(type=parquet_thrift.PageType.DATA_PAGE_V2, compressed_page_size=size,
                                         uncompressed_page_size=size, data_page_header_v2=dph)


class _NP:
    ndarray = _Vec
    uint8 = "uint8"
    bool_ = "bool"

    @staticmethod
    def empty(n, dtype=None):
        return _Vec(["unset"] * n)

    @staticmethod
    def frombuffer(buf, dtype=None):
        return buf

    @staticmethod
    def not_equal(a, b, out=None):
        raise TypeError("flat-column path reached for a repeated column")


def _s_read_plain(raw, type_, count, width=0, utf=False, stat=False):
    if isinstance(raw, _Tok) and raw.kind == "val":
        return _Vec([100 + x for x in raw.page[2]][:count])
    return _Vec([-777] * count)


def _s_read_dictionary_page(infile, schema_helper, ph, cmd, utf=False):
    return _Dic([100 + j for j in range(16)])


HELPER = SchemaHelper(_schema())


def run_read_col_v2(defi, rep, splits):
    nrows = sum(1 for r in rep if r == 0)
    store = [None] * nrows
    pages, vi = [], 0
    bounds = [0] + list(splits) + [len(rep)]
    for a, b in zip(bounds[:-1], bounds[1:]):
        if a == b:
            continue
        d, r = defi[a:b], rep[a:b]
        nv = sum(1 for x in d if x == MAXD and x >= THR)
        pages.append((d, r, [vi + j for j in range(nv)]))
        vi += nv
    PAGES[0] = pages
    md = parquet_thrift.ColumnMetaData(type=2, path_in_schema=["col", "list", "element"], num_values=len(rep),
                                       data_page_offset=4, total_compressed_size=100, codec=0)
    col = parquet_thrift.ColumnChunk(meta_data=md)
    saved = (core.encoding, core.ThriftObject, core.read_dictionary_page, core.np, core.convert, core.decompress_data,
             core.read_plain)
    core.encoding, core.ThriftObject, core.read_dictionary_page, core.np = _EncNS, _TO, _s_read_dictionary_page, _NP
    core.convert = lambda v, se, dtype=None: v
    core.decompress_data = lambda data, size, codec: data
    core.read_plain = _s_read_plain
    try:
        core.read_col(col, HELPER, _Raw(), assign=_Assign(store))
    finally:
        (core.encoding, core.ThriftObject, core.read_dictionary_page, core.np, core.convert,
         core.decompress_data, core.read_plain) = saved
    return store


SPLITS = [int(x) for x in os.environ.get("VERIF_SPLITS", "").split(",") if x]      # page boundaries (lattice)


def _row_starts(rep):
    return all(rep[s] == 0 for s in SPLITS)


def h_read_col_list_v2(defi: List[int], rep: List[int]) -> bool:
    """
    pre: len(defi) == N and len(rep) == N
    pre: valid(defi, rep) and _row_starts(rep)
    post: __return__
    """
    # v2 pages at the boundaries SPLITS, each starting on a row boundary
    return run_read_col_v2(defi, rep, SPLITS) == dremel(defi, rep)


def replay_h_read_col_list_v2(defi, rep):
    from vf.pyxlift import nested_file
    return nested_file.replay_list(defi, rep, SPLITS, OPT_LIST, OPT_ELEM, MAXD, dremel(defi, rep), version=2,
                                   encs=["P"] if V2ENC == "plain" else None)
