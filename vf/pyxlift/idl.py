"""Parser for parquet.thrift (the subset of Thrift IDL it uses) and a compact-protocol reference codec driven by it,
written from the Thrift compact protocol specification.  Streams are token lists shared with the lifted serialiser:
  ('b', byte)  ('v', unsigned varint value)  ('s', bytes payload)
(the byte-level form of varints and zigzag is the E1 obligation of the read_varint / encode_varint / zigzag harnesses)."""
import os
import re

from vf import env

WIRE = {"bool_true": 1, "bool_false": 2, "i8": 3, "i16": 4, "i32": 5, "i64": 6, "double": 7, "binary": 8, "string": 8,
        "list": 9, "set": 10, "map": 11, "struct": 12}
WIDTH = {"i8": 8, "i16": 16, "i32": 32, "i64": 64}


def parse(path=None):
    path = path or os.path.join(env.PKG, "parquet.thrift")
    txt = open(path).read()
    txt = re.sub(r"/\*.*?\*/", "", txt, flags=re.S)
    txt = re.sub(r"//[^\n]*", "", txt)
    enums = set(re.findall(r"\benum\s+(\w+)\s*\{", txt))
    structs = {}
    for m in re.finditer(r"\b(struct|union)\s+(\w+)\s*\{(.*?)\}", txt, flags=re.S):
        kind, name, body = m.groups()
        fields = []
        for fm in re.finditer(r"(\d+)\s*:\s*(required|optional)?\s*([\w<>]+)\s+(\w+)", body):
            fid, req, ty, fname = fm.groups()
            fields.append(dict(id=int(fid), required=(req == "required"), type=ty, name=fname))
        structs[name] = dict(kind=kind, fields=fields)
    return dict(structs=structs, enums=enums)


def base_type(idl, ty):
    """('i32'|'i64'|'i16'|'i8'|'bool'|'double'|'binary'|'string'|'struct'|'list', inner)"""
    if ty in idl["enums"]:
        return "i32", None
    if ty.startswith("list<"):
        return "list", ty[5:-1]
    if ty in idl["structs"]:
        return "struct", ty
    return ty, None


def zz(n):
    return 2 * abs(n) - (n < 0)                  # branch-free (symbolic values do not fork)


def unzz(u):
    return (u // 2) * (1 - 2 * (u % 2)) - (u % 2)


# ------------------------------------------------------------------ reference encoder ---
def encode(idl, sname, value, out):
    """value: dict field name -> python value (nested dicts for structs, lists)"""
    prev = 0
    for f in sorted(idl["structs"][sname]["fields"], key=lambda f: f["id"]):
        if f["name"] not in value or value[f["name"]] is None:
            continue
        v = value[f["name"]]
        bt, inner = base_type(idl, f["type"])
        delta = f["id"] - prev
        prev = f["id"]
        if bt == "bool":
            wt = 1 if v else 2
        else:
            wt = WIRE[bt]
        if 0 < delta <= 15:
            out.append(("b", (delta << 4) | wt))
        else:
            out.append(("b", wt))
            out.append(("v", zz(f["id"])))
        if bt != "bool":
            _enc_value(idl, bt, inner, v, out)
    out.append(("b", 0))


def _v(out, x):
    if type(x) is int and 0 <= x < 128:
        out.append(("b", x))
    else:
        out.append(("v", x))


def _enc_value(idl, bt, inner, v, out):
    if bt == "bool":
        out.append(("b", 1 if v else 2))
    elif bt == "i8":
        out.append(("b", v & 0xff))
    elif bt in ("i16", "i32", "i64"):
        out.append(("v", zz(v)))
    elif bt in ("binary", "string"):
        b = v.encode() if isinstance(v, str) else v
        _v(out, len(b))
        out.append(("s", b))
    elif bt == "struct":
        encode(idl, inner, v, out)
    elif bt == "list":
        ebt, einner = base_type(idl, inner)
        et = 1 if ebt == "bool" else WIRE[ebt]
        if len(v) < 15:
            out.append(("b", (len(v) << 4) | et))
        else:
            out.append(("b", 0xF0 | et))
            _v(out, len(v))
        for e in v:
            _enc_value(idl, ebt, einner, e, out)
    else:
        raise ValueError(bt)


# ------------------------------------------------------------------ reference decoder ---
class Malformed(Exception):
    pass


def decode(idl, sname, toks, pos):
    """returns (value dict by field name, wire types seen {name: nibble}, newpos); raises Malformed when the stream
    does not follow the IDL (unknown field id, wire type differing from the declared type)"""
    fields = {f["id"]: f for f in idl["structs"][sname]["fields"]}
    out, seen = {}, {}
    fid = 0
    while True:
        kind, byte = toks[pos]
        if kind != "b":
            raise Malformed("%s: field header expected at %d, got %r" % (sname, pos, toks[pos]))
        pos += 1
        if byte == 0:
            break
        delta, wt = byte >> 4, byte & 15
        if delta == 0:
            k, u = toks[pos]
            if k != "v" and not (k == "b" and u < 128):
                raise Malformed("long-form field id expected")
            fid = unzz(u)
            pos += 1
        else:
            fid += delta
        f = fields.get(fid)
        if f is None:
            raise Malformed("%s: field id %d is not declared in the IDL" % (sname, fid))
        bt, inner = base_type(idl, f["type"])
        if bt == "bool":
            if wt not in (1, 2):
                raise Malformed("%s.%s: bool written with wire type %d" % (sname, f["name"], wt))
            out[f["name"]] = (wt == 1)
            seen[f["name"]] = wt
            continue
        if wt != WIRE[bt]:
            raise Malformed("%s.%s: declared %s (wire type %d) but written with wire type %d" % (
                sname, f["name"], f["type"], WIRE[bt], wt))
        seen[f["name"]] = wt
        out[f["name"]], pos = _dec_value(idl, sname, f["name"], bt, inner, toks, pos)
    for f in fields.values():
        if f["required"] and f["name"] not in out:
            raise Malformed("%s: required field %s missing" % (sname, f["name"]))
    return out, seen, pos


def _dec_value(idl, sname, fname, bt, inner, toks, pos):
    if bt == "bool":
        k, b = toks[pos]
        if k != "b" or b not in (1, 2):
            raise Malformed("bool element expected")
        return b == 1, pos + 1
    if bt == "i8":
        k, b = toks[pos]
        if k != "b":
            raise Malformed("i8 byte expected")
        return (b - 256 if b > 127 else b), pos + 1
    if bt in ("i16", "i32", "i64"):
        k, u = toks[pos]
        if k != "v" and not (k == "b" and u < 128):
            raise Malformed("%s.%s: varint expected" % (sname, fname))
        return unzz(u), pos + 1
    if bt in ("binary", "string"):
        k, n = toks[pos]
        k2, s = toks[pos + 1]
        if (k != "v" and not (k == "b" and n < 128)) or k2 != "s" or n != len(s):
            raise Malformed("%s.%s: length-prefixed bytes expected" % (sname, fname))
        return s, pos + 2
    if bt == "struct":
        v, _, pos = decode(idl, inner, toks, pos)
        return v, pos
    if bt == "list":
        k, b = toks[pos]
        if k != "b":
            raise Malformed("list header expected")
        pos += 1
        size, et = b >> 4, b & 15
        if size == 15:
            k, size = toks[pos]
            if k != "v" and not (k == "b" and size < 128):
                raise Malformed("list size varint expected")
            pos += 1
        ebt, einner = base_type(idl, inner)
        if size > 0 and et != (1 if ebt == "bool" else WIRE[ebt]):      # readers ignore the type of an empty list
            raise Malformed("%s.%s: list<%s> written with element type %d (declared %d)" % (
                sname, fname, inner, et, WIRE[ebt]))
        out = []
        for _ in range(size):
            e, pos = _dec_value(idl, sname, fname, ebt, einner, toks, pos)
            out.append(e)
        return out, pos
    raise Malformed("type %s" % bt)


# ------------------------------------------------------------------ marker convention ---
def marker_faults(idl, sname, d, where=None):
    """fastparquet's in-memory form {field id: value} says which integers are 32 bits wide through the side markers
    'i32' (all) / 'i32list' (the listed ids); write_thrift emits every other integer as i64.  Returns the fields of `d`
    (recursively) whose wire type would then differ from the one parquet.thrift declares.  i8 / i16 fields are not
    judged (known finding T2)."""
    where = where or sname
    out = []
    if hasattr(d, "contents"):
        d = d.contents
    all32 = "i32" in d and "i32list" not in d
    listed = d.get("i32list") or []
    for f in idl["structs"][sname]["fields"]:
        v = d.get(f["id"])
        if v is None:
            continue
        bt, inner = base_type(idl, f["type"])
        if isinstance(v, bool):
            if bt != "bool":
                out.append("%s.%s: declared %s, holds a Python bool (written with the BOOL wire type)" % (
                    where, f["name"], f["type"]))
            continue
        if bt == "i32" and isinstance(v, int):
            if not (all32 or f["id"] in listed):
                out.append("%s.%s: declared i32, not marked (written as i64)" % (where, f["name"]))
        elif bt == "i64" and isinstance(v, int):
            if all32 or f["id"] in listed:
                out.append("%s.%s: declared i64, marked 32-bit (written as i32)" % (where, f["name"]))
        elif bt == "struct":
            out += marker_faults(idl, inner, v, "%s.%s" % (where, f["name"]))
        elif bt == "list" and inner in idl["structs"]:
            for k, it in enumerate(v):
                out += marker_faults(idl, inner, it, "%s.%s[%d]" % (where, f["name"], k))
    return out
