"""C11 / C01 / C12: the variable-length byte-array codec of speedups.pyx (PLAIN BYTE_ARRAY: 4-byte little-endian
length, then the bytes).  `unpack_byte_array` and `pack_byte_array` are lifted from the .pyx each run (declared pointer
idioms below, drift-guarded against the lines quoted in the generated speedups.c) and executed by CrossHair over
symbolic item lengths, item bytes and trailing padding; every pointer dereference carries the bounds obligation the C
omits."""
import os
import sys
from typing import List

STAGE = os.environ.get("VERIF_STAGE")
if STAGE and STAGE not in sys.path:
    sys.path.insert(0, STAGE)

from vf.pyxlift import lift, rt

PRE = [(r"np\.ndarray\[[^\]]*\]", "object"), (r"\bPy_ssize_t\b", "int64_t"),
       (r"unsigned char \*(\w+)", r"char *\1")]
IDIOMS = [
    (r"<char\*>&(\w+)\[0\]", r"_rt.Ptr(\1, 0)"),
    (r"\(<int\*> ?(\w+)\)\[0\] = (\w+)", r"_rt.store_i32(\1, \2)"),
    (r"\(<int\*> ?(\w+)\)\[0\]", r"_rt.load_i32(\1)"),
    (r"PyUnicode_DecodeUTF8\((\w+), (\w+), \"ignore\"\)", r"_rt.str_at_ptr(\1, \2)"),
    (r"PyBytes_FromStringAndSize\(NULL, (\w+)\)", r"_rt.new_bytes(\1)"),
    (r"PyBytes_FromStringAndSize\((\w+), (\w+)\)", r"_rt.bytes_at_ptr(\1, \2)"),
    (r"memcpy\((\w+), PyBytes_AS_STRING\((\w+)\), (\w+)\)", r"_rt.memcpy_ptr(\1, \2, \3)"),
    (r"<unsigned char \*> ?PyBytes_AS_STRING\((\w+)\)", r"_rt.Ptr(\1, 0)"),
    (r"PyBytes_CheckExact\((\w+)\)", r"_rt.is_bytes(\1)"),
]


def _lift(name):
    src, info = lift.lift(name, module="speedups", pre=PRE, idioms=IDIOMS)
    ns = rt.namespace({"np": rt.NPObj})
    exec(compile(src, "<lifted speedups.%s>" % name, "exec"), ns)
    return ns[name], info


unpack, _iu = _lift("unpack_byte_array")
pack, _ip = _lift("pack_byte_array")
DRIFT = bool(_iu["drift"] or _ip["drift"])


def _encode(items):
    """PLAIN BYTE_ARRAY from the format text"""
    out = []
    for it in items:
        n = len(it)
        out += [n & 0xff, (n >> 8) & 0xff, (n >> 16) & 0xff, (n >> 24) & 0xff]
        out += list(it)
    return out


def _c(v, hi):
    """the same number as a plain Python int (one path per value): buffer layouts are concrete, bytes stay symbolic"""
    for k in range(hi + 1):
        if v == k:
            return k
    raise ValueError(v)


def _items(l0, l1, l2, n, payload):
    lens = [_c(l0, 2), _c(l1, 2), _c(l2, 2)][:_c(n, 3)]
    items, k = [], 0
    for ln in lens:
        items.append(payload[k:k + ln])
        k += ln
    return items


_GUARD = r"""
import ctypes, mmap, sys
import numpy as np
from fastparquet import speedups
raw = bytes.fromhex(sys.argv[1]); n = int(sys.argv[2]); utf = int(sys.argv[3])
page = mmap.PAGESIZE
libc = ctypes.CDLL(None, use_errno=True)
libc.mmap.restype = ctypes.c_void_p
libc.mmap.argtypes = [ctypes.c_void_p, ctypes.c_size_t, ctypes.c_int, ctypes.c_int, ctypes.c_int, ctypes.c_long]
base = libc.mmap(None, 2 * page, 3, 0x22, -1, 0)
libc.mprotect.argtypes = [ctypes.c_void_p, ctypes.c_size_t, ctypes.c_int]
assert libc.mprotect(base + page, page, 0) == 0
start = base + page - len(raw)
ctypes.memmove(start, raw, len(raw))
arr = np.ctypeslib.as_array((ctypes.c_uint8 * max(len(raw), 1)).from_address(start if raw else base))[:len(raw)]
out = speedups.unpack_byte_array(arr, n, utf)
print("ok", len(out))
"""


def _guarded_unpack(raw, n, utf):
    """runs the compiled decoder in a child process on a buffer that ends exactly at an inaccessible page;
    returns a description if the child dies (a read past the end of the buffer), else None"""
    import subprocess
    import sys as _sys
    envv = dict(os.environ)
    envv["PYTHONPATH"] = os.pathsep.join([p for p in (STAGE,) if p] + [envv.get("PYTHONPATH", "")])
    p = subprocess.run([_sys.executable, "-c", _GUARD, bytes(raw).hex(), str(int(n)), str(int(bool(utf)))],
                       capture_output=True, text=True, env=envv, timeout=120)
    if p.returncode < 0:
        return "the process died with signal %d" % (-p.returncode)
    return None


def h_unpack(n: int, l0: int, l1: int, l2: int, payload: List[int], pad: int, utf: bool) -> bool:
    """
    pre: 1 <= n <= 3 and 0 <= l0 <= 2 and 0 <= l1 <= 2 and 0 <= l2 <= 2 and (pad == 0 or pad == 1 or pad == 4 or pad == 8)
    pre: len(payload) == 6 and all(0 <= b <= 255 for b in payload)
    post: __return__
    """
    # n items of 0..2 bytes each, followed by `pad` bytes of page padding: every item comes back, in order, from
    # reads inside the buffer (an item of length zero at the very end of the buffer included)
    items = _items(l0, l1, l2, n, payload)
    buf = _encode(items) + [0] * _c(pad, 8)
    out = unpack(rt.MV(buf), _c(n, 3), 1 if utf else 0)
    want = [("str", it) if utf else it for it in items]
    return out.items == want


def replay_h_unpack(n, l0, l1, l2, payload, pad, utf):
    import numpy as np
    items = _items(l0, l1, l2, n, payload)
    if DRIFT:
        try:
            ok = h_unpack(n, l0, l1, l2, payload, pad, utf)
        except rt.CapacityViolation as ex:
            return True, "speedups.pyx differs from the generated C; the .pyx as written reads outside the page " \
                         "buffer on items %r + %d padding bytes: %s" % (items, pad, ex)
        return (not ok), "speedups.pyx differs from the generated C; the .pyx as written mis-decodes %r" % (items,)
    from fastparquet import speedups
    raw = bytes(_encode(items)) + bytes(pad)
    if utf:
        # keep the item bytes valid UTF-8 for the concrete run
        items = [[b & 0x7f for b in it] for it in items]
        raw = bytes(_encode(items)) + bytes(pad)
    died = _guarded_unpack(raw, n, utf)
    if died:
        return True, "unpack_byte_array on %d items %r followed by %d padding bytes, buffer placed flush against an " \
                     "inaccessible page: %s" % (n, [bytes(it) for it in items], pad, died)
    out = speedups.unpack_byte_array(np.frombuffer(raw, dtype="uint8") if raw else np.zeros(0, "uint8"), n, utf)
    want = [bytes(it).decode() if utf else bytes(it) for it in items]
    if list(out) != want:
        return True, "unpack_byte_array on %d items %r followed by %d padding bytes gives %r" % (n, want, pad, list(out))
    return False, "agrees"


def h_pack(n: int, l0: int, l1: int, l2: int, payload: List[int]) -> bool:
    """
    pre: 0 <= n <= 3 and 0 <= l0 <= 2 and 0 <= l1 <= 2 and 0 <= l2 <= 2
    pre: len(payload) == 6 and all(0 <= b <= 255 for b in payload)
    post: __return__
    """
    # the packed buffer is exactly the specification's encoding, every byte initialised, all stores in bounds
    items = _items(l0, l1, l2, n, payload)
    n = _c(n, 3)
    out = pack(items)
    return out.data == _encode(items)


def replay_h_pack(n, l0, l1, l2, payload):
    items = _items(l0, l1, l2, n, payload)
    if DRIFT:
        ok = h_pack(n, l0, l1, l2, payload)
        return (not ok), "speedups.pyx differs from the generated C; the .pyx as written mis-encodes %r" % (items,)
    from fastparquet import speedups
    got = speedups.pack_byte_array([bytes(it) for it in items])
    if got != bytes(_encode(items)):
        return True, "pack_byte_array(%r) gives %r" % ([bytes(it) for it in items], got)
    return False, "agrees"


def h_pack_unpack(n: int, l0: int, l1: int, l2: int, payload: List[int]) -> bool:
    """
    pre: 1 <= n <= 3 and 0 <= l0 <= 2 and 0 <= l1 <= 2 and 0 <= l2 <= 2
    pre: len(payload) == 6 and all(0 <= b <= 255 for b in payload)
    post: __return__
    """
    # round trip without any padding after the last item (dictionary pages, v2 data pages)
    items = _items(l0, l1, l2, n, payload)
    out = unpack(rt.MV(pack(items).data), _c(n, 3), 0)
    return out.items == items


def replay_h_pack_unpack(n, l0, l1, l2, payload):
    import numpy as np
    items = [bytes(it) for it in _items(l0, l1, l2, n, payload)]
    if DRIFT:
        ok = h_pack_unpack(n, l0, l1, l2, payload)
        return (not ok), "speedups.pyx differs from the generated C; round trip of %r fails in the .pyx as written" % (items,)
    from fastparquet import speedups
    raw = speedups.pack_byte_array(items)
    out = speedups.unpack_byte_array(np.frombuffer(raw, dtype="uint8") if raw else np.zeros(0, "uint8"), n, False)
    if list(out) != items:
        return True, "unpack_byte_array(pack_byte_array(%r)) gives %r" % (items, list(out))
    return False, "agrees"
