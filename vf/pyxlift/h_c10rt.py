"""C10-T2: structure round trip and IDL conformance of the thrift (de)serialiser.
write_thrift / write_list / read_thrift / read_list / dict_eq are lifted from cencoding.pyx; streams are token lists
(vf.pyxlift.idl).  One harness instance per IDL struct (VERIF_STRUCT); integer field values are symbolic over their
declared width, the presence pattern of optional fields and the list lengths are chosen by symbolic indices."""
import os
from typing import List

from vf.pyxlift import rt, thrift_lift, idl as IDLM

NS = thrift_lift.build(tokens=True)
IDL = IDLM.parse()
S = os.environ.get("VERIF_STRUCT", "Statistics")
FIELDS = sorted(IDL["structs"][S]["fields"], key=lambda f: f["id"])
LENS = [0, 1, 2, 14, 15, 16]
FOREIGN_FULL = os.environ.get("VERIF_FOREIGN_FULL", "0") == "1"      # include fields outside the faithful subset
ID = {n: {f["name"]: f["id"] for f in d["fields"]} for n, d in IDL["structs"].items()}


def _int_fields(sname):
    return [f for f in IDL["structs"][sname]["fields"] if IDLM.base_type(IDL, f["type"])[0] in IDLM.WIDTH]


def _struct_outside(sname, seen=()):
    """does the struct (transitively, through required members) need a field outside the faithful subset?"""
    if sname in seen:
        return False
    for f in IDL["structs"][sname]["fields"]:
        bt, inner = IDLM.base_type(IDL, f["type"])
        if f["required"] or IDL["structs"][sname]["kind"] == "union":
            if f["id"] >= 14 or bt in ("i8", "i16"):
                if IDL["structs"][sname]["kind"] != "union":
                    return True
            if bt == "struct" and IDL["structs"][sname]["kind"] != "union" and _struct_outside(inner, seen + (sname,)):
                return True
    return False


def _minimal(sname, depth=0):
    """smallest valid instance (required fields only; unions: their first faithful member), by field name"""
    out = {}
    st = IDL["structs"][sname]
    for f in st["fields"]:
        if st["kind"] == "union":
            bt, inner = IDLM.base_type(IDL, f["type"])
            if not out and f["id"] < 14 and not (bt == "struct" and _struct_outside(inner)):
                out[f["name"]] = _sample(f, depth)
        elif f["required"]:
            out[f["name"]] = _sample(f, depth)
    return out


def _sample(f, depth, ints=None):
    bt, inner = IDLM.base_type(IDL, f["type"])
    if bt in IDLM.WIDTH:
        return ints.pop(0) if ints else 1
    if bt == "bool":
        return True
    if bt == "binary":
        return b"a\x00b"             # binary values (statistics) hold arbitrary bytes
    if bt == "string":
        return "c\x00d"              # so may text (a str is serialised through a char*: every byte counts)
    if bt == "double":
        return 1.5
    if bt == "struct":
        return _minimal(inner, depth + 1)
    if bt == "list":
        ebt, einner = IDLM.base_type(IDL, inner)
        fake = dict(f, type=inner)
        return [_sample(fake, depth + 1)]
    raise ValueError(f["type"])


def patterns():
    """presence patterns of the optional fields: all, none, each one alone absent (first 4), alternating;
    unions: each member alone"""
    if IDL["structs"][S]["kind"] == "union":
        return [{f["name"]} for f in FIELDS if not _outside(f)] or [set()]
    opt = [f["name"] for f in FIELDS if not f["required"]]
    pats = [set(opt), set()]
    for i, n in enumerate(opt[:4]):
        pats.append(set(opt) - {n})
    pats.append({n for i, n in enumerate(opt) if i % 2 == 0})
    return pats


NINT = len(_int_fields(S))


def _outside(f):
    """fields the serialiser is known not to carry faithfully (known findings T2-*): ids >= 14, i8 / i16 fields,
    members whose struct requires such a field"""
    bt, inner = IDLM.base_type(IDL, f["type"])
    return f["id"] >= 14 or bt in ("i8", "i16") or (bt == "struct" and _struct_outside(inner))


HAS_OUTSIDE = any(_outside(f) for f in FIELDS)
ALL_OUTSIDE = _struct_outside(S)            # a required field is outside: only the *_full harnesses apply
PATS = patterns()


def build_value(pat, ints, llen, full=False):
    """value of struct S by field name"""
    present = PATS[pat]
    ints = list(ints)
    v = {}
    for f in FIELDS:
        if not f["required"] and f["name"] not in present:
            continue
        if _outside(f) and not full:
            if IDLM.base_type(IDL, f["type"])[0] in IDLM.WIDTH and ints:
                ints.pop(0)
            continue
        bt, inner = IDLM.base_type(IDL, f["type"])
        if bt in IDLM.WIDTH:
            v[f["name"]] = ints.pop(0) if ints else 1
        elif bt == "list":
            one = _sample(f, 1)[0]
            n = LENS[llen]
            if isinstance(one, dict) and n > 2:
                n = 15 if (n == 15 and f["name"] in ("schema", "columns")) else 2      # long lists of structs: one each
            v[f["name"]] = [one for _ in range(n)]
        else:
            v[f["name"]] = _sample(f, 1)
    return v


def to_fp(sname, value):
    """fastparquet's in-memory form: {field id: value} + the i32 markers a caller would pass (derived from the IDL)"""
    out = {}
    i32s, has64 = [], False
    for f in IDL["structs"][sname]["fields"]:
        if f["name"] not in value:
            continue
        v = value[f["name"]]
        bt, inner = IDLM.base_type(IDL, f["type"])
        if bt == "struct":
            v = to_fp(inner, v)
        elif bt == "list":
            ebt, einner = IDLM.base_type(IDL, inner)
            if ebt == "struct":
                v = [to_fp(einner, e) for e in v]
        elif bt == "i32":
            i32s.append(f["id"])
        elif bt in ("i64", "i16", "i8"):
            has64 = True
        out[f["id"]] = v
    if i32s and not has64:
        out["i32"] = 1
    elif i32s:
        out["i32list"] = i32s
    return out


def in_range(ints):
    fs = _int_fields(S)
    for f, x in zip(fs, ints):
        w = IDLM.WIDTH[IDLM.base_type(IDL, f["type"])[0]]
        if not (-(1 << (w - 1)) <= x < (1 << (w - 1))):
            return False
    return True


def _norm(sname, value):
    """comparison form by name: bytes for strings"""
    out = {}
    for f in IDL["structs"][sname]["fields"]:
        if f["name"] not in value or value[f["name"]] is None:
            continue
        v = value[f["name"]]
        bt, inner = IDLM.base_type(IDL, f["type"])
        if bt in ("string", "binary"):
            v = v.encode() if isinstance(v, str) else v
        elif bt == "struct":
            v = _norm(inner, v)
        elif bt == "list":
            ebt, einner = IDLM.base_type(IDL, inner)
            if ebt == "struct":
                v = [_norm(einner, e) for e in v]
            elif ebt in ("string", "binary"):
                v = [e.encode() if isinstance(e, str) else e for e in v]
        out[f["name"]] = v
    return out


HAS_LIST = any(IDLM.base_type(IDL, f["type"])[0] == "list" for f in FIELDS)


def same(a, b, acc):
    """structural comparison; integer leaves are accumulated fork-free into acc[0]"""
    if isinstance(a, dict):
        if not isinstance(b, dict) or sorted(a) != sorted(b):
            return False
        return all(same(a[k], b[k], acc) for k in a)
    if isinstance(a, list):
        if not isinstance(b, list) or len(a) != len(b):
            return False
        return all(same(x, y, acc) for x, y in zip(a, b))
    if isinstance(a, (bytes, str, bool)) or isinstance(b, (bytes, str, bool)) or a is None or b is None:
        return type(a) == type(b) and a == b
    acc[0] = acc[0] + (a != b)
    return True


def same_tokens(t1, t2, acc):
    if len(t1) != len(t2):
        return False
    for (k1, v1), (k2, v2) in zip(t1, t2):
        if k1 != k2:
            return False
        if k1 == "s":
            if v1 != v2:
                return False
        else:
            acc[0] = acc[0] + (v1 != v2)
    return True


def profile(prof):
    """integer values for the struct's integer fields: 0 small positive, 1 negative, 2 extremes of the declared width"""
    out = []
    for k, f in enumerate(_int_fields(S)):
        w = IDLM.WIDTH[IDLM.base_type(IDL, f["type"])[0]]
        if prof == 0:
            out.append(k + 1)
        elif prof == 1:
            out.append(-(k + 1) * 1000)
        else:
            out.append((1 << (w - 1)) - 1 if k % 2 == 0 else -(1 << (w - 1)))
    return out + [1] * 8


def h_roundtrip(pat: int, llen: int, prof: int) -> bool:
    """
    pre: 0 <= pat < len(PATS) and 0 <= llen < 6 and (HAS_LIST or llen == 1) and 0 <= prof <= 2
    post: __return__
    """
    ints = profile(prof)
    acc = [0]
    x = build_value(pat, ints, llen)
    fp = to_fp(S, x)
    out = rt.TokIO()
    NS["write_thrift"](fp, out)
    toks = list(out.toks)
    # (a) parse back with the library's own reader: equal structure, and re-serialising gives the same stream
    back = NS["read_thrift"](rt.TokIO(list(toks)))
    if not NS["dict_eq"](fp, back):
        return False
    again = rt.TokIO()
    NS["write_thrift"](back, again)
    if not same_tokens(again.toks, toks, acc):
        return False
    # (b) an IDL-driven reference parser accepts the stream, sees the declared ids / wire types, and yields x
    try:
        ref, seen, pos = IDLM.decode(IDL, S, toks, 0)
    except IDLM.Malformed:
        return False
    return pos == len(toks) and same(ref, _norm(S, x), acc) and acc[0] == 0


def h_copy_reserialise(pat: int, llen: int, prof: int) -> bool:
    """
    pre: 0 <= pat < len(PATS) and 0 <= llen < 6 and (HAS_LIST or llen == 1) and 0 <= prof <= 2
    post: __return__
    """
    # a (shallow) copy of a metadata object - what make_part_file, merge and pf[i] serialise - is written exactly like
    # the original: same fields, same wire types (the i32 / i32list markers travel with the copy)
    ints = profile(prof)
    x = build_value(pat, ints, llen)
    fp = to_fp(S, x)
    out = rt.TokIO()
    NS["write_thrift"](fp, out)
    cp = thrift_lift.ThriftObject(S, fp).copy()
    out2 = rt.TokIO()
    NS["write_thrift"](cp.data, out2)
    acc = [0]
    return same_tokens(out2.toks, list(out.toks), acc) and acc[0] == 0 and cp.data is not fp


def replay_h_copy_reserialise(pat, llen, prof):
    import copy
    from fastparquet.cencoding import ThriftObject
    x = build_value(pat, profile(prof), llen)
    t = ThriftObject(S, to_fp(S, x))
    a, b = bytes(t.to_bytes()), bytes(copy.copy(t).to_bytes())
    if a != b:
        return True, "%s: a copy serialises to different bytes than the original (%d vs %d bytes; first difference " \
                     "at %d) for x=%r" % (S, len(b), len(a), next((i for i, (p, q) in enumerate(zip(a, b)) if p != q),
                                                                   min(len(a), len(b))), x)
    return False, "copy serialises identically"


def h_roundtrip_full(llen: int, prof: int) -> bool:
    """
    pre: 0 <= llen < 3 and 0 <= prof <= 2
    post: __return__
    """
    # every IDL field present, including ids >= 14 and i8/i16 fields
    x = build_value(0, profile(prof), llen, full=True)
    out = rt.TokIO()
    NS["write_thrift"](to_fp(S, x), out)
    try:
        ref, seen, pos = IDLM.decode(IDL, S, out.toks, 0)
    except IDLM.Malformed:
        return False
    return pos == len(out.toks) and ref == _norm(S, x)


def replay_h_roundtrip_full(llen, prof):
    from vf.pyxlift import idl_bytes
    x = build_value(0, profile(prof), llen, full=True)
    return idl_bytes.replay_struct(IDL, S, x, to_fp(S, x), _norm(S, x))


def replay_h_roundtrip(pat, llen, prof):
    """compiled ThriftObject: to_bytes / from_buffer round trip and byte-level reference parse"""
    from vf.pyxlift import idl_bytes
    x = build_value(pat, profile(prof), llen)
    return idl_bytes.replay_struct(IDL, S, x, to_fp(S, x), _norm(S, x))


def h_foreign_reserialise(pat: int, llen: int, prof: int) -> bool:
    """
    pre: 0 <= pat < len(PATS) and 0 <= llen < 6 and (HAS_LIST or llen == 1) and 0 <= prof <= 2
    post: __return__
    """
    # metadata written by another implementation (every IDL field present, declared wire types), parsed by the
    # library and serialised again: the result must still follow the IDL and carry the same values
    x = build_value(pat, profile(prof), llen, full=FOREIGN_FULL)
    toks = []
    IDLM.encode(IDL, S, x, toks)
    back = NS["read_thrift"](rt.TokIO(list(toks)))
    out = rt.TokIO()
    NS["write_thrift"](back, out)
    try:
        ref, seen, pos = IDLM.decode(IDL, S, out.toks, 0)
    except IDLM.Malformed:
        return False
    acc = [0]
    return pos == len(out.toks) and same(ref, _norm(S, x), acc) and acc[0] == 0


def replay_h_foreign_reserialise(pat, llen, prof):
    from vf.pyxlift import idl_bytes
    x = build_value(pat, profile(prof), llen, full=FOREIGN_FULL)
    return idl_bytes.replay_foreign(IDL, S, x, _norm(S, x))


# ------------------------------------------------------------------ dict_eq tells different structures apart ---
def _leaves(d, out):
    for k in sorted(x for x in d if isinstance(x, int)):
        v = d[k]
        if isinstance(v, dict):
            _leaves(v, out)
        elif isinstance(v, list):
            for j, e in enumerate(v):
                if isinstance(e, dict):
                    _leaves(e, out)
                else:
                    out.append((v, j))
        elif v is not None and not isinstance(v, bool):
            out.append((d, k))
    return out


def _other(v):
    # a different value of the same kind and the same length
    if isinstance(v, str):
        return v[:-1] + ("e" if v[-1] != "e" else "f")
    if isinstance(v, bytes):
        return v[:-1] + (b"e" if v[-1:] != b"e" else b"f")
    if isinstance(v, float):
        return v + 1.0
    return v + 1


def _pick_w(v):
    for k in range(12):
        if v == k:
            return k
    raise ValueError(v)


def h_dict_eq_distinguishes(pat: int, llen: int, prof: int, which: int, as_bytes: bool) -> bool:
    """
    pre: 0 <= pat < len(PATS) and 0 <= llen <= 2 and (HAS_LIST or llen == 1) and prof == 0 and 0 <= which < 12
    post: __return__
    """
    # ThriftObject.__eq__ (row groups are located in their list with it): two structures that differ in ONE leaf - an
    # integer, a text of the same length, bytes - are different; a str compares equal to its UTF-8 bytes (parsed
    # metadata holds bytes where the writer assigns str)
    import copy
    which = _pick_w(which)
    x = build_value(pat, profile(prof), llen)
    a = to_fp(S, x)
    b = copy.deepcopy(a)
    leaves = _leaves(b, [])
    if which >= len(leaves):
        return True
    cont, key = leaves[which]
    old = cont[key]
    if not NS["dict_eq"](a, b) or not NS["dict_eq"](b, a):
        return False
    if as_bytes and isinstance(old, str):
        if isinstance(cont, dict):
            # (a text FIELD; the elements of a list of texts are compared as they are)
            cont[key] = old.encode()
            if not NS["dict_eq"](a, b):
                return False
        cont[key] = _other(old).encode()
        return not NS["dict_eq"](a, b)
    cont[key] = _other(old)
    return not NS["dict_eq"](a, b) and not NS["dict_eq"](b, a)


def replay_h_dict_eq_distinguishes(pat, llen, prof, which, as_bytes):
    import copy
    from fastparquet.cencoding import ThriftObject
    x = build_value(pat, profile(prof), llen)
    a = to_fp(S, x)
    b = copy.deepcopy(a)
    leaves = _leaves(b, [])
    cont, key = leaves[which]
    old = cont[key]
    cont[key] = _other(old).encode() if (as_bytes and isinstance(old, str)) else _other(old)
    if ThriftObject(S, a) == ThriftObject(S, b):
        return True, "%s: two objects that differ in one field (%r vs %r) compare equal" % (S, old, cont[key])
    return False, "told apart"
