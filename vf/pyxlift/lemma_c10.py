"""C10/C12 lemma: the serialisation-buffer heuristic honours its own premise.
ThriftObject.to_bytes sizes the FileMetaData buffer from the number of row groups and schema elements, assuming at
most 1000 bytes of metadata per column chunk.  The size expressions are taken from the lifted to_bytes (AST), the
32-bit wrap of `cdef int size` included, and z3 decides for all counts within the bound:
      max(size, floor) >= 1000 * row_groups * (schema_elements - 1)        (FileMetaData)
      max(size, floor) >= 1000 * columns                                   (RowGroup)"""
import ast
import os
import sys
import time

import z3

STAGE = os.environ.get("VERIF_STAGE")
if STAGE and STAGE not in sys.path:
    sys.path.insert(0, STAGE)

from vf.pyxlift import lift


def _tr(node, env):
    if isinstance(node, ast.Constant) and isinstance(node.value, int):
        return z3.IntVal(node.value)
    if isinstance(node, ast.BinOp):
        a, b = _tr(node.left, env), _tr(node.right, env)
        if isinstance(node.op, ast.Add):
            return a + b
        if isinstance(node.op, ast.Mult):
            return a * b
        if isinstance(node.op, ast.Sub):
            return a - b
    if isinstance(node, ast.Call):
        key = ast.unparse(node)
        if key in env:
            return env[key]
        f = ast.unparse(node.func)
        if f == "len":
            # the length of something this lemma does not model: an arbitrary natural number (one per distinct text)
            v = z3.Int("len_%d" % len(env))
            env[key] = v
            env.setdefault("__fresh__", []).append(v)
            return v
        if f == "_rt.wrap":
            v = _tr(node.args[0], env)
            bits = node.args[1].value
            m, h = 2 ** bits, 2 ** (bits - 1)
            return ((v + h) % m) - h
    raise ValueError("cannot translate %s" % ast.unparse(node))


def buffer_premise(max_chunks=2000000):
    res = dict(harness="lemma.buffer_premise[ThriftObject.to_bytes]", engine="E3-smt-lemma", status="holds",
               findings=[], inconclusive=[], functions=["cencoding.ThriftObject.to_bytes"],
               shape=dict(max_chunks=max_chunks),
               stats=dict(queries=0, sat=0, unsat=0, unknown=0, solver_ms=0.0, paths=0, steps=0))
    src, info = lift.lift("to_bytes", "ThriftObject")
    tree = ast.parse(src)
    assigns = [n for n in ast.walk(tree) if isinstance(n, ast.Assign) and isinstance(n.targets[0], ast.Name)
               and n.targets[0].id == "size"]
    ifs = [n for n in ast.walk(tree) if isinstance(n, ast.If)]
    floor = None
    for n in ifs:
        t = ast.unparse(n.test)
        if t.startswith("size <"):
            floor = int(ast.unparse(n.test.comparators[0]))
    exprs = {}
    for n in ifs:
        t = ast.unparse(n.test)
        for name in ("RowGroup", "FileMetaData"):
            if name in t and "self.name" in t:
                exprs[name] = n.body[0].value
    if floor is None or set(exprs) != {"RowGroup", "FileMetaData"}:
        res["status"] = "error"
        res["error"] = "could not locate the size expressions in the lifted to_bytes"
        return res
    n_rg, n_schema, n_cols, kv = z3.Ints("n_rg n_schema n_cols kv")
    env = {"len(self[4])": n_rg, "len(self[2])": n_schema, "_rt.len_str(self[5])": kv, "len(self[1])": n_cols}

    def check(s, *extra):
        t = time.time()
        r = str(s.check(*extra))
        res["stats"]["solver_ms"] += (time.time() - t) * 1000
        res["stats"]["queries"] += 1
        res["stats"][r] += 1
        return r
    try:
        size_f = _tr(exprs["FileMetaData"], env)
        size_r = _tr(exprs["RowGroup"], env)
    except ValueError as ex:
        res["status"] = "error"
        res["error"] = str(ex)
        return res
    buf_f = z3.If(size_f < floor, floor, size_f)
    buf_r = z3.If(size_r < floor, floor, size_r)
    s = z3.Solver()
    s.set("timeout", 60000)
    for v in env.get("__fresh__", []):
        s.add(v >= 0, v <= 20000000)
    s.add(n_rg >= 0, n_schema >= 1, kv >= 0, kv <= 20000000, n_cols >= 0, n_rg * n_schema <= max_chunks,
          n_cols <= max_chunks)      # beyond ~2.1M chunks `cdef int size` wraps (outside the bound, see DESIGN)
    if check(s) != "sat":
        res["status"] = "inconclusive"
        return res
    for label, bad, wit in (("FileMetaData", buf_f < 1000 * n_rg * (n_schema - 1), (n_rg, n_schema, kv)),
                            ("FileMetaData-kv", buf_f < kv, (n_rg, n_schema, kv)),
                            ("RowGroup", buf_r < 1000 * n_cols, (n_cols,))):
        r = check(s, bad)
        if r == "sat":
            m = s.model()
            vals = [m.eval(v, model_completion=True).as_long() for v in wit]
            res["status"] = "violation"
            args = dict(zip(("n_rg", "n_schema", "kv"), vals)) if label.startswith("FileMetaData") else dict(n_cols=vals[0])
            what = "the text of its key-value metadata" if label.endswith("-kv") else "1000 bytes per column chunk"
            res["findings"].append(dict(
                kind="contract", function="ThriftObject.to_bytes", obligation="buffer >= " + what,
                detail="%s with %r gets a buffer smaller than %s" % (label, args, what),
                shape=dict(harness="lemma.buffer_premise", struct=label), cls="lemma:buffer_premise",
                witness=dict(driver="py:vf.pyxlift.lemma_c10:replay_buffer_premise", args=dict(struct=label, **args))))
            return res
        if r == "unknown":
            res["status"] = "inconclusive"
            res["inconclusive"].append("solver unknown (%s)" % label)
    res["reached"] = 1
    return res


def replay_buffer_premise(struct, n_rg=0, n_schema=1, kv=0, n_cols=0):
    """metadata whose column chunks carry ~990 bytes each (inside the heuristic's premise), serialised on the ASan
    build of the compiled module"""
    from vf.pyxlift.h_c10cap import _run_sub
    if struct == "FileMetaData-kv":
        if kv > 50000000:
            return None, "witness too large for the concrete driver"
        code = ('''
from fastparquet import parquet_thrift as pt
from fastparquet.cencoding import from_buffer
schema = [pt.SchemaElement(name="r", num_children=1), pt.SchemaElement(type=2, name="c", repetition_type=1)]
t = pt.FileMetaData(version=1, schema=schema, num_rows=0, row_groups=[], created_by="x",
                    key_value_metadata=[pt.KeyValue(key=b"k", value=b"v" * %d)])
b = bytes(t.to_bytes())
u = from_buffer(b, "FileMetaData")
print("OK" if u == t else "MISMATCH output truncated or altered: %%d bytes" %% len(b))
''' % kv)
        return _run_sub(code)
    if struct != "FileMetaData":
        return None, "no concrete driver for %s" % struct
    if n_rg * (n_schema - 1) > 6000:
        return None, "witness too large for the concrete driver"
    code = '''
from fastparquet import parquet_thrift as pt
from fastparquet.cencoding import from_buffer
n_rg, n_cols = %d, %d
schema = [pt.SchemaElement(name="r", num_children=n_cols)] + [pt.SchemaElement(type=2, name="c%%d" %% i,
          repetition_type=1) for i in range(n_cols)]
pad = "p" * 900
rgs = [pt.RowGroup(columns=[pt.ColumnChunk(file_path="part.%%d.parquet" %% r, file_offset=4, meta_data=pt.ColumnMetaData(
    type=2, encodings=[0, 3], path_in_schema=[pad + str(c)], codec=0, num_values=10, total_uncompressed_size=100,
    total_compressed_size=100, data_page_offset=4)) for c in range(n_cols)], total_byte_size=100, num_rows=10)
    for r in range(n_rg)]
t = pt.FileMetaData(version=1, schema=schema, num_rows=10 * n_rg, row_groups=rgs, key_value_metadata=[],
                    created_by="x")
b = bytes(t.to_bytes())
u = from_buffer(b, "FileMetaData")
print("OK" if u == t else "MISMATCH output truncated or altered: %%d bytes" %% len(b))
''' % (n_rg, max(n_schema - 1, 0))
    return _run_sub(code)
