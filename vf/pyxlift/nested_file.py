"""Spec-level builder of a small Parquet file holding one LIST<int64> column with given definition/repetition
levels and page splits (v1 data pages, PLAIN values, RLE levels as bit-packed runs), used to replay C15 witnesses
through the public reader."""
import os
import struct


def _uleb(n):
    out = bytearray()
    while n > 127:
        out.append((n & 0x7f) | 0x80)
        n >>= 7
    out.append(n)
    return bytes(out)


def _levels(vals, width):
    """hybrid encoding: one bit-packed run covering all values (padded to a multiple of 8), with 4-byte length"""
    if width == 0:
        return b""
    groups = (len(vals) + 7) // 8
    padded = list(vals) + [0] * (groups * 8 - len(vals))
    bits = 0
    for i, v in enumerate(padded):
        bits |= v << (i * width)
    body = _uleb((groups << 1) | 1) + bits.to_bytes(groups * width, "little")
    return struct.pack("<I", len(body)) + body


def _v2_page(pt, d, r, wd, nv, vi, maxd, plain=False):
    """DATA_PAGE_V2 with RLE_DICTIONARY values (indices vi..vi+nv-1 into a dictionary page) - or PLAIN values -,
    levels without the 4-byte length prefix, not compressed"""
    rl, dl = _levels(r, 1)[4:], _levels(d, wd)[4:]
    if plain:
        vals = b"".join(struct.pack("<q", 100 + vi + j) for j in range(nv))
        body = rl + dl + vals
        nn = sum(1 for x in d if x != maxd)
        ph = pt.PageHeader(type=3, uncompressed_page_size=len(body), compressed_page_size=len(body),
                           data_page_header_v2=pt.DataPageHeaderV2(
                               num_values=len(d), num_nulls=nn, num_rows=sum(1 for x in r if x == 0), encoding=0,
                               definition_levels_byte_length=len(dl), repetition_levels_byte_length=len(rl),
                               is_compressed=False, i32=1), i32=1)
        return bytes(ph.to_bytes()) + body
    idx = list(range(vi, vi + nv))
    w = 4
    vals = bytes([w])
    if idx:
        groups = (len(idx) + 7) // 8
        bits = 0
        for i, v in enumerate(idx + [0] * (groups * 8 - len(idx))):
            bits |= v << (i * w)
        vals += _uleb((groups << 1) | 1) + bits.to_bytes(groups * w, "little")
    body = rl + dl + vals
    nn = sum(1 for x in d if x != maxd)
    ph = pt.PageHeader(type=3, uncompressed_page_size=len(body), compressed_page_size=len(body),
                       data_page_header_v2=pt.DataPageHeaderV2(
                           num_values=len(d), num_nulls=nn, num_rows=sum(1 for x in r if x == 0), encoding=8,
                           definition_levels_byte_length=len(dl), repetition_levels_byte_length=len(rl),
                           is_compressed=False, i32=1), i32=1)
    return bytes(ph.to_bytes()) + body


def build(path, defi, rep, splits, opt_list, opt_elem, maxd, version=1, encs=None):
    from fastparquet import parquet_thrift as pt
    from fastparquet.cencoding import ThriftObject
    thr = 2 if opt_list else 1
    wd = max(maxd, 1).bit_length()
    data = bytearray(b"PAR1")
    start = len(data)
    bounds = [0] + list(splits) + [len(rep)]
    vi = 0
    dict_off = None
    if version == 2 or (encs and "d" in encs):
        total = sum(1 for x in defi if x == maxd and x >= thr)
        assert total <= 15
        body = b"".join(struct.pack("<q", 100 + j) for j in range(total))
        ph = pt.PageHeader(type=2, uncompressed_page_size=len(body), compressed_page_size=len(body),
                           dictionary_page_header=pt.DictionaryPageHeader(num_values=total, encoding=0, i32=1), i32=1)
        dict_off = start
        data += bytes(ph.to_bytes()) + body
    first_data = len(data)
    for a, b in zip(bounds[:-1], bounds[1:]):
        if a == b:
            continue
        d, r = defi[a:b], rep[a:b]
        nv = sum(1 for x in d if x == maxd and x >= thr)
        if version == 2:
            data += _v2_page(pt, d, r, wd, nv, vi, maxd, plain=bool(encs) and encs[0] == "P")
            vi += nv
            continue
        if encs and encs[len([x for x in bounds[1:] if x <= a and x > 0])] == "d":
            # v1 page with RLE_DICTIONARY values: bit width byte, one bit-packed run of indices
            idx, w = list(range(vi, vi + nv)), 5
            vals = bytes([w])
            if idx:
                groups = (len(idx) + 7) // 8
                bits = 0
                for i, v in enumerate(idx + [0] * (groups * 8 - len(idx))):
                    bits |= v << (i * w)
                vals += _uleb((groups << 1) | 1) + bits.to_bytes(groups * w, "little")
            vi += nv
            body = _levels(r, 1) + _levels(d, wd) + vals
            ph = pt.PageHeader(type=0, uncompressed_page_size=len(body), compressed_page_size=len(body),
                               data_page_header=pt.DataPageHeader(num_values=len(d), encoding=8,
                                                                  definition_level_encoding=3,
                                                                  repetition_level_encoding=3, i32=1), i32=1)
            data += bytes(ph.to_bytes()) + body
            continue
        vals = b"".join(struct.pack("<q", 100 + vi + j) for j in range(nv))
        vi += nv
        body = _levels(r, 1) + _levels(d, wd) + vals
        ph = pt.PageHeader(type=0, uncompressed_page_size=len(body), compressed_page_size=len(body),
                           data_page_header=pt.DataPageHeader(num_values=len(d), encoding=0,
                                                              definition_level_encoding=3,
                                                              repetition_level_encoding=3, i32=1), i32=1)
        data += bytes(ph.to_bytes()) + body
    size = len(data) - start
    md = pt.ColumnMetaData(type=2, encodings=[0, 3] + ([8] if version == 2 else []),
                           path_in_schema=["col", "list", "element"], codec=0,
                           num_values=len(rep), total_uncompressed_size=size, total_compressed_size=size,
                           data_page_offset=first_data, dictionary_page_offset=dict_off)
    nrows = sum(1 for x in rep if x == 0)
    rg = pt.RowGroup(columns=[pt.ColumnChunk(file_offset=start, meta_data=md)], total_byte_size=size,
                     num_rows=nrows)
    schema = [pt.SchemaElement(name="schema", num_children=1),
              pt.SchemaElement(name="col", num_children=1, repetition_type=1 if opt_list else 0, converted_type=3),
              pt.SchemaElement(name="list", num_children=1, repetition_type=2),
              pt.SchemaElement(name="element", type=2, repetition_type=1 if opt_elem else 0)]
    fmd = pt.FileMetaData(version=1, schema=schema, num_rows=nrows, row_groups=[rg], created_by="spec-level builder",
                          i32list=[1])
    foot = bytes(fmd.to_bytes())
    data += foot + struct.pack("<I", len(foot)) + b"PAR1"
    with open(path, "wb") as f:
        f.write(bytes(data))


def _plain_bools(vals):
    out = bytearray((len(vals) + 7) // 8)
    for i, v in enumerate(vals):
        if v:
            out[i // 8] |= 1 << (i % 8)
    return bytes(out)


def build_two_lists(path, rows_a, opt_list_a, opt_elem_a, rows_b, opt_list_b, opt_elem_b, boolean=False):
    """two LIST<INT64> columns a, b (v1 pages, PLAIN values, one page each); rows are lists of ints (no NULLs stored:
    only the schema's nullabilities differ)"""
    from fastparquet import parquet_thrift as pt
    data = bytearray(b"PAR1")
    chunks, schema = [], [pt.SchemaElement(name="schema", num_children=2)]
    for name, rows, ol, oe in (("a", rows_a, opt_list_a, opt_elem_a), ("b", rows_b, opt_list_b, opt_elem_b)):
        maxd = (1 if ol else 0) + 1 + (1 if oe else 0)
        defi, rep, vals = [], [], []
        for row in rows:
            for j, v in enumerate(row):
                defi.append(maxd)
                rep.append(0 if j == 0 else 1)
                vals.append(v)
        start = len(data)
        body = _levels(rep, 1) + _levels(defi, max(maxd, 1).bit_length()) + (
            _plain_bools(vals) if boolean else b"".join(struct.pack("<q", v) for v in vals))
        ph = pt.PageHeader(type=0, uncompressed_page_size=len(body), compressed_page_size=len(body),
                           data_page_header=pt.DataPageHeader(num_values=len(defi), encoding=0,
                                                              definition_level_encoding=3,
                                                              repetition_level_encoding=3, i32=1), i32=1)
        data += bytes(ph.to_bytes()) + body
        size = len(data) - start
        md = pt.ColumnMetaData(type=0 if boolean else 2, encodings=[0, 3], path_in_schema=[name, "list", "element"],
                               codec=0, num_values=len(defi), total_uncompressed_size=size,
                               total_compressed_size=size, data_page_offset=start)
        chunks.append(pt.ColumnChunk(file_offset=start, meta_data=md))
        schema += [pt.SchemaElement(name=name, num_children=1, repetition_type=1 if ol else 0, converted_type=3),
                   pt.SchemaElement(name="list", num_children=1, repetition_type=2),
                   pt.SchemaElement(name="element", type=0 if boolean else 2, repetition_type=1 if oe else 0)]
    rg = pt.RowGroup(columns=chunks, total_byte_size=len(data) - 4, num_rows=len(rows_a))
    fmd = pt.FileMetaData(version=1, schema=schema, num_rows=len(rows_a), row_groups=[rg],
                          created_by="spec-level builder", i32list=[1])
    foot = bytes(fmd.to_bytes())
    data += foot + struct.pack("<I", len(foot)) + b"PAR1"
    with open(path, "wb") as f:
        f.write(bytes(data))


def replay_list(defi, rep, splits, opt_list, opt_elem, maxd, want, version=1, encs=None):
    import shutil, tempfile
    import fastparquet
    d = tempfile.mkdtemp(prefix="c15-")
    try:
        fn = os.path.join(d, "nested.parq")
        build(fn, defi, rep, splits, opt_list, opt_elem, maxd, version=version, encs=encs)
        try:
            out = fastparquet.ParquetFile(fn).to_pandas()["col"].tolist()
        except Exception as ex:
            return True, "LIST column (v%d pages, def=%r rep=%r pages split at %r, list %s, element %s) cannot be read: %s: %s" % (
                version, defi, rep, splits, "optional" if opt_list else "required", "optional" if opt_elem else "required",
                type(ex).__name__, str(ex)[:80])
        got = [x if x is None else [None if e is None else int(e) for e in x] for x in out]
        if got != want:
            return True, "LIST column (v%d pages, def=%r rep=%r pages split at %r, list %s, element %s) reads as %r, " \
                         "record assembly gives %r" % (version, defi, rep, splits, "optional" if opt_list else "required",
                                                "optional" if opt_elem else "required", got, want)
        return False, "agrees"
    finally:
        shutil.rmtree(d, ignore_errors=True)


def build_map_then_int(path, a_values, null_count_a=None, rows_map=None):
    """one row group: a MAP<int64,int64> column `m` (one entry {k: 10*k} per row, row k) followed by an OPTIONAL INT64
    column `a` with the given values (None = NULL); v1 pages, PLAIN; chunk statistics carry truthful null counts
    (m.key / m.value: 0, a: as given)"""
    from fastparquet import parquet_thrift as pt
    n = len(a_values)
    data = bytearray(b"PAR1")
    chunks = []

    def add_chunk(pathv, body_levels, values, num_values, nulls):
        start = len(data)
        vals = b"".join(struct.pack("<q", v) for v in values)
        body = body_levels + vals
        ph = pt.PageHeader(type=0, uncompressed_page_size=len(body), compressed_page_size=len(body),
                           data_page_header=pt.DataPageHeader(num_values=num_values, encoding=0,
                                                              definition_level_encoding=3,
                                                              repetition_level_encoding=3, i32=1), i32=1)
        blob = bytes(ph.to_bytes()) + body
        data.extend(blob)
        st = pt.Statistics(null_count=nulls)
        md = pt.ColumnMetaData(type=2, encodings=[0, 3], path_in_schema=pathv, codec=0, num_values=num_values,
                               total_uncompressed_size=len(blob), total_compressed_size=len(blob),
                               data_page_offset=start, statistics=st)
        chunks.append(pt.ColumnChunk(file_offset=start, meta_data=md))

    keys = list(range(1, n + 1))
    add_chunk(["m", "key_value", "key"], _levels([0] * n, 1) + _levels([2] * n, 2), keys, n, 0)
    add_chunk(["m", "key_value", "value"], _levels([0] * n, 1) + _levels([3] * n, 2), [10 * k for k in keys], n, 0)
    present = [v for v in a_values if v is not None]
    add_chunk(["a"], _levels([0 if v is None else 1 for v in a_values], 1), present, n,
              null_count_a if null_count_a is not None else n - len(present))
    size = len(data) - 4
    rg = pt.RowGroup(columns=chunks, total_byte_size=size, num_rows=n)
    schema = [pt.SchemaElement(name="schema", num_children=2),
              pt.SchemaElement(name="m", num_children=1, repetition_type=1, converted_type=1),
              pt.SchemaElement(name="key_value", num_children=2, repetition_type=2),
              pt.SchemaElement(name="key", type=2, repetition_type=0),
              pt.SchemaElement(name="value", type=2, repetition_type=1),
              pt.SchemaElement(name="a", type=2, repetition_type=1)]
    fmd = pt.FileMetaData(version=1, schema=schema, num_rows=n, row_groups=[rg], created_by="spec-level builder",
                          i32list=[1])
    foot = bytes(fmd.to_bytes())
    data += foot + struct.pack("<I", len(foot)) + b"PAR1"
    with open(path, "wb") as f:
        f.write(bytes(data))


def build_map(path, rows, opt_map):
    """one row group, one MAP<int64 required, int64 optional> column `m` plus a required INT64 column `x`;
    rows = [(keys, values)] with None for a NULL map, [] for an empty one, None values for NULL values"""
    from fastparquet import parquet_thrift as pt
    base = 1 if opt_map else 0                     # definition level of "map present but empty"
    kd, kr, kv, vd, vr, vv = [], [], [], [], [], []
    for ks, vs in rows:
        if ks is None:
            kd.append(0); kr.append(0); vd.append(0); vr.append(0)
        elif not ks:
            kd.append(base); kr.append(0); vd.append(base); vr.append(0)
        else:
            for j, (k, v) in enumerate(zip(ks, vs)):
                kd.append(base + 1); kr.append(0 if j == 0 else 1); kv.append(k)
                vd.append(base + 2 if v is not None else base + 1); vr.append(0 if j == 0 else 1)
                if v is not None:
                    vv.append(v)
    n = len(rows)
    data = bytearray(b"PAR1")
    chunks = []

    def add(pathv, rep, de, width_d, vals, nvals):
        start = len(data)
        body = (_levels(rep, 1) if rep is not None else b"") + (_levels(de, width_d) if de is not None else b"") + \
            b"".join(struct.pack("<q", v) for v in vals)
        ph = pt.PageHeader(type=0, uncompressed_page_size=len(body), compressed_page_size=len(body),
                           data_page_header=pt.DataPageHeader(num_values=nvals, encoding=0,
                                                              definition_level_encoding=3,
                                                              repetition_level_encoding=3, i32=1), i32=1)
        blob = bytes(ph.to_bytes()) + body
        data.extend(blob)
        md = pt.ColumnMetaData(type=2, encodings=[0, 3], path_in_schema=pathv, codec=0, num_values=nvals,
                               total_uncompressed_size=len(blob), total_compressed_size=len(blob),
                               data_page_offset=start)
        chunks.append(pt.ColumnChunk(file_offset=start, meta_data=md))

    wk = max(base + 1, 1).bit_length()
    wv = max(base + 2, 1).bit_length()
    add(["m", "key_value", "key"], kr, kd, wk, kv, len(kd))
    add(["m", "key_value", "value"], vr, vd, wv, vv, len(vd))
    add(["x"], None, None, 0, [7 + i for i in range(n)], n)
    rg = pt.RowGroup(columns=chunks, total_byte_size=len(data) - 4, num_rows=n)
    schema = [pt.SchemaElement(name="schema", num_children=2),
              pt.SchemaElement(name="m", num_children=1, repetition_type=1 if opt_map else 0, converted_type=1),
              pt.SchemaElement(name="key_value", num_children=2, repetition_type=2),
              pt.SchemaElement(name="key", type=2, repetition_type=0),
              pt.SchemaElement(name="value", type=2, repetition_type=1),
              pt.SchemaElement(name="x", type=2, repetition_type=0)]
    fmd = pt.FileMetaData(version=1, schema=schema, num_rows=n, row_groups=[rg], created_by="spec-level builder",
                          i32list=[1])
    foot = bytes(fmd.to_bytes())
    data += foot + struct.pack("<I", len(foot)) + b"PAR1"
    with open(path, "wb") as f:
        f.write(bytes(data))
