"""C10-T4 / C12: the serialisation buffer.  Lifted ThriftObject.to_bytes + write_thrift/write_list run in size-only
mode: every raw memcpy carries the obligation loc + n <= nbytes (the C does not check it) and every checked write must
not be dropped (truncated output).  String/bytes lengths are unbounded symbolic naturals."""
import os
from typing import List

from vf.pyxlift import rt, thrift_lift
from vf.pyxlift.rt import LB

NS = thrift_lift.build(size_only=True)
MAXLEN = 8 * 2 ** 20          # lengths up to 8 MB (metadata 'up to several MB'); keeps witnesses replayable
TO = thrift_lift.ThriftObject
FLOOR = 500000


def _stats(nmax, nmin):
    return {1: LB(nmax), 2: LB(nmin), 3: 0}


def _fmd(n_rg, n_col, name_len, path_len, smax, smin, kv_k, kv_v, n_kv, created):
    schema = [{4: LB(name_len), 5: n_col}] + [{1: 2, 4: LB(name_len), 3: 1} for _ in range(n_col)]
    rgs = []
    for _ in range(n_rg):
        cols = [{1: LB(path_len), 2: 0, 3: {1: 2, 2: [0, 3], 3: [LB(name_len)], 4: 0, 5: 10, 6: 100, 7: 100, 9: 4,
                                              12: _stats(smax, smin)}} for _ in range(n_col)]
        rgs.append({1: cols, 2: 100, 3: 10})
    kvs = [{1: LB(kv_k), 2: LB(kv_v)} for _ in range(n_kv)]
    return TO("FileMetaData", {1: 1, 2: schema, 3: 10, 4: rgs, 5: kvs, 6: LB(created)})


def _payload(n_rg, n_col, name_len, path_len, smax, smin, kv_k, kv_v, n_kv, created):
    return ((1 + n_col) * name_len + n_rg * n_col * (path_len + name_len + smax + smin) + n_kv * (kv_k + kv_v)
            + created)


def _serialise(obj):
    """True: serialised completely inside the buffer; False: overrun or dropped write"""
    try:
        obj.to_bytes()
    except rt.CapacityViolation:
        return False
    except rt.Dropped:
        return False
    return True


def h_statistics_capacity(smax: int, smin: int) -> bool:
    """
    pre: 0 <= smax <= MAXLEN and 0 <= smin <= MAXLEN
    post: __return__
    """
    # a page/column Statistics struct on its own (as written inside every data page header)
    return _serialise(TO("Statistics", _stats(smax, smin)))


def replay_h_statistics_capacity(smax, smin):
    return _replay_struct("Statistics", "dict(max=b'x' * %d, min=b'y' * %d, null_count=0)" % (smax, smin))


def h_statistics_capacity_rest(smax: int, smin: int) -> bool:
    """
    pre: 0 <= smax and 0 <= smin and smax + smin + 64 <= FLOOR
    post: __return__
    """
    # inside what the sizing heuristic provides for (payload + framing below the 500000-byte floor) nothing overruns
    return _serialise(TO("Statistics", _stats(smax, smin)))


def replay_h_statistics_capacity_rest(smax, smin):
    return _replay_struct("Statistics", "dict(max=b'x' * %d, min=b'y' * %d, null_count=0)" % (smax, smin))


def h_filemeta_capacity(n_rg: int, n_col: int, name_len: int, path_len: int, smax: int, smin: int, kv_k: int,
                        kv_v: int, n_kv: int, created: int) -> bool:
    """
    pre: 0 <= n_rg <= 2 and 1 <= n_col <= 2 and 0 <= n_kv <= 2
    pre: 0 <= name_len and 0 <= path_len and 0 <= smax and 0 <= smin and 0 <= kv_k and 0 <= kv_v and 0 <= created
    pre: max(name_len, path_len, smax, smin, kv_k, kv_v, created) <= MAXLEN
    post: __return__
    """
    return _serialise(_fmd(n_rg, n_col, name_len, path_len, smax, smin, kv_k, kv_v, n_kv, created))


def replay_h_filemeta_capacity(n_rg, n_col, name_len, path_len, smax, smin, kv_k, kv_v, n_kv, created):
    return _replay_fmd(n_rg, n_col, name_len, path_len, smax, smin, kv_k, kv_v, n_kv, created)


SHAPE = [int(x) for x in os.environ.get("VERIF_FMD_SHAPE", "1,1,1").split(",")]     # row groups, columns, key-values


def h_filemeta_capacity_rest(name_len: int, smax: int, kv_v: int) -> bool:
    """
    pre: 0 <= name_len and 0 <= smax and 0 <= kv_v
    pre: _payload(SHAPE[0], SHAPE[1], name_len, 1, smax, 1, 1, kv_v, SHAPE[2], 1) + 1000 <= FLOOR
    post: __return__
    """
    # inside what the sizing heuristic provides for (payload + generous framing below the floor) nothing overruns and
    # no checked write is dropped
    return _serialise(_fmd(SHAPE[0], SHAPE[1], name_len, 1, smax, 1, 1, kv_v, SHAPE[2], 1))


def replay_h_filemeta_capacity_rest(name_len, smax, kv_v):
    return _replay_fmd(SHAPE[0], SHAPE[1], name_len, 1, smax, 1, 1, kv_v, SHAPE[2], 1)


def h_filemeta_capacity_kv(kv_k: int, kv_v: int) -> bool:
    """
    pre: 0 <= kv_k <= MAXLEN and 0 <= kv_v <= MAXLEN
    post: __return__
    """
    # user key-value metadata of any size (every other string tiny): the sizing heuristic counts the key-value text,
    # so nothing overruns and nothing is dropped however large the custom metadata is
    return _serialise(_fmd(SHAPE[0], SHAPE[1], 1, 1, 1, 1, kv_k, kv_v, SHAPE[2], 1))


def replay_h_filemeta_capacity_kv(kv_k, kv_v):
    return _replay_fmd(SHAPE[0], SHAPE[1], 1, 1, 1, 1, kv_k, kv_v, SHAPE[2], 1)


# --------------------------------------------------------------------------------- replay ---
def _run_sub(code):
    """serialise in a subprocess on the ASan build: the expected failure mode is heap corruption"""
    import subprocess, sys, json
    from vf import env, core
    stage = env.stage_dir(sanitize=True)
    asan = subprocess.run(["clang-14", "-print-file-name=libclang_rt.asan-x86_64.so"], capture_output=True,
                          text=True).stdout.strip()
    envv = dict(os.environ, LD_PRELOAD=asan, ASAN_OPTIONS="detect_leaks=0:halt_on_error=1", PYTHONPATH=stage)
    envv.pop("VERIF_REPLAY", None)
    p = subprocess.run([sys.executable, "-c", code], capture_output=True, text=True, env=envv, timeout=300)
    msg = [ln for ln in p.stderr.split("\n") if "ERROR: AddressSanitizer" in ln]
    if msg:
        return True, "compiled ThriftObject.to_bytes: " + msg[0].strip()[:200]
    if p.returncode < 0:
        return True, "process died with signal %d while serialising" % -p.returncode
    out = p.stdout.strip().split("\n")[-1] if p.stdout.strip() else ""
    if out.startswith("MISMATCH"):
        return True, out
    if p.returncode != 0:
        # a Python exception is an acceptable outcome for oversized metadata
        return False, "raised: " + p.stderr.strip().split("\n")[-1][:200]
    return False, "serialised and parsed back intact"


def _replay_struct(name, fields):
    code = ("import numpy as np\nfrom fastparquet.cencoding import ThriftObject, from_buffer\n"
            "t = ThriftObject.from_fields(%r, **%s)\nb = bytes(t.to_bytes())\nu = from_buffer(b, %r)\n"
            "print('OK' if u == t else 'MISMATCH output truncated or altered: %%d bytes' %% len(b))\n" % (name, fields, name))
    return _run_sub(code)


def _replay_fmd(n_rg, n_col, name_len, path_len, smax, smin, kv_k, kv_v, n_kv, created):
    code = '''
import numpy as np
from fastparquet.cencoding import ThriftObject, from_buffer
from fastparquet import parquet_thrift as pt
n_rg, n_col, name_len, path_len, smax, smin, kv_k, kv_v, n_kv, created = %r
schema = [pt.SchemaElement(name="r" * name_len, num_children=n_col)] + [
    pt.SchemaElement(type=2, name="c" * name_len, repetition_type=1) for _ in range(n_col)]
rgs = []
for _ in range(n_rg):
    cols = [pt.ColumnChunk(file_path="p" * path_len, file_offset=0, meta_data=pt.ColumnMetaData(
        type=2, encodings=[0, 3], path_in_schema=["c" * name_len], codec=0, num_values=10, total_uncompressed_size=100,
        total_compressed_size=100, data_page_offset=4,
        statistics=pt.Statistics(max=b"x" * smax, min=b"y" * smin, null_count=0))) for _ in range(n_col)]
    rgs.append(pt.RowGroup(columns=cols, total_byte_size=100, num_rows=10))
kvs = [pt.KeyValue(key=b"k" * kv_k, value=b"v" * kv_v) for _ in range(n_kv)]
t = pt.FileMetaData(version=1, schema=schema, num_rows=10, row_groups=rgs, key_value_metadata=kvs,
                    created_by="z" * created)
b = bytes(t.to_bytes())
u = from_buffer(b, "FileMetaData")
print("OK" if u == t else "MISMATCH output truncated or altered: %%d bytes" %% len(b))
''' % ((n_rg, n_col, name_len, path_len, smax, smin, kv_k, kv_v, n_kv, created),)
    return _run_sub(code)
