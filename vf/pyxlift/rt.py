"""Runtime for lifted Cython code: C integer wrapping, a Python NumpyIO with the bounds obligations the C omits, and
pure-Python twins of the leaf kernels (whose agreement with the compiled kernels is the E1 obligation of
read_varint / encode_varint / zigzag harnesses in C11)."""


class CapacityViolation(Exception):
    """a raw (unchecked) write or read would leave the buffer: memory corruption in the real code"""


class Dropped(Exception):
    """a checked write was silently dropped because the buffer was full: truncated output"""


def wrap(v, bits, signed):
    if isinstance(v, bool):
        return int(v)
    if bits == 1:
        return 1 if v else 0
    m = 1 << bits
    if signed:
        h = m >> 1
        if -h <= v < h:
            return v
        return ((v + h) % m) - h
    if 0 <= v < m:
        return v
    return v % m


def as_i64(v):
    if not (-(1 << 63) <= v < (1 << 63)):
        raise OverflowError("Python int too large to convert to C long")
    return v


class PyNumpyIO:
    """cencoding.NumpyIO: raw char* + loc + nbytes.  content=None -> size-only mode (capacity harnesses)."""

    def __init__(self, nbytes, content=None, strict_drop=False):
        self.nbytes = nbytes
        self.loc = 0
        self.data = content            # list of ints, or None
        self.strict_drop = strict_drop
        self.dropped = 0
        self.events = []

    # ---- checked writers (silently return when full) ----
    def write_byte(self, b):
        if self.loc >= self.nbytes:
            self.dropped += 1
            if self.strict_drop:
                raise Dropped("write_byte at %r of %r" % (self.loc, self.nbytes))
            return
        if self.data is not None:
            self.data[self.loc] = b & 0xff
        self.loc += 1

    def write_int(self, i):
        if self.nbytes - self.loc < 4:
            self.dropped += 1
            if self.strict_drop:
                raise Dropped("write_int")
            return
        if self.data is not None:
            for k in range(4):
                self.data[self.loc + k] = (i >> (8 * k)) & 0xff
        self.loc += 4

    # ---- unchecked readers ----
    def read_byte(self):
        if not (0 <= self.loc < self.nbytes):
            raise CapacityViolation("read_byte at %r of %r" % (self.loc, self.nbytes))
        out = self.data[self.loc]
        self.loc += 1
        return out

    def tell(self):
        return self.loc

    def seek(self, loc, whence=0):
        if whence == 0:
            self.loc = loc
        elif whence == 1:
            self.loc += loc
        elif whence == 2:
            self.loc = self.nbytes + loc
        if self.loc > self.nbytes:
            self.loc = self.nbytes
        return self.loc

    def so_far(self):
        return self.data[:self.loc] if self.data is not None else None


def strlen(b):
    """C strlen of the buffer of a Python bytes object (which carries a terminating NUL after its last byte)"""
    n = 0
    for x in bytes(b):
        if x == 0:
            return n
        n += 1
    return n


def memcpy_to(io, src, n):
    """memcpy(io.get_pointer(), src, n): unchecked in the C"""
    if n < 0 or io.loc + n > io.nbytes:
        raise CapacityViolation("memcpy of %r bytes at %r into a buffer of %r" % (n, io.loc, io.nbytes))
    if io.data is not None:
        for k in range(n):
            io.data[io.loc + k] = src[k]
    io.events.append(("memcpy", n))


def store_double(io, d):
    if io.loc + 8 > io.nbytes:
        raise CapacityViolation("double store at %r of %r" % (io.loc, io.nbytes))
    if io.data is not None:
        import struct
        for k, b in enumerate(struct.pack("<d", d)):
            io.data[io.loc + k] = b


def load_double(io):
    # NB the .pyx reads `<double>data.get_pointer()[0]`: the *byte* at the cursor converted to double
    if not (0 <= io.loc < io.nbytes):
        raise CapacityViolation("double load")
    b = io.data[io.loc]
    return float(b - 256 if b > 127 else b)


def bytes_at(io, n):
    if n < 0:
        raise SystemError("Negative size passed to PyBytes_FromStringAndSize")
    if io.loc + n > io.nbytes:
        raise CapacityViolation("bytes_at %r+%r of %r" % (io.loc, n, io.nbytes))
    return bytes(io.data[io.loc:io.loc + n])


def str_at(io, n):
    return bytes_at(io, n).decode("utf8", "ignore")


def corrupt(*a):
    raise ValueError("Corrupted thrift data")


# ------------------------------------------------------------ leaf kernels (spec twins, tied to the C by E1) ----
def read_unsigned_var_int(io):
    result, shift = 0, 0
    while True:
        byte = io.read_byte()
        result |= (byte & 0x7f) << shift
        if byte & 0x80 == 0:
            break
        shift += 7
    return result & ((1 << 64) - 1)


def encode_unsigned_varint(x, io):
    x = x & ((1 << 64) - 1)
    while x > 127:
        io.write_byte((x & 0x7f) | 0x80)
        x >>= 7
    io.write_byte(x)


def varint_len(x):
    n = 1
    lim = 128
    while x >= lim and n < 10:
        n += 1
        lim *= 128
    return n


def encode_unsigned_varint_size(x, io):
    """size-only twin of encode_unsigned_varint (same number of checked write_byte calls, content not stored)"""
    n = varint_len(x)
    if io.loc + n > io.nbytes:
        io.dropped += 1
        if io.strict_drop:
            raise Dropped("varint of %r bytes at %r of %r" % (n, io.loc, io.nbytes))
        io.loc = max(io.loc, min(io.nbytes, io.loc + n))
        return
    io.loc += n


def zigzag_long(n):
    v = (n >> 1) ^ -(n & 1)
    return wrap(v, 64, True)


def long_zigzag(n):
    return ((n << 1) ^ (n >> 63)) & ((1 << 64) - 1)


class LB(bytes):
    """bytes object of symbolic length n (content opaque): for capacity obligations"""

    def __new__(cls, n):
        o = bytes.__new__(cls)
        o.n = n
        return o


def size(b):
    return b.n if isinstance(b, LB) else len(b)


def len_str(x):
    """len(str(x)) for the key-value list of a FileMetaData: the shortest text a list of {1: bytes, 2: bytes} dicts
    can print as (printable ASCII content) - the smallest buffer the heuristic can pick, i.e. the worst case"""
    if x is None:
        return 4
    total = 2
    for k, e in enumerate(x):
        total += 16 + size(e.get(1, b"")) + size(e.get(2, b"")) + (2 if k else 0)
    return total


class SizeBuf:
    def __init__(self, n):
        self.n = n


class NPShim:
    @staticmethod
    def empty(n, dtype=None):
        return SizeBuf(n)


class MV:
    """typed memoryview over a Python list (what `const uint8_t[:]` / `object[:]` parameters look like)"""

    def __init__(self, items):
        self.items = items
        self.shape = (len(items),)

    def __getitem__(self, i):
        if not (0 <= i < len(self.items)):
            raise CapacityViolation("memoryview index %r out of range %r (boundscheck is off in the C)" %
                                    (i, len(self.items)))
        return self.items[i]

    def __setitem__(self, i, v):
        if not (0 <= i < len(self.items)):
            raise CapacityViolation("memoryview store %r out of range %r" % (i, len(self.items)))
        self.items[i] = v


def namespace(extra=None):
    import sys
    ns = {"_rt": sys.modules[__name__], "read_unsigned_var_int": read_unsigned_var_int,
          "encode_unsigned_varint": encode_unsigned_varint, "zigzag_long": zigzag_long, "long_zigzag": long_zigzag}
    if extra:
        ns.update(extra)
    return ns


# --------------------------------------------------------------- token streams (structure-level harnesses) ---
class TokIO:
    """NumpyIO twin whose content is a token list: ('b', byte) ('v', varint value) ('s', bytes).  Unbounded."""

    def __init__(self, toks=None):
        self.toks = toks if toks is not None else []
        self.pos = 0
        self.loc = 0
        self.nbytes = 1 << 60

    def write_byte(self, b):
        self.toks.append(("b", b & 0xff))

    def read_byte(self):
        if self.pos >= len(self.toks):
            raise CapacityViolation("read past the end of the stream")
        k, b = self.toks[self.pos]
        if k != "b":
            raise ValueError("byte expected in stream, found %s" % k)
        self.pos += 1
        return b

    def norm(self):
        return list(self.toks)

    def tell(self):
        return self.pos

    def seek(self, n, whence=0):
        # only used to step over bytes just taken with bytes_at/str_at
        if whence != 1:
            raise ValueError("absolute seek on a token stream")
        k, s = self.toks[self.pos]
        if k != "s" or len(s) != n:
            raise ValueError("seek over %r bytes but next token is %r" % (n, (k, s)))
        self.pos += 1
        return self.pos


def tok_encode_varint(x, io):
    if type(x) is int and 0 <= x < 128:
        io.toks.append(("b", x))          # a one-byte varint is that byte
    else:
        io.toks.append(("v", x))


def tok_read_varint(io):
    if io.pos >= len(io.toks):
        raise CapacityViolation("read past the end of the stream")
    k, v = io.toks[io.pos]
    if k == "b" and v < 128:
        io.pos += 1
        return v
    if k != "v":
        raise ValueError("varint expected in stream, found %s" % k)
    io.pos += 1
    return v


def tok_long_zigzag(n):
    return 2 * abs(n) - (n < 0)


def tok_zigzag_long(u):
    return (u // 2) * (1 - 2 * (u % 2)) - (u % 2)


_orig_memcpy_to, _orig_bytes_at = memcpy_to, bytes_at


def memcpy_to(io, src, n):       # noqa: F811  (token-aware wrapper)
    if isinstance(io, TokIO):
        io.toks.append(("s", bytes(src[:n])))
        return
    return _orig_memcpy_to(io, src, n)


def bytes_at(io, n):             # noqa: F811
    if isinstance(io, TokIO):
        if n < 0:
            raise SystemError("Negative size passed to PyBytes_FromStringAndSize")
        k, s = io.toks[io.pos]
        if k != "s" or len(s) != n:
            raise ValueError("%r bytes expected in stream, found %r" % (n, (k, s)))
        return s
    return _orig_bytes_at(io, n)


def str_at(io, n):               # noqa: F811
    return bytes_at(io, n).decode("utf8", "ignore")


# --------------------------------------------------------------- raw pointers (speedups.pyx) ---
class Ptr:
    """char* into a byte region (list of ints); immutable, arithmetic returns a new pointer.  Forming a pointer is
    never an obligation, dereferencing is."""

    def __init__(self, region, off=0):
        self.region = region.items if isinstance(region, MV) else (region.data if isinstance(region, NewBytes) else region)
        self.off = off

    def __add__(self, n):
        return Ptr(self.region, self.off + n)

    def __sub__(self, other):
        if isinstance(other, Ptr):
            return self.off - other.off
        return Ptr(self.region, self.off - other)

    def check(self, n, what):
        if n < 0 or self.off < 0 or self.off + n > len(self.region):
            raise CapacityViolation("%s of %r bytes at offset %r of a buffer of %r" % (what, n, self.off, len(self.region)))


def load_i32(p):
    p.check(4, "int load")
    v = 0
    for k in range(4):
        v = v + p.region[p.off + k] * (1 << (8 * k))
    return v - (1 << 32) if v >= (1 << 31) else v


def store_i32(p, v):
    p.check(4, "int store")
    v = wrap(v, 32, False)
    for k in range(4):
        p.region[p.off + k] = (v // (1 << (8 * k))) % 256


def bytes_at_ptr(p, n):
    if n < 0:
        raise SystemError("Negative size passed to PyBytes_FromStringAndSize")
    p.check(n, "bytes read")
    return list(p.region[p.off:p.off + n])


def str_at_ptr(p, n):
    p.check(n, "string read")
    return ("str", list(p.region[p.off:p.off + n]))


class NewBytes:
    """PyBytes_FromStringAndSize(NULL, n): uninitialised bytes object of n bytes"""

    def __init__(self, n):
        if n < 0:
            raise SystemError("Negative size passed to PyBytes_FromStringAndSize")
        self.data = ["uninit"] * n


def new_bytes(n):
    return NewBytes(n)


def memcpy_ptr(dst, src, n):
    if n < 0:
        raise CapacityViolation("memcpy with negative length %r" % (n,))
    dst.check(n, "memcpy store")
    if len(src) < n:
        raise CapacityViolation("memcpy reads %r bytes from a value of %r" % (n, len(src)))
    for k in range(n):
        dst.region[dst.off + k] = src[k]


def is_bytes(v):
    return isinstance(v, list)          # harness values: a bytes object is a list of byte values


class ObjArr:
    """np.empty(n, dtype=object) with the index obligation (boundscheck is off in the C)"""

    def __init__(self, n):
        self.items = [None] * n
        self.shape = (n,)

    def __setitem__(self, i, v):
        if not (0 <= i < len(self.items)):
            raise CapacityViolation("object array store %r out of range %r" % (i, len(self.items)))
        self.items[i] = v

    def __getitem__(self, i):
        if not (0 <= i < len(self.items)):
            raise CapacityViolation("object array load %r out of range %r" % (i, len(self.items)))
        return self.items[i]


class NPObj:
    @staticmethod
    def empty(n, dtype=None):
        return ObjArr(n)
