"""E3: mechanical lift of object-level Cython functions of fastparquet/cencoding.pyx to Python.

Regenerated from the working tree on every run.  What the lifter does (and nothing else):
  * finds a function by name, strips C types from its signature,
  * turns `cdef` declarations into initialisers + a table {variable: C type},
  * rewrites the few cast / pointer idioms that occur into calls on the runtime below (which carry the bounds
    obligations the C omits),
  * wraps every assignment to a C-typed integer variable to the width of that type (AST pass).
A construct it does not recognise raises LiftError -> harness error, never a verdict.

Drift guard: the generated C quotes every .pyx line it was generated from; every lifted line must be quoted in the
*current* cencoding.c (otherwise the .c that is compiled no longer corresponds to the .pyx that is lifted).
"""
import ast
import os
import re

from vf import env


class LiftError(Exception):
    pass


CTYPES = {"int": (32, True), "int32_t": (32, True), "uint32_t": (32, False), "int64_t": (64, True),
          "uint64_t": (64, False), "char": (8, True), "unsigned char": (8, False), "int8_t": (8, True),
          "uint8_t": (8, False), "bint": (1, False), "double": None, "bytes": None, "str": None, "list": None,
          "dict": None, "ThriftObject": None, "NumpyIO": None, "object": None, "char *": None}

_type_re = "|".join(sorted((re.escape(t) for t in CTYPES), key=len, reverse=True))


def pyx_source(module="cencoding"):
    with open(os.path.join(env.PKG, module + ".pyx")) as f:
        return f.read()


def quoted_pyx_lines(module="cencoding"):
    """set of (lineno, stripped text) of pyx lines quoted in the generated C"""
    out = {}
    with open(env.c_path(module)) as f:
        c = f.read()
    for m in re.finditer(r'/\* "fastparquet/%s\.pyx":(\d+)\n(.*?)\*/' % module, c, re.S):
        ln = int(m.group(1))
        for row in m.group(2).split("\n"):
            mm = re.match(r" \* (.*?)\s*# <<<<<<<<<<<<<<\s*$", row)
            if mm:
                out[ln] = mm.group(1).strip()
    return out


def extract(src, name, cls=None):
    """(start line index, list of lines) of function `name` (optionally a method of cdef class cls)"""
    lines = src.split("\n")
    pat = re.compile(r"^(\s*)(?:def|cpdef|cdef)\s+(?:[\w\[\]:, ]+?\s+)??%s\s*\(" % re.escape(name))
    in_cls = cls is None
    cls_indent = None
    for i, ln in enumerate(lines):
        if cls is not None:
            m = re.match(r"^cdef class (\w+)", ln)
            if m:
                in_cls = m.group(1) == cls
        if not in_cls:
            continue
        m = pat.match(ln)
        if m and (cls is None) == (m.group(1) == ""):
            indent = len(m.group(1))
            j = i + 1
            while j < len(lines):
                l2 = lines[j]
                if l2.strip() and (len(l2) - len(l2.lstrip())) <= indent and not l2.lstrip().startswith(("#", ")")):
                    break
                j += 1
            body = lines[i:j]
            while body and not body[-1].strip():
                body.pop()
            # include decorators? not needed
            return i, [b[indent:] for b in body]
    raise LiftError("function %s%s not found in the .pyx" % ((cls + ".") if cls else "", name))


def _strip_sig(line):
    m = re.match(r"^(?:def|cpdef|cdef)\s+(?:[\w\[\]:, *]+?\s+)??(\w+)\s*\((.*)\)\s*:\s*(#.*)?$", line)
    if not m:
        raise LiftError("cannot parse signature: " + line)
    name, params = m.group(1), m.group(2)
    out = []
    types = {}
    for p in [x.strip() for x in params.split(",") if x.strip()]:
        default = None
        if "=" in p:
            p, default = [x.strip() for x in p.split("=", 1)]
        toks = p.split()
        pname = toks[-1].lstrip("*")
        ptype = " ".join(toks[:-1])
        ptype = re.sub(r"\[.*\]", "[]", ptype).replace("const ", "")
        if ptype in CTYPES and CTYPES[ptype]:
            types[pname] = ptype
        out.append(pname + ("=" + default if default is not None else ""))
    return name, "def %s(%s):" % (name, ", ".join(out)), types


IDIOMS = [
    # (regex, replacement)  -- the complete list of pointer / cast idioms recognised
    (r"memcpy\(<void\*>(\w+)\.get_pointer\(\), <void\*>(\w+), (\w+)\)", r"_rt.memcpy_to(\1, \2, \3)"),
    (r"\(<double\*>(\w+)\.get_pointer\(\)\)\[0\] = (\w+)", r"_rt.store_double(\1, \2)"),
    (r"<double>(\w+)\.get_pointer\(\)\[0\]", r"_rt.load_double(\1)"),
    (r"PyBytes_FromStringAndSize\((\w+)\.get_pointer\(\), (\w+)\)", r"_rt.bytes_at(\1, \2)"),
    (r"PyUnicode_DecodeUTF8\((\w+)\.get_pointer\(\), (\w+), \"ignore\"\)", r"_rt.str_at(\1, \2)"),
    (r"PyBytes_GET_SIZE\((?:<bytes>)?(\w+)\)", r"_rt.size(\1)"),
    (r"len\(str\(([^()]+)\)\)", r"_rt.len_str(\1)"),
    (r"\(<ThriftObject>(\w+)\)\.data", r"\1.data"),
    (r"<(?:list|dict|str|bytes)>(\w+)", r"\1"),
    (r"\(<(?:list|dict|str|bytes)>(\w+)\)", r"\1"),
    (r"<int64_t>(\w+)", r"_rt.as_i64(\1)"),
    (r"<uint32_t>", r""),
]


def lift(name, cls=None, check_drift=True, module="cencoding", pre=(), idioms=()):
    """returns (python source, info dict).  `pre`: declared (regex, replacement) pairs applied to the raw lines before
    declarations are parsed; `idioms`: further declared pointer/cast idioms (tried before the common list)"""
    src = pyx_source(module)
    start, lines = extract(src, name, cls)

    # multi-line signature: join until the parentheses balance
    hdr, nh = lines[0], 1
    while hdr.count("(") != hdr.count(")") or not hdr.rstrip().endswith(":"):
        hdr = hdr.rstrip() + " " + lines[nh].strip()
        nh += 1
    lines = [hdr] + lines[nh:]
    start += nh - 1
    fname, sig, types = _strip_sig(lines[0])
    charptrs = set()           # variables declared `char *`
    out = [sig]
    inits = []
    used_lines = []
    in_cdef_block = False
    block_indent = 0
    body_indent = None
    for k, ln in enumerate(lines[1:], start=1):
        raw = ln                      # the line as written (what the generated C quotes)
        for rx, rep in pre:
            ln = re.sub(rx, rep, ln)
        stripped = ln.strip()
        if body_indent is None and stripped and not stripped.startswith('"""'):
            body_indent = len(ln) - len(ln.lstrip())
        if in_cdef_block:
            if stripped and (len(ln) - len(ln.lstrip())) > block_indent:
                decl = stripped
                ind = " " * block_indent
            else:
                in_cdef_block = False
                decl = None
        else:
            decl = None
        if not in_cdef_block and re.match(r"^\s*cdef:\s*$", ln):
            in_cdef_block = True
            block_indent = len(ln) - len(ln.lstrip())
            continue
        if decl is None:
            m = re.match(r"^(\s*)cdef\s+(.*)$", ln)
            if m:
                ind, decl = m.group(1), m.group(2)
        if decl is not None:
            decl = decl.split("#")[0].strip()
            m = re.match(r"^(?:const\s+)?(%s)(\[[^\]]*\])?\s*(\*)?\s*(.*)$" % _type_re, decl)
            if not m:
                raise LiftError("unrecognised declaration in %s: %r" % (name, raw))
            ctype = m.group(1)
            if m.group(3):
                ctype = "char *"
            if m.group(2):
                ctype = "object"       # typed memoryview, not a scalar
            rest = m.group(4)
            # split on commas not inside parentheses/brackets
            parts, depth, cur = [], 0, ""
            for ch in rest:
                if ch in "([":
                    depth += 1
                elif ch in ")]":
                    depth -= 1
                if ch == "," and depth == 0:
                    parts.append(cur)
                    cur = ""
                else:
                    cur += ch
            if cur.strip():
                parts.append(cur)
            for p in parts:
                p = p.strip()
                if "=" in p:
                    v, e = [x.strip() for x in p.split("=", 1)]
                    v = v.lstrip("*").strip()
                    if CTYPES.get(ctype):
                        types[v] = ctype
                    out.append("%s%s = %s" % (ind, v, e))
                    used_lines.append((start + k + 1, raw.strip()))
                else:
                    v = p.lstrip("*").strip()
                    if CTYPES.get(ctype):
                        types[v] = ctype
                    if ctype == "char *":
                        charptrs.add(v)
            continue
        if stripped.startswith("print("):
            out.append(ln.replace("print(", "_rt.corrupt("))
            continue
        out.append(ln)
        if stripped and not stripped.startswith("#") and not stripped.startswith('"""'):
            used_lines.append((start + k + 1, raw.strip()))
    text = "\n".join(out)
    for rx, rep in list(idioms) + IDIOMS:
        text = re.sub(rx, rep, text)
    for v in sorted(charptrs):
        # Cython: len() of a char* is strlen() - the bytes up to the first NUL
        text = re.sub(r"\blen\(\s*%s\s*\)" % re.escape(v), "_rt.strlen(%s)" % v, text)
    if re.search(r"<\s*[\w ]+\*?\s*>", text.split('"""')[-1] if '"""' in text else text):
        bad = re.search(r".*<\s*[\w ]+\*?\s*>.*", text)
        # tolerate comparison chains like a < b > c? none occur; treat as unrecognised cast
        if bad and not re.search(r"[<>]=?\s*\d", bad.group(0)):
            raise LiftError("unrecognised cast idiom in %s: %s" % (name, bad.group(0).strip()))
    try:
        tree = ast.parse(text)
    except SyntaxError as ex:
        raise LiftError("lifted %s is not valid Python: %s\n%s" % (name, ex, text))
    tree = _Wrap(types).visit(tree)
    ast.fix_missing_locations(tree)
    drift = []
    if check_drift:
        q = quoted_pyx_lines(module)
        for ln, txt in used_lines:
            txt0 = txt.split("  #")[0].strip()
            if ln in q:
                if q[ln].split("  #")[0].strip() != txt0:
                    drift.append((ln, txt0, q[ln]))
    return ast.unparse(tree), dict(name=name, types=types, lines=len(used_lines), drift=drift, start=start + 1)


class _Wrap(ast.NodeTransformer):
    """x = e  ->  x = _rt.wrap(e, bits, signed) for C-typed integer variables (assignment and augmented assignment)"""

    def __init__(self, types):
        self.types = types

    def _w(self, name, value):
        t = CTYPES.get(self.types.get(name))
        if not t:
            return value
        return ast.Call(func=ast.Attribute(value=ast.Name(id="_rt", ctx=ast.Load()), attr="wrap", ctx=ast.Load()),
                        args=[value, ast.Constant(t[0]), ast.Constant(t[1])], keywords=[])

    def visit_Assign(self, node):
        self.generic_visit(node)
        if len(node.targets) == 1 and isinstance(node.targets[0], ast.Name):
            node.value = self._w(node.targets[0].id, node.value)
        return node

    def visit_AugAssign(self, node):
        self.generic_visit(node)
        if isinstance(node.target, ast.Name) and CTYPES.get(self.types.get(node.target.id)):
            val = ast.BinOp(left=ast.Name(id=node.target.id, ctx=ast.Load()), op=node.op, right=node.value)
            return ast.Assign(targets=[ast.Name(id=node.target.id, ctx=ast.Store())],
                              value=self._w(node.target.id, val))
        return node

    def visit_For(self, node):
        self.generic_visit(node)
        return node
