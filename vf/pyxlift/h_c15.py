"""C15 - LIST assembly.  The real `_assemble_objects` (lifted from cencoding.pyx at import time, drift-guarded against
the generated C) is run page by page over symbolic definition/repetition level streams that satisfy the validity
predicate of the schema shape, with an arbitrary page split, and compared with a Dremel record-assembly reference."""
import os
import sys
from typing import List

STAGE = os.environ.get("VERIF_STAGE")
if STAGE and STAGE not in sys.path:
    sys.path.insert(0, STAGE)

from vf.pyxlift import lift, rt

_src, _info = lift.lift("_assemble_objects")
# .pyx edited without regenerating the C (Cython is absent here): the .pyx is then the code under test and
# counterexamples are replayed on the lifted function instead of the (stale) compiled one
DRIFT = bool(_info["drift"])
_ns = rt.namespace()
exec(compile(_src, "<lifted _assemble_objects>", "exec"), _ns)
assemble = _ns["_assemble_objects"]

N = int(os.environ.get("VERIF_N", "4"))                 # number of level entries (lattice parameter)
OPT_LIST = os.environ.get("VERIF_OPT_LIST", "1") == "1"   # optional vs required LIST group
OPT_ELEM = os.environ.get("VERIF_OPT_ELEM", "1") == "1"   # optional vs required element
THR = 2 if OPT_LIST else 1                               # definition level at which an element slot exists
MAXD = THR + (1 if OPT_ELEM else 0) - 1 + (0 if OPT_ELEM else 0)
MAXD = THR if not OPT_ELEM else THR + 1
# element slot exists for de >= THR; element is a value iff de == MAXD (if OPT_ELEM, de == THR means NULL element)
if not OPT_ELEM:
    MAXD = THR


def valid(defi, rep):
    """validity predicate of the schema shape (what a conforming writer can emit)"""
    if len(defi) != len(rep) or not rep or rep[0] != 0:
        return False
    for k in range(len(rep)):
        if not (0 <= rep[k] <= 1 and 0 <= defi[k] <= MAXD):
            return False
        if rep[k] == 1 and not (defi[k] >= THR and defi[k - 1] >= THR):
            return False      # a repeated entry continues a non-empty list
    return True


def dremel(defi, rep):
    """record assembly from the format text (3-level LIST)"""
    rows = []
    vi = 0
    for k in range(len(rep)):
        de = defi[k]
        elem = None
        if de == MAXD and de >= THR:
            elem = 100 + vi
            vi += 1
        if rep[k] == 0:
            if OPT_LIST and de == 0:
                rows.append(None)
            elif de < THR:
                rows.append([])
            else:
                rows.append([elem])
        else:
            rows[-1].append(elem)
    return rows


def run_pages(defi, rep, splits):
    nrows = sum(1 for r in rep if r == 0)
    assign = rt.MV([None] * nrows)
    prev = 0
    vi = 0
    bounds = [0] + list(splits) + [len(rep)]
    for a, b in zip(bounds[:-1], bounds[1:]):
        if a == b:
            continue
        d, r = defi[a:b], rep[a:b]
        nv = sum(1 for x in d if x == MAXD and x >= THR)
        vals = [100 + vi + j for j in range(nv)]
        vi += nv
        i = assemble(assign, rt.MV(d), rt.MV(r), vals, None, False, 1 if OPT_LIST else 0, OPT_ELEM, MAXD, prev)
        prev = 1 + i
    return assign.items


def h_assemble_split(defi: List[int], rep: List[int], split: int) -> bool:
    """
    pre: len(defi) == N and len(rep) == N and 0 < split < N
    pre: valid(defi, rep)
    post: __return__
    """
    return run_pages(defi, rep, [split]) == dremel(defi, rep)


def replay_h_assemble_split(defi, rep, split):
    return _replay(defi, rep, [split])


def h_assemble_rowsplit(defi: List[int], rep: List[int], split: int) -> bool:
    """
    pre: len(defi) == N and len(rep) == N and 0 < split < N
    pre: valid(defi, rep) and rep[split] == 0
    post: __return__
    """
    # pages that start on a row boundary (always the case for v2 pages and for most writers)
    return run_pages(defi, rep, [split]) == dremel(defi, rep)


def replay_h_assemble_rowsplit(defi, rep, split):
    return _replay(defi, rep, [split])


def h_assemble_two_splits(defi: List[int], rep: List[int], s1: int, s2: int) -> bool:
    """
    pre: len(defi) == N and len(rep) == N and 0 < s1 < s2 < N
    pre: valid(defi, rep)
    post: __return__
    """
    return run_pages(defi, rep, [s1, s2]) == dremel(defi, rep)


def replay_h_assemble_two_splits(defi, rep, s1, s2):
    return _replay(defi, rep, [s1, s2])


def h_assemble_one_page(defi: List[int], rep: List[int]) -> bool:
    """
    pre: len(defi) == N and len(rep) == N
    pre: valid(defi, rep)
    post: __return__
    """
    return run_pages(defi, rep, []) == dremel(defi, rep)


def replay_h_assemble_one_page(defi, rep):
    return _replay(defi, rep, [])


def _replay(defi, rep, splits):
    """compiled cencoding._assemble_objects on the same pages"""
    if DRIFT:
        got, want = run_pages(defi, rep, splits), dremel(defi, rep)
        if got != want:
            return True, "cencoding.pyx differs from the generated C (stale .c); the .pyx as written gives %r for " \
                         "def=%r rep=%r split=%r, record assembly gives %r" % (got, defi, rep, splits, want)
        return False, "agrees"
    import numpy as np
    from fastparquet import cencoding
    nrows = sum(1 for r in rep if r == 0)
    assign = np.empty(nrows, dtype=object)
    prev, vi = 0, 0
    bounds = [0] + list(splits) + [len(rep)]
    for a, b in zip(bounds[:-1], bounds[1:]):
        d = np.array(defi[a:b], dtype="uint8")
        r = np.array(rep[a:b], dtype="uint8")
        nv = int((d == MAXD).sum()) if MAXD >= THR else 0
        vals = np.arange(100 + vi, 100 + vi + nv, dtype="int64")
        vi += nv
        i = cencoding._assemble_objects(assign, d, r, vals, None, False, 1 if OPT_LIST else 0, OPT_ELEM, MAXD, prev)
        prev = 1 + i
    got = [x if x is None else [None if e is None else int(e) for e in x] for x in assign]
    want = dremel(defi, rep)
    if got != want:
        return True, "levels def=%r rep=%r split=%r (list %s, element %s): compiled _assemble_objects gives %r, " \
                     "record assembly gives %r" % (defi, rep, splits, "optional" if OPT_LIST else "required",
                                                   "optional" if OPT_ELEM else "required", got, want)
    return False, "agrees"


# ------------------------------------------------------------------------------------------------------
# The page loop around the assembler: real core.read_col + real schema.SchemaHelper on the schema shape.
# read_col derives `null`, `null_val`, `max_defi` from the schema and carries the row index across pages.
import fastparquet.core as core
from fastparquet import parquet_thrift
from fastparquet.schema import SchemaHelper


def _schema():
    rep_list = 1 if OPT_LIST else 0        # FieldRepetitionType: REQUIRED=0 OPTIONAL=1 REPEATED=2
    rep_elem = 1 if OPT_ELEM else 0
    return [parquet_thrift.SchemaElement(name="schema", num_children=1),
            parquet_thrift.SchemaElement(name="col", num_children=1, repetition_type=rep_list, converted_type=3),
            parquet_thrift.SchemaElement(name="list", num_children=1, repetition_type=2),
            parquet_thrift.SchemaElement(name="element", type=2, repetition_type=rep_elem)]


class _Levels(rt.MV):
    def __len__(self):
        return len(self.items)


class _Assign(rt.MV):
    class dtype:
        kind = "O"


class _PH:
    def __init__(self, n):
        self.type = parquet_thrift.PageType.DATA_PAGE
        self.data_page_header = parquet_thrift.DataPageHeader(num_values=n, encoding=parquet_thrift.Encoding.PLAIN)


class _InIO:
    def __init__(self, pages):
        self.pages, self.k = pages, 0

    def tell(self):
        return self.k


class _Raw:
    def seek(self, off):
        pass

    def read(self, n):
        return b""


PAGES = [None]


class _EncNS:
    _assemble_objects = staticmethod(assemble)

    @staticmethod
    def NumpyIO(buf):
        return _InIO(PAGES[0])


class _TO:
    @staticmethod
    def from_buffer(infile, name):
        d, r, v = infile.pages[infile.k]
        return _PH(len(d))


def _s_read_data_page(infile, schema_helper, ph, cmd, skip_nulls=False, selfmade=False):
    d, r, v = infile.pages[infile.k]
    infile.k += 1
    return _Levels(d), _Levels(r), v


def run_read_col(defi, rep, splits):
    nrows = sum(1 for r in rep if r == 0)
    assign = _Assign([None] * nrows)
    pages, vi = [], 0
    bounds = [0] + list(splits) + [len(rep)]
    for a, b in zip(bounds[:-1], bounds[1:]):
        if a == b:
            continue
        d, r = defi[a:b], rep[a:b]
        nv = sum(1 for x in d if x == MAXD and x >= THR)
        pages.append((d, r, [100 + vi + j for j in range(nv)]))
        vi += nv
    PAGES[0] = pages
    md = parquet_thrift.ColumnMetaData(type=2, path_in_schema=["col", "list", "element"], num_values=len(rep),
                                       data_page_offset=4, total_compressed_size=100)
    col = parquet_thrift.ColumnChunk(meta_data=md)
    saved = (core.encoding, core.ThriftObject, core.read_data_page)
    core.encoding, core.ThriftObject, core.read_data_page = _EncNS, _TO, _s_read_data_page
    try:
        core.read_col(col, HELPER, _Raw(), assign=assign)
    finally:
        core.encoding, core.ThriftObject, core.read_data_page = saved
    return assign.items


HELPER = SchemaHelper(_schema())


def h_read_col_list(defi: List[int], rep: List[int], split: int) -> bool:
    """
    pre: len(defi) == N and len(rep) == N and 0 <= split < N
    pre: valid(defi, rep)
    post: __return__
    """
    # split == 0: a single page
    return run_read_col(defi, rep, [split] if split else []) == dremel(defi, rep)


def replay_h_read_col_list(defi, rep, split):
    """a real file: LIST column written by a spec-level page builder, read through ParquetFile.to_pandas"""
    from vf.pyxlift import nested_file
    return nested_file.replay_list(defi, rep, [split] if split else [], OPT_LIST, OPT_ELEM, MAXD, dremel(defi, rep))


# ------------------------------------------------------------------------------------------------------
# Dictionary fallback inside a chunk: a dictionary page, then data pages that are dictionary-encoded or PLAIN
# (a writer falls back to PLAIN when the dictionary grows too large).  read_col keeps the dictionary for the whole
# chunk and tells the assembler per page whether the values are indices.
ENCS = [x for x in os.environ.get("VERIF_ENCS", "d,p").split(",") if x]


class _Dic:
    def __init__(self, labels):
        self.labels = labels

    def __getitem__(self, val):
        return [self.labels[i] for i in val]


class _PHm:
    def __init__(self, n, kind):
        if kind == "dict-page":
            self.type = parquet_thrift.PageType.DICTIONARY_PAGE
            return
        self.type = parquet_thrift.PageType.DATA_PAGE
        enc = parquet_thrift.Encoding.RLE_DICTIONARY if kind == "d" else parquet_thrift.Encoding.PLAIN
        self.data_page_header = parquet_thrift.DataPageHeader(num_values=n, encoding=enc)


class _InIOm(_InIO):
    def __init__(self, pages):
        _InIO.__init__(self, pages)
        self.dict_done = False


class _EncNSm(_EncNS):
    @staticmethod
    def NumpyIO(buf):
        return _InIOm(PAGES[0])


class _TOm:
    @staticmethod
    def from_buffer(infile, name):
        if not infile.dict_done:
            return _PHm(0, "dict-page")
        d, r, v = infile.pages[infile.k]
        return _PHm(len(d), ENCS[infile.k])


def _s_read_dictionary_page_m(infile, schema_helper, ph, cmd, utf=False):
    infile.dict_done = True
    return _Dic([100 + j for j in range(32)])


def run_read_col_mixed(defi, rep, split):
    nrows = sum(1 for r in rep if r == 0)
    assign = _Assign([None] * nrows)
    pages, vi = [], 0
    for k, (a, b) in enumerate(((0, split), (split, len(rep)))):
        d, r = defi[a:b], rep[a:b]
        nv = sum(1 for x in d if x == MAXD and x >= THR)
        if ENCS[k] == "d":
            pages.append((d, r, [vi + j for j in range(nv)]))            # dictionary indices
        else:
            pages.append((d, r, [100 + vi + j for j in range(nv)]))      # the values themselves
        vi += nv
    PAGES[0] = pages
    md = parquet_thrift.ColumnMetaData(type=2, path_in_schema=["col", "list", "element"], num_values=len(rep),
                                       data_page_offset=4, total_compressed_size=100)
    col = parquet_thrift.ColumnChunk(meta_data=md)
    saved = (core.encoding, core.ThriftObject, core.read_data_page, core.read_dictionary_page, core.convert)
    core.encoding, core.ThriftObject, core.read_data_page = _EncNSm, _TOm, _s_read_data_page
    core.read_dictionary_page = _s_read_dictionary_page_m
    core.convert = lambda v, se, dtype=None: v
    try:
        core.read_col(col, HELPER, _Raw(), assign=assign)
    finally:
        core.encoding, core.ThriftObject, core.read_data_page, core.read_dictionary_page, core.convert = saved
    return assign.items


def h_read_col_list_mixed(defi: List[int], rep: List[int], split: int) -> bool:
    """
    pre: len(defi) == N and len(rep) == N and 0 < split < N
    pre: valid(defi, rep)
    post: __return__
    """
    return run_read_col_mixed(defi, rep, split) == dremel(defi, rep)


def replay_h_read_col_list_mixed(defi, rep, split):
    from vf.pyxlift import nested_file
    return nested_file.replay_list(defi, rep, [split], OPT_LIST, OPT_ELEM, MAXD, dremel(defi, rep), version=1,
                                   encs=ENCS)
