"""Byte-level twins of the token codec (for replay on the compiled module)."""
from vf.pyxlift import idl as IDLM


def _uleb(n):
    out = bytearray()
    while n > 127:
        out.append((n & 0x7f) | 0x80)
        n >>= 7
    out.append(n)
    return bytes(out)


def to_bytes(toks):
    out = bytearray()
    for k, v in toks:
        if k == "b":
            out.append(v)
        elif k == "v":
            out += _uleb(v)
        else:
            out += v
    return bytes(out)


def to_tokens(idl, sname, data, pos=0):
    """parse bytes into tokens following the IDL-independent compact protocol structure (types from the wire)"""
    toks = []

    def varint(p):
        v, s = 0, 0
        while True:
            b = data[p]
            p += 1
            v |= (b & 0x7f) << s
            s += 7
            if not b & 0x80:
                return v, p

    def value(wt, p):
        if wt in (1, 2):
            return p
        if wt == 3:
            toks.append(("b", data[p]))
            return p + 1
        if wt in (4, 5, 6):
            v, p = varint(p)
            toks.append(("v", v))
            return p
        if wt == 8:
            n, p = varint(p)
            toks.append(("v", n))
            toks.append(("s", bytes(data[p:p + n])))
            return p + n
        if wt == 9:
            h = data[p]
            toks.append(("b", h))
            p += 1
            size, et = h >> 4, h & 15
            if size == 15:
                size, p = varint(p)
                toks.append(("v", size))
            for _ in range(size):
                p = value(et, p) if et != 12 else struct(p)
            return p
        if wt == 12:
            return struct(p)
        raise ValueError("wire type %d" % wt)

    def struct(p):
        while True:
            h = data[p]
            toks.append(("b", h))
            p += 1
            if h == 0:
                return p
            if h >> 4 == 0:
                v, p = varint(p)
                toks.append(("v", v))
            p = value(h & 15, p)
    end = struct(pos)
    return toks, end


def replay_struct(idl, sname, x, fp, want):
    import numpy as np
    from fastparquet.cencoding import ThriftObject, from_buffer

    def wrap(name, d):
        return d
    t = ThriftObject(sname, fp)
    raw = bytes(t.to_bytes())
    back = from_buffer(raw, sname)
    if not (t == back):
        return True, "%s: from_buffer(to_bytes(x)) != x for x=%r" % (sname, x)
    try:
        toks, end = to_tokens(idl, sname, raw)
        ref, seen, pos = IDLM.decode(idl, sname, toks, 0)
    except (IDLM.Malformed, ValueError, IndexError) as ex:
        return True, "%s serialised by the compiled writer does not follow the IDL: %s (x=%r)" % (sname, ex, x)
    if ref != want:
        return True, "%s: an IDL-driven parser reads %r from the compiled writer's bytes, expected %r" % (sname, ref,
                                                                                                       want)
    raw2 = bytes(back.to_bytes())
    if raw2 != raw:
        return True, "%s: parsing and serialising again changes the bytes (%d -> %d bytes; first difference at %d)" % (
            sname, len(raw), len(raw2), next((i for i, (a, b) in enumerate(zip(raw, raw2)) if a != b), min(len(raw),
                                                                                                         len(raw2))))
    return False, "round trip and IDL conformance hold"


def replay_foreign(idl, sname, x, want):
    from fastparquet.cencoding import from_buffer
    toks = []
    IDLM.encode(idl, sname, x, toks)
    raw = to_bytes(toks)
    t = from_buffer(raw, sname)
    raw2 = bytes(t.to_bytes())
    try:
        toks2, end = to_tokens(idl, sname, raw2)
        ref, seen, pos = IDLM.decode(idl, sname, toks2, 0)
    except (IDLM.Malformed, ValueError, IndexError) as ex:
        return True, "%s written by another implementation and re-serialised by fastparquet no longer follows the " \
                     "IDL: %s" % (sname, ex)
    if ref != want:
        lost = sorted(set(want) - set(ref))
        return True, "%s re-serialised by fastparquet loses or changes fields: missing %r" % (sname, lost)
    return False, "foreign metadata survives re-serialisation"
