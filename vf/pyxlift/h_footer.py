"""C02 / C10: the summary files of a multi-file dataset.  writer.write_common_metadata runs for real on a FileMetaData
built the way writer.make_metadata / write_multi build it; the bytes it hands to the file are parsed by the
IDL-driven reference parser (declared field ids and wire types), and the caller's object must keep its row groups."""
import io
import struct

from vf.pyshim.kit import REPLAY            # puts the staged copy of the repository first on sys.path
from vf.pyxlift import idl as IDLM, idl_bytes

import fastparquet.writer as writer
from fastparquet import parquet_thrift
from fastparquet.cencoding import ThriftObject

IDL = IDLM.parse()


def _pick(v, lo, hi):
    for k in range(lo, hi + 1):
        if v == k:
            return k
    raise ValueError(v)


class _Sink(io.BytesIO):
    def __exit__(self, *a):
        self.final = self.getvalue()
        return io.BytesIO.__exit__(self, *a)


def _fmd(n_rg, n_kv, rows):
    schema = [parquet_thrift.SchemaElement(name="schema", num_children=1, i32=True),
              parquet_thrift.SchemaElement(name="a", type=parquet_thrift.Type.INT64, repetition_type=1, i32=True)]
    rgs = []
    for i in range(n_rg):
        md = parquet_thrift.ColumnMetaData(type=parquet_thrift.Type.INT64, encodings=[0, 3], path_in_schema=["a"],
                                           codec=0, num_values=rows, total_uncompressed_size=40,
                                           total_compressed_size=40, data_page_offset=4, i32list=[1, 4])
        rgs.append(ThriftObject.from_fields("RowGroup", num_rows=rows, total_byte_size=40,
                                            columns=[parquet_thrift.ColumnChunk(file_offset=44, meta_data=md,
                                                                                file_path="part.%d.parquet" % i)]))
    kv = [parquet_thrift.KeyValue(key="k%d" % i, value="v") for i in range(n_kv)]
    # as writer.make_metadata does
    return ThriftObject.from_fields("FileMetaData", num_rows=rows * n_rg, schema=schema, version=1,
                                    created_by="x", row_groups=rgs, key_value_metadata=kv, i32list=[1])


def _summary(n_rg, n_kv, rows, no_rg):
    fmd = _fmd(n_rg, n_kv, rows)
    sink = _Sink()
    writer.write_common_metadata("_common_metadata", fmd, open_with=lambda fn, mode="wb": sink, no_row_groups=no_rg)
    return fmd, sink.final


def _check(raw, n_rg_want, n_kv, rows_total):
    if raw[:4] != b"PAR1" or raw[-4:] != b"PAR1":
        return "magic"
    n = struct.unpack("<I", raw[-8:-4])[0]
    if n != len(raw) - 12:
        return "footer length %d, file holds %d footer bytes" % (n, len(raw) - 12)
    foot = raw[4:4 + n]
    try:
        toks, end = idl_bytes.to_tokens(IDL, "FileMetaData", foot)
        ref, seen, pos = IDLM.decode(IDL, "FileMetaData", toks, 0)
    except (IDLM.Malformed, ValueError, IndexError) as ex:
        return "footer does not follow parquet.thrift: %s" % (ex,)
    if end != len(foot):
        return "footer parsed to %d of %d bytes" % (end, len(foot))
    if ref.get("version") != 1 or ref.get("num_rows") != rows_total or len(ref.get("schema") or []) != 2:
        return "version / num_rows / schema read as %r / %r / %d elements" % (
            ref.get("version"), ref.get("num_rows"), len(ref.get("schema") or []))
    if len(ref.get("row_groups") or []) != n_rg_want:
        return "%d row groups in the file, expected %d" % (len(ref.get("row_groups") or []), n_rg_want)
    if len(ref.get("key_value_metadata") or []) != n_kv:
        return "%d key/value pairs, expected %d" % (len(ref.get("key_value_metadata") or []), n_kv)
    return None


RG_COUNTS = [0, 1, 2, 14, 15, 16]          # around the short / long list header boundary of the compact protocol


def h_common_metadata(n_rg: int, n_kv: int, rows: int, no_rg: bool) -> bool:
    """
    pre: 0 <= n_rg <= 5 and 0 <= n_kv <= 2 and 0 <= rows <= 3
    post: __return__
    """
    # _common_metadata (no_row_groups) and _metadata (with them): PAR1 | footer | len32 | PAR1, the footer follows the
    # IDL (every integer with its declared wire type), carries the schema, the key/values, and the row groups exactly
    # when asked; the caller's metadata object keeps its row groups either way
    n_rg, n_kv, rows = RG_COUNTS[_pick(n_rg, 0, 5)], _pick(n_kv, 0, 2), _pick(rows, 0, 3)
    fmd, raw = _summary(n_rg, n_kv, rows, no_rg)
    if len(fmd.row_groups) != n_rg:
        return False
    return _check(raw, 0 if no_rg else n_rg, n_kv, rows * n_rg) is None


def replay_h_common_metadata(n_rg, n_kv, rows, no_rg):
    """a real hive dataset: both summary files parsed with the IDL-driven reference parser"""
    import os, shutil, tempfile
    import pandas as pd
    import fastparquet
    d = tempfile.mkdtemp(prefix="c02-")
    try:
        dn = os.path.join(d, "ds")
        nrg = max(RG_COUNTS[n_rg], 1)
        df = pd.DataFrame({"a": list(range(2 * nrg))})
        fastparquet.write(dn, df, file_scheme="hive", row_group_offsets=list(range(0, 2 * nrg, 2)),
                          custom_metadata={"k0": "v"})
        for name, want in (("_common_metadata", 0), ("_metadata", nrg)):
            raw = open(os.path.join(dn, name), "rb").read()
            n = struct.unpack("<I", raw[-8:-4])[0]
            foot = raw[4:4 + n]
            try:
                toks, end = idl_bytes.to_tokens(IDL, "FileMetaData", foot)
                ref, seen, pos = IDLM.decode(IDL, "FileMetaData", toks, 0)
            except (IDLM.Malformed, ValueError, IndexError) as ex:
                return True, "%s of a hive dataset does not follow parquet.thrift: %s" % (name, ex)
            if len(ref.get("row_groups") or []) != want or ref.get("version") != 1:
                return True, "%s: version %r, %d row groups" % (name, ref.get("version"),
                                                               len(ref.get("row_groups") or []))
        try:
            got = [int(x) for x in fastparquet.ParquetFile(dn).to_pandas()["a"]]
        except Exception as ex:
            return True, "hive dataset of %d row groups cannot be opened: %s: %s" % (nrg, type(ex).__name__,
                                                                                  str(ex)[:80])
        if got != list(range(2 * nrg)):
            return True, "hive dataset of %d row groups reads back %d rows" % (nrg, len(got))
        return False, "both summary files follow the IDL"
    finally:
        shutil.rmtree(d, ignore_errors=True)
