"""C11 - primitive codecs agree with the specification on their whole bounded domain (engine E1)."""
from . import native_lattice as L

LEVEL = "model_checking"


def plan(tier, seed):
    js, n = L.jobs([L.bitpacked, L.rle, L.bitpacked1, L.scalars, L.hybrid, L.delta, L.encoders], tier,
                   prefix="C11")
    from . import bytearray as BA
    js += BA.jobs("C11", tier)
    js.append(dict(name="C11-translator-validation", kind="pyfunc", timeout=600,
                   payload=dict(func="vf.llsym.validate:run", kwargs=dict(seed=seed, n=40 if tier == "quick" else 400))))
    extra = dict(
        explanation="Bounded symbolic model checking of the LLVM IR of the generated C (the code that is compiled): "
                    "each kernel x shape is executed over symbolic payload bytes and compared with a specification "
                    "function by z3 (unsat = equal for every payload of that shape).",
        bounds=("tier=%s: read_bitpacked widths 0..32 x groups %s x itemsize {1,4} x capacities; read_rle widths "
                "0..32 x counts<=20; read_bitpacked1 counts 0..%d; varints of every length 1..10 over all payloads; "
                "zigzag and width_from_max_int over the full 64-bit range; hybrid streams of <=3 runs; delta blocks "
                "8/1,16/2,128/4 with miniblock widths 0..64; encoders widths 0..32 x <=17 values. %d harnesses."
                % (tier, "1..2" if tier == "quick" else "1..5", 25 if tier == "quick" else 65, n)),
        outside="larger run counts / more runs per stream; numpy packbits used by the writer for booleans; malformed streams",
        stubs=L.STUBS, assumptions=L.ASSUME)
    return js, extra
