"""C03 - valid foreign files decode to what they encode: the decoders, with the argument patterns of their call
sites in core.py (engine E1); page-loop harnesses (engine E2) are added by vf.props.pageloop when available."""
from . import native_lattice as L

LEVEL = "model_checking"


def decoders_only(tier):
    return [x for x in L.scalars(tier) if x[0] in ("read_varint", "width_from_max_int", "zigzag")]


def callsite_bitpacked(tier):
    # read_bitpacked / read_rle exactly as read_rle_bit_packed_hybrid passes them on: itemsize 1 for width<=8, else 4
    out = []
    for name, kw in L.bitpacked(tier) + L.rle(tier):
        if kw["width"] == 0:
            continue      # core.py never calls the decoders with width 0 (np.zeros shortcut)
        if kw["itemsize"] == (1 if kw["width"] <= 8 else 4):
            out.append((name, kw))
    return out


def callsite_hybrid(tier):
    return [(n, kw) for n, kw in L.hybrid(tier) if kw["width"] > 0]


def plan(tier, seed):
    js, n = L.jobs([callsite_bitpacked, callsite_hybrid, L.delta, decoders_only], tier, prefix="C03")
    js.append(dict(name="C03-lemma-delta-callsites", kind="pyfunc", timeout=300,
                   payload=dict(func="vf.pyshim.lemmas:delta_callsites")))
    js.append(dict(name="C03-lemma-v2-inplace", kind="pyfunc", timeout=300,
                   payload=dict(func="vf.pyshim.lemma_v2:v2_inplace")))
    from . import bytearray as BA
    js += BA.jobs("C03", tier, which=("h_unpack",))
    from .e2 import ch
    for h in ("h_convert_intlike", "h_convert_decimal_bytes"):
        js.append(ch("C03", "vf/pyshim/h_convert.py", h, 90 if tier == "quick" else 300,
                     ["converted_types.convert (integer-like and DECIMAL converted types)"]))
    try:
        from . import pageloop
        js += pageloop.jobs("C03", tier, seed)
        js += pageloop.page_jobs("C03", tier)
        js += pageloop.v2_jobs("C03", tier)
    except ImportError:
        pass
    # pages of one chunk decode independently of each other: no scratch state at module level in the reader modules
    js.append(dict(name="C03-lemma-no-module-buffers", kind="pyfunc", timeout=300,
                   payload=dict(func="vf.pyshim.lemma_c20:no_module_buffers")))
    from .e2 import ch
    js.append(ch("C03", "vf/pyshim/h_page.py", "h_read_page_consumes", 60, ["core._read_page"]))
    extra = dict(
        explanation="Bounded symbolic model checking of the decoders' LLVM IR with the argument patterns of their "
                    "call sites in core.py (levels: width 1..3, 4-byte length prefix, item size 1; dictionary "
                    "indices: width 1..32, item size 1 up to width 8 else 4, capacity = values expected), compared "
                    "with specification decoders by z3 for every payload of each shape.",
        bounds="tier=%s: %d kernel x shape harnesses; hybrid streams of <=3 runs (RLE counts <=20 (200 thorough), "
               "bit-packed <=3 groups); delta blocks 8/1, 16/2, 128/4, widths 0..64, <=130 values" % (tier, n),
        outside="PLAIN decode (np.frombuffer), byte arrays (speedups.unpack_byte_array), codecs, the numpy fast "
                "paths of read_data_page_v2, logical-type conversion, file/footer handling",
        stubs=L.STUBS, assumptions=L.ASSUME)
    return js, extra
