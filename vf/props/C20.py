"""C20 (reduced) - a handle derived by slicing does not disturb a concurrent reader of its parent (engine E2)."""
from .e2 import ch, SHIM_ASSUMPTIONS

LEVEL = "other"
F = "vf/pyshim/h_c20.py"


def plan(tier, seed):
    t = 150 if tier == "quick" else 900
    fun = ["schema.schema_tree", "schema.flatten", "schema.SchemaHelper.__init__", "schema.SchemaHelper.schema_element",
           "schema.SchemaHelper.is_required", "schema.SchemaHelper.max_definition_level"]
    jobs = []
    cfgs = [("flat", "element", 2), ("flat", "maxdef", 2), ("list", "element", 2), ("struct", "required", 2)]
    if tier == "thorough":
        cfgs += [("flat", "required", 3), ("list", "maxdef", 3), ("struct", "element", 3), ("list", "required", 2),
                 ("struct", "maxdef", 2)]
    for shape, op, npos in cfgs:
        j = ch("C20", F, "h_slice_vs_read", t, fun, shape=dict(schema=shape, reader=op, scheduled_statements=npos),
               env=dict(VERIF_SCHEMA=shape, VERIF_OP=op, VERIF_NPOS=npos))
        j["name"] += "[%s,%s,%d]" % (shape, op, npos)
        jobs.append(j)
    jobs.append(ch("C20", "vf/pyshim/h_partfile.py", "h_make_part_file", t, ["writer.make_part_file"]))
    jobs.append(ch("C20", "vf/pyshim/h_c09.py", "h_readonly_leaves_statistics", t, ["api.sorted_partitioned_columns", "api.ParquetFile.statistics", "api.statistics"]))
    jobs.append(ch("C20", F, "h_head_leaves_handle", t, ["api.ParquetFile.head", "api.ParquetFile.__getitem__"]))
    jobs.append(dict(name="C20-lemma-no-module-buffers", kind="pyfunc", timeout=300,
                     payload=dict(func="vf.pyshim.lemma_c20:no_module_buffers")))
    jobs.append(dict(name="C20-lemma-memo-published-once", kind="pyfunc", timeout=300,
                     payload=dict(func="vf.pyshim.lemma_c20:memo_published_once")))
    extra = dict(
        explanation="The real schema_tree / flatten / SchemaHelper.__init__ (what `pf[i]` runs on the schema elements it "
                    "shares with its parent) and the real SchemaHelper lookups are re-compiled from their source with "
                    "one declared rewrite - a `yield` after every statement - and interleaved by a scheduler whose "
                    "schedule (after how many statements of the derivation each of the reader's first statements "
                    "runs) is symbolic; CrossHair (z3) explores the schedules; the reader must obtain what it obtains "
                    "alone. Each feasible schedule is one path: the bound is the number of scheduled reader statements.",
        bounds="schemas: two flat columns / a LIST column / a struct column; one reader operation (schema_element, "
               "is_required, max_definition_level) against one derivation; the reader's first 2 (thorough 3) statements "
               "placed anywhere among the derivation's statements",
        outside="atomicity finer than a statement (CPython switches between bytecodes), more than two threads, the "
                "other shared state named by the property (statistics memoisation, lru/regex/json caches), pandas and "
                "the C extensions, writing part files from several threads",
        stubs=["threads -> generators stepped by a scheduler (declared rewrite: yield after every statement)"],
        assumptions=SHIM_ASSUMPTIONS + ["statement-level atomicity"])
    return jobs, extra
