"""C07 - append adds at the end and touches nothing else (positions, order, fresh part names)."""
from .e2 import ch, SHIM_ASSUMPTIONS

LEVEL = "other"
G = "vf/pyshim/h_wfile.py"


def plan(tier, seed):
    t = 120 if tier == "quick" else 400
    jobs = [ch("C07", G, "h_simple_append", t, ["writer.write_simple (append branch)"]),
            ch("C07", G, "h_multi_append", t, ["api.ParquetFile.write_row_groups", "writer.write_multi",
                                               "writer.find_max_part", "api.part_ids", "writer.make_part_file",
                                               "writer.write_common_metadata"])]
    for ids in (["1,2", "9,10"] if tier == "quick" else ["1,2", "0,1,2,3,4,5,6,7,8,9,10", "0,2,5", "7",
                                                                            "9,10,11", "99,100"]):
        j = ch("C07", G, "h_multi_append", t, ["writer.write_multi", "writer.find_max_part", "api.part_ids"],
               shape=dict(old_ids=ids), env=dict(VERIF_OLD_IDS=ids))
        j["name"] += "[ids=%s]" % ids
        jobs.append(j)
    envc = dict(VERIF_ENC="dict", VERIF_OUT="cat", VERIF_OPTIONAL=0, VERIF_WIDTH=8, VERIF_SELFMADE=1)
    for h in ("h_cat_two_groups", "h_cat_two_groups_rest"):
        jobs.append(ch("C07", "vf/pyshim/h_v2.py", h, t, ["core.read_col (dictionary page of each row group; shared "
                                                          "categorical output)"], env=envc))
    jobs.append(ch("C07", "vf/pyshim/h_partfile.py", "h_make_part_file", t, ["writer.make_part_file"]))
    jobs.append(ch("C07", "vf/pyshim/h_c06.py", "h_range_index", t, ["api.ParquetFile.pre_allocate (row labels after appends)"]))
    from . import cats
    jobs += cats.jobs("C07", tier)
    jobs.append(ch("C07", "vf/pyshim/h_wc.py", "h_cat_dictionary", t,
                   ["writer.write_column (dictionary page of a categorical chunk)"]))
    jobs.append(ch("C07", G, "h_find_max_part", t, ["writer.find_max_part", "api.part_ids"]))
    jobs.append(ch("C07", G, "h_find_max_part_dirs", t, ["writer.find_max_part", "api.part_ids"]))
    jobs.append(ch("C07", G, "h_find_max_part_order", t, ["writer.find_max_part", "api.part_ids"]))
    jobs.append(ch("C07", "vf/pyshim/h_write.py", "h_write_append_truthy", t,
                   ["writer.write (dispatch on the append argument)"]))
    jobs.append(ch("C07", "vf/pyshim/h_write.py", "h_write_append_options", t,
                   ["writer.write (append branch)", "api.ParquetFile.write_row_groups (signature)"]))
    jobs.append(ch("C07", G, "h_append_scheme", t, ["api.ParquetFile.write_row_groups", "writer.write_multi",
                                                    "writer.partition_on_columns", "api.paths_to_cats"]))
    try:
        from . import partnames
        jobs += partnames.jobs("C07", tier)
    except ImportError:
        pass
    jobs.append(dict(name="C07-lemma-append-dtype-pairs", kind="pyfunc", timeout=600,
                     payload=dict(func="vf.pyshim.lemma_append:append_dtype_pairs")))
    # rows already in the dataset read back as written after an append widened the codes of a categorical column
    from . import pageloop
    jobs += [j for j in pageloop.page_jobs("C07", tier) if "selfmade=1" in j["name"]]
    jobs.append(dict(name="C07-lemma-time-factor-table", kind="pyfunc", timeout=300,
                     payload=dict(func="vf.pyshim.lemma_time2:time_factor_table")))
    extra = dict(
        explanation="Single file: the real write_simple append branch on a symbolic file (data length, old/new footer "
                    "length, row-group sizes symbolic): the old length field is read from its place, every write "
                    "starts at or after the old footer, row groups = old ++ new, the file ends with the new frame. "
                    "Multi file: the real write_row_groups -> write_multi -> make_part_file -> write_common_metadata "
                    "on a symbolic filesystem: no existing data file is opened for writing, new part names are "
                    "fresh, parts are written before the summary, _metadata references old ++ new in order.",
        bounds="<=2 existing row groups / part files, <=2 appended row groups, sizes < 2^40",
        outside="schema-compatibility checks, codecs, partition value typing (C08), categorical relabelling across row "
                "groups on read (pandas/numpy glue in core.read_col)",
        stubs=["writer.make_row_group -> writes one segment of symbolic length, returns a real RowGroup object",
               "writer.write_thrift -> footer segment of symbolic length + snapshot of the row-group list",
               "writer.struct -> pack/unpack shims; files -> SymFile / SymFS (operation log)",
               "assumption: the re-serialised footer does not shrink when row groups are appended"],
        assumptions=SHIM_ASSUMPTIONS)
    return jobs, extra
