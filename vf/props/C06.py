"""C06 - partial reads agree with the full read: placement arithmetic (engine E2 + SMT lemma)."""
from .e2 import ch, SHIM_ASSUMPTIONS

LEVEL = "other"
F = "vf/pyshim/h_c06.py"


def plan(tier, seed):
    t = 60 if tier == "quick" else 300
    fun = ["api.ParquetFile.to_pandas", "api.ParquetFile.head", "api.ParquetFile.count"]
    jobs = [ch("C06", F, "h_to_pandas_plain", t, fun), ch("C06", F, "h_count_len", t, fun),
            ch("C06", F, "h_head", t, fun), ch("C06", F, "h_head_small", t, fun), ch("C06", F, "h_repeat_reads_filelike", t, fun),
            ch("C06", F, "h_iter_row_groups", t, ["api.ParquetFile.iter_row_groups"]),
            ch("C06", F, "h_iter_row_groups_options", t, ["api.ParquetFile.iter_row_groups (options handed on)"]),
            ch("C06", F, "h_slice_count", t, ["api.ParquetFile.__getitem__", "api.ParquetFile.count",
                                              "api.ParquetFile.info", "api.ParquetFile.__setstate__"]),
            ch("C06", F, "h_slice_state", t, ["api.ParquetFile.__getitem__", "api.ParquetFile.__setstate__",
                                              "api.ParquetFile.statistics", "api.statistics"]),
            ch("C06", F, "h_columns_arg", t, ["api.ParquetFile.to_pandas", "api.ParquetFile._get_index",
                                              "util.check_column_names"]),
            ch("C06", F, "h_range_index", t, ["api.ParquetFile.pre_allocate"]),
            ch("C06", "vf/pyshim/h_c17.py", "h_multiindex_chunk_labels", t, ["dataframe.empty (multi-index levels)"]),
            # iter_row_groups locates each row group in the handle's list with ==
            dict(ch("C06", "vf/pyxlift/h_c10rt.py", "h_dict_eq_distinguishes", 200 if tier == "quick" else 900,
                    ["cencoding.dict_eq (lifted)", "cencoding.ThriftObject.__eq__"], shape=dict(struct="ColumnChunk"),
                    env=dict(VERIF_STRUCT="ColumnChunk")), name="C06-h_dict_eq_distinguishes[ColumnChunk]"),
            ch("C06", "vf/pyshim/h_c17.py", "h_slice_dtypes", t,
               ["api.ParquetFile.__getitem__", "api.ParquetFile.__getstate__", "api.ParquetFile.__setstate__"]),
            dict(name="C06-lemma-range-index", kind="pyfunc", timeout=300,
                 payload=dict(func="vf.pyshim.lemmas:range_index",
                              kwargs=dict(max_step=6 if tier == "quick" else 40)))]
    extra = dict(
        explanation="CrossHair (z3) over the real ParquetFile.to_pandas / head / count called on a shim handle whose "
                    "row groups carry symbolic num_rows in [0, 2^31): every row group must be placed at [sum of "
                    "previous, +num_rows), placements tile the allocation, head(n) reads a prefix holding min(n, "
                    "total) rows, count() is the sum - also on a handle obtained by picking / slicing row groups of a real ParquetFile "
                    "object over real thrift metadata (h_slice_count). The RangeIndex reconstruction arithmetic of pre_allocate is "
                    "lifted from the function's AST into LIA and decided by z3 for all starts and sizes.",
        bounds="<=4 row groups with num_rows in [0, 2^31); head: <=3 groups, any n >= 0; range index: every integer "
               "start, every size >= 0, steps -6..6 (thorough -40..40) except 0",
        outside="column subsetting and index selection (pandas glue), pickling (serialisation is C10)",
        stubs=["shim handle: pre_allocate records the size and returns recording views; read_row_group_file records "
               "(row group, slice, mask)", "api.filter_row_groups -> identity (pruning is C05)",
               "pandas.RangeIndex contract = Python range (in the lemma: closed-form label count)"],
        assumptions=SHIM_ASSUMPTIONS)
    return jobs, extra
