"""jobs for writer.consolidate_categories (vf/pyshim/h_cats.py)"""
from .e2 import ch


def jobs(prop, tier):
    out = []
    for nrg, t in ((2, 150),) if tier == "quick" else ((2, 300), (3, 900)):
        j = ch(prop, "vf/pyshim/h_cats.py", "h_consolidate_categories", t, ["writer.consolidate_categories"],
               shape=dict(row_groups=nrg), env=dict(VERIF_NRG=nrg))
        j["name"] += "[row_groups=%d]" % nrg
        out.append(j)
    return out
