from .e2 import ch


def jobs(prop, tier):
    t = 200 if tier == "quick" else 600
    return [ch(prop, "vf/pyshim/h_c04b.py", "h_sorted_columns", t, ["api.sorted_partitioned_columns"]),
            ch(prop, "vf/pyshim/h_c04b.py", "h_sorted_columns_filtered", t,
               ["api.sorted_partitioned_columns (filters)"]),
            ch(prop, "vf/pyshim/h_c04b.py", "h_stats_selection", t, ["writer.make_row_group (statistics selection)"]),
            ch(prop, "vf/pyshim/h_c04c.py", "h_statistics_chunk", t, ["api.statistics (ColumnChunk)"]),
            ch(prop, "vf/pyshim/h_c06.py", "h_slice_state", t, ["api.ParquetFile.__getitem__", "api.ParquetFile.statistics"]),
            ch(prop, "vf/pyshim/h_c04c.py", "h_statistics_file", t, ["api.statistics (RowGroup, ParquetFile)"]),
            ch(prop, "vf/pyshim/h_wc.py", "h_bool_stats", t, ["writer.write_column (statistics of BOOLEAN columns)"],
               env=dict(VERIF_CATS=0)),
            ch(prop, "vf/pyshim/h_wc.py", "h_bytes_stats", t, ["writer.write_column (statistics of BYTE_ARRAY columns)"],
               env=dict(VERIF_CATS=0))]
