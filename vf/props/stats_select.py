from .e2 import ch


def jobs(prop, tier):
    t = 200 if tier == "quick" else 600
    return [ch(prop, "vf/pyshim/h_c04b.py", "h_sorted_columns", t, ["api.sorted_partitioned_columns"]),
            ch(prop, "vf/pyshim/h_c04b.py", "h_sorted_columns_filtered", t,
               ["api.sorted_partitioned_columns (filters)"]),
            ch(prop, "vf/pyshim/h_c04b.py", "h_stats_selection", t, ["writer.make_row_group (statistics selection)"])]
