"""Shape lattices for the native kernels (shared by C03, C11, C12)."""


def chunks(items, n):
    out = [[] for _ in range(n)]
    for i, it in enumerate(items):
        out[i % n].append(it)
    return [c for c in out if c]


def caps(count, tier):
    if tier == "thorough":
        return list(range(0, count + 2))
    return sorted({0, max(count - 1, 0), count, count + 1})


def bitpacked(tier):
    out = []
    groups = (1, 2) if tier == "quick" else (1, 2, 3, 4, 5)
    for w in range(0, 33):
        for g in groups:
            for s in (1, 4):
                for c in caps(8 * g, tier):
                    out.append(("read_bitpacked", dict(width=w, groups=g, itemsize=s, cap=c)))
    return out


def rle(tier):
    out = []
    counts = (0, 1, 2, 8, 9, 20) if tier == "quick" else tuple(range(0, 21))
    for w in range(0, 33):
        for n in counts:
            for s in (1, 4):
                for c in caps(n, "quick"):
                    out.append(("read_rle", dict(width=w, count=n, itemsize=s, cap=c)))
    return out


def bitpacked1(tier):
    out = []
    for n in range(0, 26 if tier == "quick" else 66):
        for c in caps(n, tier if n <= 24 else "quick"):
            out.append(("read_bitpacked1", dict(count=n, cap=c)))
    return out


def scalars(tier):
    out = [("read_varint", dict(nbytes=n)) for n in range(1, 11)]
    out += [("encode_varint", dict(cap=10)), ("encode_varint", dict(cap=12)), ("varint_roundtrip", {}),
            ("zigzag", {}), ("width_from_max_int", {})]
    return out


HYBRID_WIDTHS_Q = (0, 1, 2, 3, 7, 8, 9, 16, 24, 25, 32)


def hybrid(tier):
    out = []
    widths = HYBRID_WIDTHS_Q if tier == "quick" else tuple(range(0, 33))
    shapes = [[("rle", 5)], [("bp", 1)], [("rle", 3), ("bp", 1)], [("bp", 1), ("rle", 9)],
              [("bp", 2), ("rle", 1), ("bp", 1)], [("rle", 20), ("rle", 1)], [("rle", 0), ("bp", 1)]]
    if tier == "thorough":
        shapes += [[("rle", 8), ("bp", 3)], [("bp", 1), ("bp", 1), ("bp", 1)], [("rle", 1), ("rle", 2), ("rle", 3)],
                   [("bp", 3)], [("rle", 64)], [("rle", 200), ("bp", 1)]]
    for w in widths:
        for sh in shapes:
            total = sum(r[1] * (8 if r[0] == "bp" else 1) for r in sh)
            # call sites: levels -> itemsize 1, length prefix; dictionary indices -> itemsize 1 (w<=8) / 4 (w>8)
            sites = []
            if w <= 3:
                sites.append((1, True))
            sites.append((1 if w <= 8 else 4, False))
            if tier == "thorough":
                sites.append((4 if w <= 8 else 1, False))
            for s, pl in sites:
                cs = {total, max(total - 1, 0), total + 1, 0} if tier == "thorough" else {total, max(total - 3, 0)}
                for c in sorted(cs):
                    out.append(("hybrid", dict(width=w, runs=sh, itemsize=s, cap=c, prefix_len=pl)))
            if tier == "thorough" or w in (1, 9):
                out.append(("hybrid", dict(width=w, runs=sh, itemsize=1 if w <= 8 else 4, cap=total,
                                           prefix_len=False, pad_header=1)))
    return out


def delta(tier):
    out = []
    # (block, miniblocks, count) ; count-1 not a multiple of block unless stated (see known finding on block end)
    if tier == "quick":
        ws = (0, 1, 7, 8, 9, 16, 24, 25, 28, 29, 32, 33, 56, 57, 64)
        for w in ws:
            for lv in (False, True):
                if w > 32 and not lv:
                    continue
                out.append(("delta", dict(block=8, minis=1, count=8, longval=lv, widths=[[w]])))
        out.append(("delta", dict(block=8, minis=1, count=9, longval=True, widths=[[3]])))     # count-1 == block
        out.append(("delta", dict(block=8, minis=1, count=12, longval=False, widths=[[3], [5]])))
        out.append(("delta", dict(block=128, minis=4, count=40, longval=True, widths=[[7, 3, 0, 0]])))
        out.append(("delta", dict(block=128, minis=4, count=70, longval=False, widths=[[0, 9, 2, 0]])))
        # first value and per-block minimum delta over their whole 64-bit range (10-byte zigzag varints), and 5-byte ones
        out.append(("delta", dict(block=8, minis=1, count=6, longval=True, widths=[[4]], vlen=10, dlen=10)))
        out.append(("delta", dict(block=8, minis=1, count=11, longval=True, widths=[[0], [2]], vlen=10, dlen=10)))
        out.append(("delta", dict(block=8, minis=1, count=6, longval=False, widths=[[4]], vlen=5, dlen=5)))
        out.append(("delta", dict(block=16, minis=2, count=1, longval=True, widths=[])))
        out.append(("delta", dict(block=16, minis=2, count=2, longval=False, widths=[[4, 0]])))
        # the values end exactly with a miniblock; the width byte of the following, unneeded miniblock is arbitrary
        # (Encodings.md: readers must accept any value there) and no bytes are stored for it
        out.append(("delta", dict(block=16, minis=2, count=9, longval=False, widths=[[3, 5]])))
        out.append(("delta", dict(block=16, minis=2, count=9, longval=True, widths=[[2, 7]])))
    else:
        for w in range(0, 65):
            for lv in (False, True):
                if w > 32 and not lv:
                    continue
                for n in (2, 5, 8):
                    out.append(("delta", dict(block=8, minis=1, count=n, longval=lv, widths=[[w]])))
                out.append(("delta", dict(block=16, minis=2, count=14, longval=lv, widths=[[w, (w * 7) % 29]])))
        for n in range(1, 34):
            nb = max(0, (n - 1 + 7) // 8)
            out.append(("delta", dict(block=8, minis=1, count=n, longval=True, widths=[[5]] * nb)))
            nb = max(0, (n - 1 + 15) // 16)
            out.append(("delta", dict(block=16, minis=2, count=n, longval=False, widths=[[3, 6]] * nb)))
        for vl in (1, 3, 5, 9, 10):
            for lv in (False, True):
                out.append(("delta", dict(block=8, minis=1, count=7, longval=lv, widths=[[3]], vlen=vl, dlen=vl)))
        out.append(("delta", dict(block=128, minis=4, count=130, longval=True,
                                  widths=[[7, 3, 0, 11], [2, 0, 0, 0]])))
        out.append(("delta", dict(block=128, minis=4, count=100, longval=False, widths=[[1, 9, 2, 5]])))
    return out


def encoders(tier):
    out = []
    ns = (1, 7, 8, 9, 17) if tier == "quick" else tuple(range(0, 18))
    for w in range(0, 33):
        for n in ns:
            out.append(("encode_bitpacked", dict(width=w, n=n)))
        out.append(("encode_bitpacked", dict(width=w, n=9, with_length=0)))
        out.append(("encode_bitpacked", dict(width=w, n=9, with_length=1)))
        if w in (1, 3, 8, 12) or tier == "thorough":
            # appended behind bytes already in the buffer (levels, then indices, share one output)
            out.append(("encode_bitpacked", dict(width=w, n=9, with_length=1, start=5)))
            out.append(("encode_bitpacked", dict(width=w, n=7, with_length=0, start=3)))
        out.append(("bitpack_roundtrip", dict(width=w, n=8)))
        if tier == "thorough":
            out.append(("bitpack_roundtrip", dict(width=w, n=16)))
            out.append(("bitpack_roundtrip", dict(width=w, n=24)))
    for n in range(0, 18 if tier == "quick" else 34):
        out.append(("write_bitpacked1_safety", dict(count=n)))
    out.append(("time_shift", dict(n=3, factor=1000)))
    out.append(("time_shift", dict(n=2, factor=1000000)))
    return out


def jobs(groups, tier, nbatch=48, timeout=900, prefix="native"):
    items = []
    for g in groups:
        items += g(tier)
    js = []
    for i, ch in enumerate(chunks(items, nbatch)):
        js.append(dict(name="%s-batch%d" % (prefix, i), kind="llsym", payload=ch, timeout=timeout))
    return js, len(items)


STUBS = [
    "PyErr_Occurred -> NULL (no exception pending on entry or after cdef calls)",
    "__Pyx_AddTraceback / __Pyx_WriteUnraisable -> path ends 'raised'",
    "__Pyx_PyLong_From_long / PyNumber_Rshift / __Pyx_PyLong_As_uint64_t -> 64-bit mathematical model of "
    "`0xFFFFFFFFFFFFFFFF >> (64 - bitwidth)` in delta_read_bitpacked",
    "__Pyx_INC_MEMVIEW / __Pyx_XCLEAR_MEMVIEW / _Py_Dealloc -> no-ops; CPython singletons have immortal refcounts",
    "llvm.memcpy / llvm.memset -> byte copies with the in-bounds obligation",
    "over-wide shifts are reported and then given x86 semantics (count masked to the operand width) so that the "
    "functional consequence can be replayed on the real build",
]
ASSUME = [
    "IR = clang-14 -O0 + mem2reg of the current cencoding.c with the interpreter's -fno-strict-overflow -DNDEBUG "
    "(signed wrap-around defined, as in the shipped build)",
    "flat 64-bit address space, regions 2^40 apart; NumpyIO objects built directly in memory (loc, nbytes, ptr, "
    "memoryview slice) instead of through __cinit__",
    "inputs are well formed: the input buffer holds exactly the bytes the stream needs; RLE values fit the "
    "declared bit width; capacities as enumerated",
    "specification oracles written from parquet-format Encodings.md (LSB-first bit packing, RLE, hybrid runs, "
    "ULEB128, zigzag, DELTA_BINARY_PACKED)",
]
