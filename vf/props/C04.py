"""C04 - statistics are exact (fastparquet-side logic)."""
from .e2 import ch, SHIM_ASSUMPTIONS
from . import wc_lattice

LEVEL = "other"
F = "vf/pyshim/h_wc.py"


def plan(tier, seed):
    t = 120 if tier == "quick" else 400
    envc = dict(VERIF_CATS=1)
    jobs = [ch("C04", F, "h_cat_stats", t, wc_lattice.FUN, env=envc),
            ch("C04", F, "h_cat_stats_rest", t, wc_lattice.FUN, env=envc),
            ch("C04", F, "h_cat_stats_ordered", t, wc_lattice.FUN, env=envc),
            ch("C04", F, "h_cat_stats_nulls", t, wc_lattice.FUN, env=envc)]
    jobs.append(ch("C04", "vf/pyshim/h_convert.py", "h_convert_intlike", t,
                   ["converted_types.convert (integer-like converted types; decoded statistics)"]))
    jobs.append(ch("C04", "vf/pyshim/h_c09.py", "h_readonly_leaves_statistics", t, ["api.sorted_partitioned_columns", "api.ParquetFile.statistics", "api.statistics"]))
    jobs.append(ch("C04", "vf/pyshim/h_c09.py", "h_handle_after_remove", t,
                   ["api.ParquetFile.remove_row_groups", "api.ParquetFile.statistics", "api.statistics"]))
    # sorted_partitioned_columns(filters=...) pairs the per-row-group bounds with the index list of the surviving row
    # groups: that list is increasing and free of repeats for every filter program
    for h in ("h_row_groups_or2", "h_row_groups_or3", "h_stats_b_without_bounds", "h_stats_two_clauses"):
        jobs.append(ch("C04", "vf/pyshim/h_c05.py", h, 160 if tier == "quick" else 600,
                       ["api.filter_row_groups (as_idx)", "api.filter_out_stats", "api.filter_out_cats"],
                       env=dict(VERIF_SLEN=1)))
    jobs.append(ch("C04", "vf/pyshim/h_convert.py", "h_stat_bound_decodes", t,
                   ["encoding.read_plain (stat=True)", "converted_types.convert"]))
    jobs.append(ch("C04", "vf/pyshim/h_convert.py", "h_stat_text_decodes", t,
                   ["converted_types.convert (UTF8 branch for bytes arrays: decoded text statistics)"]))
    jobs.append(ch("C04", "vf/pyshim/h_convert.py", "h_writer_convert_ints", t,
                   ["writer.convert (integer series, plain and nullable)", "writer.find_type"]))
    wc = wc_lattice.jobs("C04", tier)
    jobs += wc if tier == "thorough" else [j for j in wc if "null=1" in j["name"]][:5]
    try:
        from . import stats_select
        jobs += stats_select.jobs("C04", tier)
    except ImportError:
        pass
    jobs.append(ch("C04", "vf/pyshim/h_rowgroup.py", "h_make_row_group", t,
                   ["writer.make_row_group (chunk statistics handed on)"]))
    extra = dict(
        explanation="Statistics section of the real write_column under CrossHair (z3): for a categorical column with "
                    "categories in arbitrary (symbolic) order of which a symbolic subset occurs, min/max must be the "
                    "smallest/largest value present (pandas contract for ordered-unique / Index min-max as shims); "
                    "the per-page null tally must sum to null_count; plain columns pass the column min/max through.",
        bounds="3 distinct integer categories in any order, any non-empty subset present; null tallies over the "
               "write_column lattice (<=3 pages)",
        outside="min/max of real pandas columns (NaN, -0.0, unsigned, tz, unicode ordering); decoding in "
                "api.statistics (np.frombuffer)",
        stubs=wc_lattice.STUBS, assumptions=SHIM_ASSUMPTIONS)
    return jobs, extra
