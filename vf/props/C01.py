"""C01 - write -> read round trip: the framing arithmetic writer and reader must agree on (reduced claim)."""
from .e2 import ch, SHIM_ASSUMPTIONS
from . import wc_lattice

LEVEL = "other"
H = "vf/pyshim/h_c01.py"


def plan(tier, seed):
    t = 120 if tier == "quick" else 400
    fun = ["writer.iter_dataframe"]
    jobs = [ch("C01", H, "h_iter_dataframe_int", t, fun), ch("C01", H, "h_iter_dataframe_list", t, fun),
            ch("C01", H, "h_iter_dataframe_list_rest", t, fun),
            ch("C01", H, "h_levels_no_nulls", t, ["writer.make_definitions", "core.skip_definition_bytes"]),
            ch("C01", H, "h_levels_with_nulls", t, ["writer.make_definitions (pages with NULLs)"]),
            dict(name="C01-lemma-dict-index-framing", kind="pyfunc", timeout=300,
                 payload=dict(func="vf.pyshim.lemmas:dict_index_framing")),
            dict(name="C01-lemma-type-tables", kind="pyfunc", timeout=300,
                 payload=dict(func="vf.pyshim.lemmas:type_tables")),
            dict(name="C01-lemma-v2-inplace", kind="pyfunc", timeout=300,
                 payload=dict(func="vf.pyshim.lemma_v2:v2_inplace")),
            dict(name="C01-lemma-tz-offset-text", kind="pyfunc", timeout=300,
                 payload=dict(func="vf.pyshim.lemma_tz:tz_offset_text")),
            dict(name="C01-lemma-time-roundtrip", kind="pyfunc", timeout=400,
                 payload=dict(func="vf.pyshim.lemma_time:time_roundtrip")),
            dict(name="C01-lemma-timedelta-micros", kind="pyfunc", timeout=400,
                 payload=dict(func="vf.pyshim.lemma_time:timedelta_micros")),
            dict(name="C01-lemma-find-type", kind="pyfunc", timeout=400,
                 payload=dict(func="vf.pyshim.lemma_types:find_type_roundtrip")),
            dict(name="C01-lemma-range-index", kind="pyfunc", timeout=300,
                 payload=dict(func="vf.pyshim.lemmas:range_index", kwargs=dict(max_step=6))),
            ch("C01", "vf/pyshim/h_c17.py", "h_time_dtype", t if "C01" == "C17" else (90 if tier == "quick" else 300), ["api.ParquetFile._dtypes (timestamp branch)", "api.ParquetFile.__getstate__", "api.ParquetFile.__setstate__", "api.ParquetFile.pre_allocate"]),
            ch("C01", "vf/pyshim/h_c17.py", "h_cat_order_flags", 90, ["api.ParquetFile.pre_allocate", "dataframe.empty (categorical placeholders)"]),
            ch("C01", "vf/pyshim/h_c06.py", "h_range_index", 60 if tier == "quick" else 300,
               ["api.ParquetFile.pre_allocate"])]
    wc = wc_lattice.jobs("C01", tier)
    jobs += wc if tier == "thorough" else wc[:6]
    jobs.append(ch("C01", "vf/pyshim/h_write.py", "h_write_new_options", t,
                   ["writer.write (new dataset)", "writer.write_simple / write_multi / make_metadata (signatures)"]))
    for nm in (0, 1, 2, 3):
        j = ch("C01", "vf/pyshim/h_meta.py", "h_make_metadata", t, ["writer.make_metadata"],
               shape=dict(has_nulls=["True", "False", "None", "list"][nm]), env=dict(VERIF_NULLMODE=nm))
        j["name"] += "[has_nulls=%d]" % nm
        jobs.append(j)
    jobs.append(ch("C01", "vf/pyshim/h_codec.py", "h_codec_dispatch", t,
                   ["compression.compress_data", "compression.decompress_data"]))
    # text/bytes values: pack -> unpack round trip of the BYTE_ARRAY codec without trailing padding (dictionary pages,
    # v2 data pages), lifted speedups.pyx
    from . import bytearray as BA
    jobs += BA.jobs("C01", tier, which=("h_pack_unpack", "h_unpack"))
    from . import pageloop
    jobs += pageloop.v2_jobs("C01", tier)
    jobs.append(ch("C01", "vf/pyshim/h_skip.py", "h_skip_nulls", t,
                   ["core.read_col", "core.read_data_page", "core.read_def", "core.skip_definition_bytes"]))
    # level / index streams: the decoder side (E1) on the shapes the writer produces
    lv = []
    for n in (0, 1, 7, 8, 9, 16, 17, 24):
        groups = (n + 7) // 8 + (1 if n % 8 == 0 else 0)     # writer pads a whole zero byte when n % 8 == 0
        lv.append(("hybrid", dict(width=1, runs=[["bp", max(groups, 1)]], itemsize=1, cap=n, prefix_len=True)))
    jobs.append(dict(name="C01-L4-level-decode", kind="llsym", payload=lv, timeout=600))
    jobs.append(dict(name="C01-lemma-json-cells", kind="pyfunc", timeout=300,
                     payload=dict(func="vf.pyshim.lemma_tables:json_cells")))
    jobs.append(dict(name="C01-lemma-time-factor-table", kind="pyfunc", timeout=300,
                     payload=dict(func="vf.pyshim.lemma_time2:time_factor_table")))
    extra = dict(
        explanation="Reduced claim: the places where writer and reader must agree on framing. Row-group split (real "
                    "iter_dataframe: slices tile [0,n)), page split and counts (real write_column lattice), "
                    "definition-level block for null-free pages (writer bytes == bytes the reader skips == one RLE run "
                    "of l ones, all l < 2^31), bit-packed null masks as the writer shapes them decoded by the real "
                    "kernel (E1), dictionary-index header vs the reader's fast path (z3 bit-vector lemma lifted from "
                    "both functions' ASTs), range-index regeneration (LIA lemma).",
        bounds="iter_dataframe: n <= 12, offsets <= 13, lists of <= 3; level blocks: all l < 2^31; masks of 0..24 rows",
        outside="value conversion in numpy/pandas (convert, astype, tz, categorical codes, object encodings, "
                "JSON/BSON), codecs, block-manager aliasing of dataframe.empty, multi-file layout (C08/C14)",
        stubs=wc_lattice.STUBS + ["NumpyIO/encode_unsigned_varint -> value+length tokens (byte values are C11/E1)"],
        assumptions=SHIM_ASSUMPTIONS)
    return jobs, extra
