"""jobs for the BYTE_ARRAY codec of speedups.pyx (vf/pyxlift/h_speedups.py, engine E3)"""
from .e2 import ch

F = "vf/pyxlift/h_speedups.py"


def jobs(prop, tier, which=("h_unpack", "h_pack", "h_pack_unpack")):
    t = 200 if tier == "quick" else 800
    fun = {"h_unpack": ["speedups.unpack_byte_array"], "h_pack": ["speedups.pack_byte_array"],
           "h_pack_unpack": ["speedups.pack_byte_array", "speedups.unpack_byte_array"]}
    return [ch(prop, F, h, t, fun[h]) for h in which]


NOTE = ("speedups.unpack_byte_array / pack_byte_array are lifted from speedups.pyx each run (declared pointer idioms, "
        "drift guard against the lines quoted in speedups.c) and run by CrossHair: <=3 items of 0..2 symbolic bytes, "
        "0..8 bytes of trailing padding; pointer dereferences carry the bounds obligation")
