"""C09 - dataset edits follow the model: one inductive step per operation (E2)."""
from .e2 import ch, SHIM_ASSUMPTIONS

LEVEL = "other"
F, G = "vf/pyshim/h_c09.py", "vf/pyshim/h_wfile.py"


def plan(tier, seed):
    t = 200 if tier == "quick" else 600
    jobs = [ch("C09", F, "h_remove_row_groups", t, ["api.ParquetFile.remove_row_groups", "api.row_groups_map"]),
            ch("C09", F, "h_sort_part_names", t, ["api.ParquetFile._sort_part_names", "api.part_ids", "api.partitions"]),
            ch("C09", F, "h_sort_part_names_shared_ids", t, ["api.ParquetFile._sort_part_names", "api.part_ids"]),
            ch("C09", F, "h_overwrite", t, ["writer.overwrite", "api.partitions", "api.ParquetFile.remove_row_groups"]),
            ch("C09", G, "h_multi_append", t, ["api.ParquetFile.write_row_groups", "writer.write_multi"])]
    # the append step numbers its new part files above every existing id (ids of several digits, inside partition
    # directories): same harnesses as C07
    jobs.append(ch("C09", "vf/pyshim/h_c08.py", "h_overwrite_key_text", t, ["util.path_string",
                                                                            "writer.overwrite (key text expression)"]))
    jobs.append(ch("C09", F, "h_part_ids", t, ["api.part_ids"]))
    jobs.append(ch("C09", "vf/pyshim/h_c09.py", "h_path_string_sequence", t, ["util.path_string"]))
    jobs.append(ch("C09", F, "h_handle_after_remove", t, ["api.ParquetFile.remove_row_groups", "api.ParquetFile._set_attrs",
                                                          "api.ParquetFile.statistics", "api.statistics"]))
    jobs.append(ch("C09", "vf/pyshim/h_c08.py", "h_partition_rows", t, ["writer.partition_on_columns"]))
    jobs.append(ch("C09", G, "h_find_max_part", t, ["writer.find_max_part", "api.part_ids"]))
    jobs.append(ch("C09", G, "h_find_max_part_dirs", t, ["writer.find_max_part", "api.part_ids"]))
    jobs.append(ch("C09", G, "h_find_max_part_order", t, ["writer.find_max_part", "api.part_ids"]))
    for ids in ["1,2", "9,10"] if tier == "quick" else ["1,2", "0,2,5", "9,10"]:
        j = ch("C09", G, "h_multi_append", t, ["writer.write_multi", "writer.find_max_part"], shape=dict(old_ids=ids),
               env=dict(VERIF_OLD_IDS=ids))
        j["name"] += "[ids=%s]" % ids
        jobs.append(j)
    jobs.append(dict(name="C09-lemma-append-dtype-pairs", kind="pyfunc", timeout=600,
                     payload=dict(func="vf.pyshim.lemma_append:append_dtype_pairs")))
    extra = dict(
        explanation="Histories are not explored: the dataset state is symbolic (row counts, partition directory of "
                    "each part file, which row groups are selected, which arrangement of part ids) and ONE operation "
                    "of the real code runs - remove_row_groups, _sort_part_names, append (write_row_groups) - after "
                    "which the invariant 'referenced files == files on disk, no duplicates, num_rows = sum' and the "
                    "model's row-group list must hold.",
        bounds="<=3 row groups (one part file each) in 3 possible directories; every subset removed; 9 arrangements of "
               "part ids (permutations and gaps); append as in C07",
        outside="append='overwrite' (pandas frames and key text of non-string keys), schema comparison, re-opening "
                "from disk (done in replay drivers)",
        stubs=["dataset handle -> shim with real FileMetaData/RowGroup objects; fs.rm / fs.rename -> log + file set",
               "_write_common_metadata -> counter (its layout is C02/C19)"],
        assumptions=SHIM_ASSUMPTIONS + ["a counterexample from a state no history reaches would mean the invariant is "
                                        "too weak, not a finding"])
    return jobs, extra
