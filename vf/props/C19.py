"""C19 - an append interrupted before its metadata update leaves the old dataset intact."""
from .e2 import ch, SHIM_ASSUMPTIONS

LEVEL = "other"
G = "vf/pyshim/h_wfile.py"


def plan(tier, seed):
    t = 200 if tier == "quick" else 600
    jobs = [ch("C19", G, "h_multi_append_fault", t, ["api.ParquetFile.write_row_groups", "writer.write_multi",
                                                     "writer.make_part_file", "writer.write_common_metadata",
                                                     "api.ParquetFile._write_common_metadata"]),
            ch("C19", G, "h_multi_append", t, ["writer.write_multi", "writer.find_max_part", "api.part_ids"])]
    for ids in (["1,2", "9,10"] if tier == "quick" else ["1,2", "0,1,2,3,4,5,6,7,8,9,10", "0,2,5", "7",
                                                                            "9,10,11", "99,100"]):
        j = ch("C19", G, "h_multi_append", t, ["writer.write_multi", "writer.find_max_part", "api.part_ids"],
               shape=dict(old_ids=ids), env=dict(VERIF_OLD_IDS=ids))
        j["name"] += "[ids=%s]" % ids
        jobs.append(j)
    jobs.append(ch("C19", "vf/pyshim/h_partfile.py", "h_make_part_file", t, ["writer.make_part_file"]))
    jobs.append(ch("C19", "vf/pyshim/h_open.py", "h_reopen_independent", t,
                   ["api.ParquetFile.__init__", "api.ParquetFile._parse_header"]))
    jobs.append(ch("C19", "vf/pyxlift/h_footer.py", "h_common_metadata", t,
                   ["writer.write_common_metadata", "cencoding.ThriftObject.to_bytes (compiled, concrete)"]))
    jobs.append(ch("C19", "vf/pyshim/h_write.py", "h_write_append_truthy", t,
                   ["writer.write (dispatch on the append argument)"]))
    jobs.append(ch("C19", G, "h_find_max_part", t, ["writer.find_max_part", "api.part_ids"]))
    jobs.append(ch("C19", G, "h_find_max_part_dirs", t, ["writer.find_max_part", "api.part_ids"]))
    jobs.append(ch("C19", G, "h_find_max_part_order", t, ["writer.find_max_part", "api.part_ids"]))
    try:
        from . import partnames
        jobs += partnames.jobs("C19", tier)
    except ImportError:
        pass
    jobs.append(dict(name="C19-lemma-append-dtype-pairs", kind="pyfunc", timeout=600,
                     payload=dict(func="vf.pyshim.lemma_append:append_dtype_pairs")))
    extra = dict(
        explanation="The real append path (write_row_groups -> write_multi -> make_part_file -> "
                    "write_common_metadata) runs on a symbolic filesystem whose k-th call (open-for-write, write, "
                    "close, mkdirs) fails, k symbolic. Postconditions: (i) fault-free, every part file is complete "
                    "before _metadata/_common_metadata are opened; (ii) no pre-existing path is opened for writing "
                    "before the metadata phase and new names are fresh; (iii) a fault before the metadata phase makes "
                    "the call raise (no handler swallows it); a normal return means the fault index was never reached.",
        bounds="0..2 existing part files, 1..2 new row groups, fault index 0..39 (each feasible k is one path: paths = "
               "k_max + 1)",
        outside="the real filesystem, re-opening with ParquetFile(dir) (done in the replay driver), crash (as opposed "
                "to exception) semantics of OS buffers",
        stubs=["as C07 + SymFS numbers every open-for-write / write / close / mkdirs and raises at call k"],
        assumptions=SHIM_ASSUMPTIONS)
    return jobs, extra
