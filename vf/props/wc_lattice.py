"""Lattice of configurations for the write_column harness (vf/pyshim/h_wc.py)."""
from .e2 import ch

F = "vf/pyshim/h_wc.py"
FUN = ["writer.write_column (real source, 1 declared AST rewrite)", "writer.check_32"]

QUICK = [  # (version, cats, comp, nullable, pages)
    (1, 0, "none", 1, 2), (2, 0, "none", 1, 2), (1, 1, "none", 1, 2), (2, 1, "SNAPPY", 1, 2),
    (1, 0, "SNAPPY", 0, 2), (2, 0, "UNCOMPRESSED", 1, 1), (1, 1, "SNAPPY", 0, 3), (2, 1, "none", 0, 1),
    (1, 0, "none", 1, 0), (2, 0, "dict", 1, 2), (1, 0, "UNCOMPRESSED", 1, 1), (2, 0, "SNAPPY", 0, 3),
]


def configs(tier):
    if tier == "quick":
        return QUICK
    out = []
    for v in (1, 2):
        for c in (0, 1):
            for comp in ("none", "SNAPPY", "UNCOMPRESSED", "dict"):
                if c and comp == "dict":
                    continue     # dict compression spec + categorical raises AttributeError in the dictionary branch
                for nl in (1, 0):
                    for pg in (0, 1, 2, 3):
                        out.append((v, c, comp, nl, pg))
    return out


def jobs(prop, tier):
    js = []
    t = 150 if tier == "quick" else 500
    for v, c, comp, nl, pg in configs(tier):
        envv = dict(VERIF_DPV=v, VERIF_CATS=c, VERIF_COMP=comp, VERIF_NULLABLE=nl, VERIF_PAGES=pg)
        j = ch(prop, F, "h_write_column", t, FUN, shape=dict(version=v, cats=c, comp=comp, nullable=nl, pages=pg),
               env=envv)
        j["name"] += "[v%d,cats=%d,%s,null=%d,pages=%d]" % (v, c, comp, nl, pg)
        j["payload"]["cls_prefix"] = "WC"
        js.append(j)
    return js


STUBS = [
    "write_column is exec'd from its own source with one declared rewrite: b''.join(X) -> _sym_join(X)",
    "writer.write_thrift -> writes a header segment of symbolic length and records the thrift object (its bytes are C10)",
    "writer.make_definitions -> level segment of symbolic length + null-stripped series (its bytes are C01-L3/L4)",
    "writer.encode[...] -> value / index segments of symbolic length; compress_data -> segment of fresh symbolic length",
    "writer._rows_per_page -> symbolic rows-per-page >= 1 (float arithmetic of the real function is outside)",
    "pandas Series -> SymSeries (real dtype object, symbolic length, per-page null counts, min/max)",
    "file -> SymFile (length + write log)",
]
