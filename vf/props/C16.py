"""C16 - key-value metadata verbatim; in-place update touches nothing else (engine E2)."""
from .e2 import ch, SHIM_ASSUMPTIONS

LEVEL = "other"
F = "vf/pyshim/h_c16.py"


def plan(tier, seed):
    t = 120 if tier == "quick" else 400
    jobs = [ch("C16", F, "h_footer_rewrite", 60, ["writer.update_file_custom_metadata", "writer.write_thrift"]),
            ch("C16", F, "h_update_rules", t, ["util.update_custom_metadata", "util.ensure_bytes"]),
            dict(ch("C16", F, "h_update_rules", t, ["util.update_custom_metadata", "util.ensure_bytes"],
                    env=dict(VERIF_ONE_DICT=1), shape=dict(one_dict=1)), name="C16-h_update_rules[one-dict]"),
            ch("C16", F, "h_write_read_verbatim", 60, ["api.ParquetFile.key_value_metadata", "util.ensure_str"])]
    jobs.append(ch("C16", F, "h_kv_property", t, ["api.ParquetFile.key_value_metadata", "util.ensure_str"]))
    jobs.append(ch("C16", "vf/pyshim/h_write.py", "h_write_custom_metadata", t,
                   ["writer.write (custom_metadata / attrs merge)"]))
    # the bytes of the keys and values themselves: the lifted serialiser on KeyValue / FileMetaData (str values travel
    # through a char*: every byte counts, also NUL)
    from . import thrift_struct
    for st in ("KeyValue", "FileMetaData"):
        j = ch("C16", thrift_struct.F, "h_roundtrip", 200 if tier == "quick" else 900, thrift_struct.FUN,
               shape=dict(struct=st), env=dict(VERIF_STRUCT=st))
        j["name"] += "[%s]" % st
        jobs.append(j)
    extra = dict(
        explanation="CrossHair (z3) over the real update_file_custom_metadata on a symbolic file (data length, old and "
                    "new footer length are unbounded symbolic integers, so the footer delta ranges over all integers): "
                    "the postcondition demands that nothing before the footer is written and that the file is exactly "
                    "data ++ new footer ++ len32(new) ++ PAR1. The merge rules (real util.update_custom_metadata on "
                    "real KeyValue objects) are compared with the dict-update-with-None-deletes model.",
        bounds="footer lengths / data length: all integers >= 1 / >= 4; data file and _metadata file; merge rules: 0..2 "
               "existing entries, 1..2 successive updates over 4 key spellings (str/bytes/non-ASCII) x 4 values "
               "(str, bytes, empty, None)",
        outside="thrift (de)serialisation of the footer (C10), OS-level write semantics, large key sets",
        stubs=["writer.open -> SymFile (seek/tell/read/write/truncate over a length + write log)",
               "writer.struct.pack -> 4-byte segment carrying the packed value; writer.int.from_bytes -> the old footer "
               "length (asserting it is read from the last 8..4 bytes)",
               "writer.from_buffer -> shim FileMetaData whose to_bytes() is a segment of symbolic length",
               "writer.update_custom_metadata -> no-op inside the footer-rewrite harness (it is the subject of "
               "h_update_rules)"],
        assumptions=SHIM_ASSUMPTIONS)
    return jobs, extra
