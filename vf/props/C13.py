"""C13 - row-level filtering is exact (engine E2)."""
from .e2 import ch, SHIM_ASSUMPTIONS

LEVEL = "other"
F, G = "vf/pyshim/h_c13.py", "vf/pyshim/h_c06.py"


def plan(tier, seed):
    t = 90 if tier == "quick" else 400
    fun = ["api.ParquetFile._column_filter", "api.ParquetFile._columns_from_filters"]
    jobs = [ch("C13", F, h, t, fun) for h in ("h_column_filter_flat", "h_column_filter_and", "h_column_filter_or",
                                               "h_column_filter_or_of_and", "h_column_filter_in",
                                               "h_column_filter_partition", "h_column_filter_partition_and", "h_drill_partition_filter")]
    for shp in (0, 1, 2, 3):
        j = ch("C13", F, "h_count_row_filter", t, ["api.ParquetFile.count (row_filter branch)",
                                                   "api.ParquetFile.iter_row_groups", "api.ParquetFile._column_filter",
                                                   "api.ParquetFile._columns_from_filters"],
               shape=dict(filter_program=["[A]", "[P]", "[[A, P]]", "[[P, A]]"][shp]), env=dict(VERIF_FSHAPE=shp))
        j["name"] += "[shape=%d]" % shp
        jobs.append(j)
    fun2 = ["api.ParquetFile.to_pandas (row_filter branch)", "api.ParquetFile.count"]
    jobs.append(ch("C13", G, "h_to_pandas_mask2", t, fun2))
    jobs.append(ch("C13", G, "h_to_pandas_mask_wrong_length", t, fun2))
    sizes = ["2,1,2", "0,3,1", "3,3"] if tier == "quick" else ["2,1,2", "0,3,1", "3,3", "1,0,0,2", "2,2,2", "4,3",
                                                               "1,1,1,1", "3,0,3"]
    for sz in sizes:
        for hname in ("h_to_pandas_mask", "h_mask_then_reads"):
            if hname == "h_mask_then_reads" and sz not in sizes[:2]:
                continue
            j = ch("C13", G, hname, t, fun2, shape=dict(rows=sz), env=dict(VERIF_ROWS=sz))
            j["name"] += "[%s]" % sz
            jobs.append(j)
    # the first pass: what is pruned by statistics never reaches the row-level pass (same harnesses as C05 / C04)
    jobs.append(ch("C13", "vf/pyshim/h_c05.py", "h_row_groups_composition", 160 if tier == "quick" else 600,
                   ["api.filter_row_groups", "api.filter_out_stats", "api.filter_out_cats"], env=dict(VERIF_SLEN=1)))
    for h in ("h_stats_clause", "h_stats_two_clauses", "h_stats_b_without_bounds"):
        jobs.append(ch("C13", "vf/pyshim/h_c05.py", h, t, ["api.filter_out_stats", "api.filter_val"],
                       env=dict(VERIF_SLEN=1)))
    jobs.append(ch("C13", "vf/pyshim/h_convert.py", "h_stat_bound_decodes", t,
                   ["encoding.read_plain (stat=True)", "converted_types.convert (as filter_out_stats decodes a bound)"]))
    jobs.append(ch("C13", "vf/pyshim/h_wc.py", "h_cat_stats_ordered", t,
                   ["writer.write_column (statistics of an ordered categorical)"], env=dict(VERIF_CATS=1)))
    from . import pageloop
    jobs += pageloop.jobs("C13", tier, seed)
    jobs += pageloop.v2_masked_jobs("C13", tier)
    extra = dict(
        explanation="CrossHair (z3) over the real ParquetFile._column_filter on vector shims (row values, constants "
                    "and operators symbolic) against the documented semantics (flat list = AND, list of lists = OR of "
                    "ANDs, partition clauses honoured), and over the real to_pandas mask branch on a shim handle "
                    "(mask bits symbolic): each selected row lands at its rank, fully selected groups are read "
                    "unmasked, empty selections skipped, wrong-length masks refused.",
        bounds="<=2 rows x 2 columns, <=2 clauses per group, <=2 groups, 'in' lists <=2; masks over row groups of "
               "sizes " + "; ".join(sizes) + " and all sizes 0..2 x 0..2",
        outside="mask application inside the page decoder (core.read_col / read_data_page_v2), nulls, categoricals",
        stubs=["api.np -> zeros/ones giving boolean-vector shims with | & ~ sum slicing",
               "DataFrame/Series -> Frame/Col/Vec shims: comparison and isin give masks (pandas contract)",
               "shim handle as in C06"],
        assumptions=SHIM_ASSUMPTIONS)
    return jobs, extra
