"""C10-T2 jobs: structure round trip / IDL conformance per IDL struct (vf/pyxlift/h_c10rt.py)."""
from .e2 import ch

F = "vf/pyxlift/h_c10rt.py"
FUN = ["cencoding.write_thrift", "cencoding.write_list", "cencoding.read_thrift", "cencoding.read_list",
       "cencoding.dict_eq"]
QUICK = ["Statistics", "KeyValue", "SchemaElement", "PageHeader", "DataPageHeader", "DataPageHeaderV2",
         "DictionaryPageHeader", "ColumnMetaData", "ColumnChunk", "RowGroup", "FileMetaData", "LogicalType",
         "SortingColumn", "PageEncodingStats"]
MORE = ["DecimalType", "TimestampType", "TimeType", "TimeUnit", "IntType", "ColumnOrder", "TypeDefinedOrder",
        "EncryptionWithColumnKey", "ColumnCryptoMetaData", "AesGcmV1", "EncryptionAlgorithm", "BloomFilterHeader",
        "PageLocation", "OffsetIndex", "IndexPageHeader", "StringType", "FileCryptoMetaData"]
OUTSIDE = ["ColumnMetaData", "RowGroup", "IntType"]        # structs with ids >= 14 or i8/i16 fields (known findings)


def jobs(prop, tier, seed=0):
    t = 200 if tier == "quick" else 900
    out = []
    structs = QUICK if tier == "quick" else QUICK + MORE
    for s in structs:
        if s == "IntType":
            hs = []
        else:
            hs = ["h_roundtrip", "h_foreign_reserialise"]
            if s in ("FileMetaData", "RowGroup", "ColumnChunk", "ColumnMetaData", "SchemaElement", "PageHeader"):
                hs.append("h_copy_reserialise")
            if s in ("RowGroup", "ColumnChunk", "SchemaElement", "KeyValue"):
                hs.append("h_dict_eq_distinguishes")
        for h in hs:
            j = ch(prop, F, h, t, FUN, shape=dict(struct=s), env=dict(VERIF_STRUCT=s))
            j["name"] += "[%s]" % s
            out.append(j)
    for s in OUTSIDE:
        j = ch(prop, F, "h_roundtrip_full", t, FUN, shape=dict(struct=s), env=dict(VERIF_STRUCT=s))
        j["name"] += "[%s]" % s
        out.append(j)
        if s != "IntType":
            j = ch(prop, F, "h_foreign_reserialise", t, FUN, shape=dict(struct=s, foreign_full=1),
                   env=dict(VERIF_STRUCT=s, VERIF_FOREIGN_FULL=1))
            j["name"] += "[%s,all-fields]" % s
            out.append(j)
    return out
