"""C02 - written files are valid Parquet: chunk/page/file bookkeeping (E2), framing vs specification (E2/E1)."""
from .e2 import ch, SHIM_ASSUMPTIONS
from . import wc_lattice

LEVEL = "other"
G = "vf/pyshim/h_wfile.py"
H = "vf/pyshim/h_c01.py"


def plan(tier, seed):
    t = 120 if tier == "quick" else 400
    jobs = wc_lattice.jobs("C02", tier)
    jobs.append(ch("C02", G, "h_simple_new", t, ["writer.write_simple", "writer.make_part_file"]))
    jobs.append(ch("C02", G, "h_multi_append", t, ["writer.write_multi", "writer.make_part_file",
                                                   "writer.write_common_metadata", "writer.find_max_part"]))
    jobs.append(ch("C02", "vf/pyshim/h_rowgroup.py", "h_make_row_group", t, ["writer.make_row_group"]))
    jobs.append(ch("C02", "vf/pyxlift/h_footer.py", "h_common_metadata", t,
                   ["writer.write_common_metadata", "cencoding.ThriftObject.to_bytes (compiled, concrete)"]))
    # an append numbers its new part files above every number in use (a reused number overwrites a file that
    # _metadata still describes)
    for h in ("h_find_max_part", "h_find_max_part_dirs", "h_find_max_part_order"):
        jobs.append(ch("C02", G, h, t, ["writer.find_max_part", "api.part_ids"]))
    for nm in (2, 3):
        # the schema elements handed to the serialiser hold integers in their enum fields (nullability modes that
        # compute the repetition type)
        j = ch("C02", "vf/pyshim/h_meta.py", "h_make_metadata", t, ["writer.make_metadata"],
               shape=dict(has_nulls=["True", "False", "None", "list"][nm]), env=dict(VERIF_NULLMODE=nm))
        j["name"] += "[has_nulls=%d]" % nm
        jobs.append(j)
    jobs.append(ch("C02", H, "h_levels_no_nulls", t, ["writer.make_definitions", "core.skip_definition_bytes"]))
    jobs.append(ch("C02", H, "h_levels_with_nulls", t, ["writer.make_definitions (pages with NULLs)"]))
    jobs.append(dict(name="C02-lemma-dict-index-framing", kind="pyfunc", timeout=300,
                     payload=dict(func="vf.pyshim.lemmas:dict_index_framing")))
    jobs.append(ch("C02", "vf/pyshim/h_c17.py", "h_time_annotation", t, ["writer.find_type (timestamp branch)",
                                                                        "writer.make_metadata"]))
    # the integers stored for timestamp columns denote the instants of the frame, for every unit and both `times` modes
    jobs.append(dict(name="C02-lemma-time-roundtrip", kind="pyfunc", timeout=400,
                     payload=dict(func="vf.pyshim.lemma_time:time_roundtrip")))
    # B2: wire conformance of every metadata structure the writer emits (footer, row groups, chunks, page headers):
    # the lifted serialiser must produce the token stream of the reference compact codec generated from the IDL
    from . import thrift_struct
    emitted = ("FileMetaData", "RowGroup", "ColumnChunk", "ColumnMetaData", "SchemaElement", "KeyValue", "Statistics",
               "PageHeader", "DataPageHeader", "DataPageHeaderV2", "DictionaryPageHeader", "PageEncodingStats")
    for s in emitted:
        j = ch("C02", thrift_struct.F, "h_roundtrip", 200 if tier == "quick" else 900, thrift_struct.FUN,
               shape=dict(struct=s), env=dict(VERIF_STRUCT=s))
        j["name"] += "[%s]" % s
        jobs.append(j)
    extra = dict(
        explanation="The real writer.write_column runs under CrossHair (z3) with row count, rows per page, per-page "
                    "null counts, level/value/compressed/header lengths and the start offset symbolic; the oracle "
                    "(linear arithmetic over the write log) demands: pages tile the chunk from the recorded offsets, "
                    "total_compressed/uncompressed sizes = sums of header + payload, page sizes include level bytes "
                    "(v2), page value/null counts sum to the chunk's, dictionary/data page offsets point at the right "
                    "headers, encodings/codec as written. File framing (PAR1, footer, len32, PAR1) and part-file/"
                    "summary layout are checked on write_simple / write_multi. Level and dictionary-index framing "
                    "are checked against the specification decoder's reading.",
        bounds="page/column lattice: data page v1/v2 x plain/categorical x codec none/SNAPPY/UNCOMPRESSED/dict x "
               "OPTIONAL/REQUIRED x 0..3 pages (quick: 12 configurations); every length < 2^24, rows < 3*2^24",
        outside="the bytes inside each segment: PLAIN values (numpy tobytes), codec output, thrift bytes (C10); "
                "decode by an independent implementation; object encodings",
        stubs=wc_lattice.STUBS, assumptions=SHIM_ASSUMPTIONS)
    return jobs, extra
