"""C08 - directory partitioning preserves key values: path text <-> key value (E2)."""
from .e2 import ch, SHIM_ASSUMPTIONS

LEVEL = "other"
F = "vf/pyshim/h_c08.py"


def plan(tier, seed):
    t = 150 if tier == "quick" else 600
    sl = 2 if tier == "quick" else 3
    fun = ["writer.partition_on_columns (1 declared AST rewrite)", "util.path_string", "util.join_path",
           "api.paths_to_cats", "api._path_to_cats", "util._strip_path_tail", "util.val_to_num", "util.val_from_meta",
           "core.read_row_group (partition lines)"]
    jobs = [ch("C08", F, h, t, fun, env=dict(VERIF_SLEN=sl)) for h in
            ("h_hive_str", "h_hive_str_rest", "h_hive_int", "h_hive_bool_and_two_columns", "h_drill_str",
             "h_timestamp_text", "h_hive_two_levels", "h_hive_special_text")]
    # column names that are not identifiers are legal too (only '/' and '=' are excluded)
    for names in ("kk,k", "site-id,unit price", "a.b,t\u00e9l\u00e9"):
        j = ch("C08", F, "h_hive_two_levels", t, fun, shape=dict(partition_columns=names),
               env=dict(VERIF_SLEN=sl, VERIF_PNAMES=names))
        j["name"] += "[names=%s]" % names
        jobs.append(j)
    jobs.append(ch("C08", F, "h_partition_rows", t, ["writer.partition_on_columns"]))
    jobs.append(ch("C08", "vf/pyshim/h_c09.py", "h_path_string_sequence", t, ["util.path_string"]))
    jobs.append(ch("C08", "vf/pyshim/h_wfile.py", "h_append_scheme", t,
                   ["api.ParquetFile.write_row_groups", "writer.write_multi", "writer.partition_on_columns",
                    "api.paths_to_cats"]))
    jobs.append(dict(name="C08-lemma-float-labels", kind="pyfunc", timeout=300,
                     payload=dict(func="vf.pyshim.lemma_tables:float_labels")))
    extra = dict(
        explanation="Write side (real partition_on_columns -> path_string / join_path) and read side (real "
                    "paths_to_cats, _path_to_cats, val_to_num/val_from_meta and the partition lines of "
                    "core.read_row_group) are executed by CrossHair (z3) with the key values symbolic: two distinct "
                    "keys must give two distinct directories and each path must read back exactly its key (same kind) "
                    "under the column's own name (hive) / as the directory text (drill).",
        bounds="string keys of 1..%d characters over the whole alphabet except '/' and '='; integer keys chosen by "
               "symbolic index from a table covering signs and 1..10 digits; bool + int + str in one three-level path" % sl,
        outside="float and timestamp keys (float<->text and pandas timestamp parsing are not encodable); the pandas "
                "groupby itself (row conservation across groups); decimal rendering of arbitrary symbolic integers",
        stubs=["groupby -> shim yielding the (key, group) pairs given by the harness; `sorted` -> identity",
               "make_part_file -> returns a row group; open_with/mkdirs -> recorders",
               "util.np.dtype(t).type -> int for int64 (decimal text, ValueError otherwise), identity for object",
               "core.read_row_group_arrays -> no-op (only the partition lines of read_row_group run)",
               "declared rewrite in partition_on_columns: '%s' % x -> '%s' % (x,) (CrossHair models only the tuple form)"],
        assumptions=SHIM_ASSUMPTIONS)
    return jobs, extra
