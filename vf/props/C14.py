"""C14 - opening/merging many files yields their concatenation: metadata assembly (E2)."""
from .e2 import ch, SHIM_ASSUMPTIONS

LEVEL = "other"
F = "vf/pyshim/h_c14.py"


def plan(tier, seed):
    t = 150 if tier == "quick" else 600
    sl = 2 if tier == "quick" else 3
    fun = ["util.metadata_from_many", "util.analyse_paths"]
    jobs = [ch("C14", F, h, t, fun, env=dict(VERIF_SLEN=sl)) for h in
            ("h_many_legacy", "h_many_fast", "h_analyse_paths", "h_analyse_paths_root")]
    for kind in (1, 2, 3, 4, 5):
        j = ch("C14", F, "h_many_schema_mismatch", t, fun, shape=dict(difference=["renamed column", "one more column",
                                                                                  "one column fewer",
                                                                                  "annotation missing",
                                                                                  "annotation added"][kind - 1]),
               env=dict(VERIF_SLEN=sl, VERIF_KIND=kind))
        j["name"] += "[kind=%d]" % kind
        jobs.append(j)
    jobs.append(ch("C14", F, "h_paths_mixed_levels", t, ["api.paths_to_cats", "api._path_to_cats"]))
    jobs.append(ch("C14", F, "h_many_fast_parsed", t, ["util.metadata_from_many (footer-gathering path)",
                                                          "util._get_fmd"]))
    envc = dict(VERIF_ENC="dict", VERIF_OUT="cat", VERIF_OPTIONAL=0, VERIF_WIDTH=8, VERIF_SELFMADE=1)
    for h in ("h_cat_two_groups", "h_cat_two_groups_rest"):
        jobs.append(ch("C14", "vf/pyshim/h_v2.py", h, t, ["core.read_col (dictionary page of each row group; shared "
                                                          "categorical output)"], env=envc))
    from . import cats
    jobs += cats.jobs("C14", tier)
    jobs.append(ch("C14", "vf/pyshim/h_open.py", "h_open_directory", t,
                   ["api.ParquetFile.__init__ (directory without _metadata)", "util.analyse_paths",
                    "api.ParquetFile._set_attrs", "api.paths_to_cats"]))
    jobs.append(ch("C14", "vf/pyshim/h_open.py", "h_parse_header", t, ["api.ParquetFile._parse_header"]))
    # partition columns inferred from directory names: levels whose label texts overlap, with and without metadata
    jobs.append(ch("C14", "vf/pyshim/h_c08.py", "h_hive_two_levels", t,
                   ["api.paths_to_cats", "api._path_to_cats", "util._strip_path_tail", "util.val_to_num",
                    "core.read_row_group (partition lines)"]))
    j = ch("C14", "vf/pyshim/h_c08.py", "h_hive_two_levels", t,
           ["api.paths_to_cats", "api._path_to_cats", "core.read_row_group (partition lines)"],
           shape=dict(partition_columns="kk,k"), env=dict(VERIF_PNAMES="kk,k"))
    j["name"] += "[names=kk,k]"         # one level's name is the tail of the other's
    jobs.append(j)
    extra = dict(
        explanation="The real util.metadata_from_many (legacy branch and the >=3-files footer-gathering branch) and "
                    "util.analyse_paths run under CrossHair (z3): row-group counts per file, row counts, footer "
                    "lengths and path components are symbolic. Postconditions: row groups appear in file order then "
                    "intra-file order, basepath + relative path rebuilds every original path, num_rows is the sum, "
                    "every footer is fetched completely, differing schemas are rejected when verification is on.",
        bounds="1..3 files, 0..2 row groups each, rows < 2^40, footer lengths < 2^40, path components of 1..%d "
               "characters (three directory levels)" % sl,
        outside="glob/directory listing, partition value typing (C08), categorical labels across files (pandas/numpy "
                "glue in core.read_col), writing the merged summary (C02/C10)",
        stubs=["api.ParquetFile -> shim class building real RowGroup/FileMetaData objects from the harness's spec",
               "fs.cat -> shim returning pieces whose length field is the symbolic footer length; util._get_fmd -> "
               "the file's metadata; util.int -> from_bytes gives that length, int(1.4*x) gives 140"],
        assumptions=SHIM_ASSUMPTIONS)
    return jobs, extra
