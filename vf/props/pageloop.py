"""jobs for the flat page-loop harness (vf/pyshim/h_readcol.py): real core.read_col for a flat column"""
from .e2 import ch

F = "vf/pyshim/h_readcol.py"
FUN = ["core.read_col", "schema.SchemaHelper"]


def jobs(prop, tier, seed=0):
    t = 200 if tier == "quick" else 800
    cfgs = [("h_read_col_flat", 1, 0, "2,2"), ("h_read_col_flat", 1, 1, "2,1"), ("h_read_col_flat", 0, 0, "2,2"),
            ("h_read_col_masked", 1, 0, "2,2"), ("h_read_col_masked", 0, 0, "2,2"), ("h_read_col_masked", 1, 1, "2,1")]
    if tier == "thorough":
        cfgs += [("h_read_col_flat", 1, 0, "2,2,2"), ("h_read_col_masked", 1, 0, "1,2"), ("h_read_col_masked", 1, 0, "2,1,2"),
                 ("h_read_col_masked", 1, 1, "2,2"), ("h_read_col_masked", 0, 1, "2,2"), ("h_read_col_flat", 1, 0, "3,3")]
    out = []
    for h, opt, dic, rows in cfgs:
        if prop == "C03" and h == "h_read_col_masked":
            continue
        if prop == "C13" and h == "h_read_col_flat":
            continue
        j = ch(prop, F, h, t, FUN, shape=dict(optional=opt, dictionary=dic, page_rows=rows),
               env=dict(VERIF_OPTIONAL=opt, VERIF_DICT=dic, VERIF_PAGE_ROWS=rows))
        j["name"] += "[opt=%d,dict=%d,pages=%s]" % (opt, dic, rows)
        out.append(j)
    return out



def page_jobs(prop, tier):
    """real core.read_data_page / read_def (v1) call-site patterns (vf/pyshim/h_page.py)"""
    t = 200 if tier == "quick" else 800
    out = []
    for enc, opt, sm in (("plain", 1, 0), ("dict", 1, 0), ("dict", 1, 1), ("delta", 0, 0), ("bool_rle", 1, 0),
                         ("dict", 0, 0)):
        j = ch(prop, "vf/pyshim/h_page.py", "h_page_v1", t, ["core.read_data_page", "core.read_def"],
               shape=dict(encoding=enc, optional=opt, selfmade=sm),
               env=dict(VERIF_ENC=enc, VERIF_OPTIONAL=opt, VERIF_SELFMADE=sm))
        j["name"] += "[%s,opt=%d,selfmade=%d]" % (enc, opt, sm)
        out.append(j)
    out.append(ch(prop, "vf/pyshim/h_skip.py", "h_skip_nulls", t,
                  ["core.read_col", "core.read_data_page", "core.read_def", "core.skip_definition_bytes"]))
    for h in ("h_levels", "h_list_shape", "h_map_shape"):
        out.append(ch(prop, "vf/pyshim/h_schema.py", h, t, ["schema.SchemaHelper", "schema._is_list_like",
                                                           "schema._is_map_like"]))
    return out
