"""jobs for the flat page-loop harness (vf/pyshim/h_readcol.py): real core.read_col for a flat column"""
from .e2 import ch

F = "vf/pyshim/h_readcol.py"
FUN = ["core.read_col", "schema.SchemaHelper"]


def jobs(prop, tier, seed=0):
    t = 200 if tier == "quick" else 800
    cfgs = [("h_read_col_flat", 1, 0, "2,2"), ("h_read_col_flat", 1, 1, "2,1"), ("h_read_col_flat", 0, 0, "2,2"),
            ("h_read_col_masked", 1, 0, "2,2"), ("h_read_col_masked", 0, 0, "2,2"), ("h_read_col_masked", 1, 1, "2,1")]
    if tier == "thorough":
        cfgs += [("h_read_col_flat", 1, 0, "2,2,2"), ("h_read_col_masked", 1, 0, "1,2"), ("h_read_col_masked", 1, 0, "2,1,2"),
                 ("h_read_col_masked", 1, 1, "2,2"), ("h_read_col_masked", 0, 1, "2,2"), ("h_read_col_flat", 1, 0, "3,3")]
    out = []
    for h, opt, dic, rows in cfgs:
        if prop == "C03" and h == "h_read_col_masked":
            continue
        if prop == "C13" and h == "h_read_col_flat":
            continue
        j = ch(prop, F, h, t, FUN, shape=dict(optional=opt, dictionary=dic, page_rows=rows),
               env=dict(VERIF_OPTIONAL=opt, VERIF_DICT=dic, VERIF_PAGE_ROWS=rows))
        j["name"] += "[opt=%d,dict=%d,pages=%s]" % (opt, dic, rows)
        out.append(j)
    return out
