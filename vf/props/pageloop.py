"""jobs for the flat page-loop harness (vf/pyshim/h_readcol.py): real core.read_col for a flat column"""
from .e2 import ch

F = "vf/pyshim/h_readcol.py"
FUN = ["core.read_col", "schema.SchemaHelper"]


def jobs(prop, tier, seed=0):
    t = 200 if tier == "quick" else 800
    cfgs = [("h_read_col_flat", 1, 0, "2,2"), ("h_read_col_flat", 1, 1, "2,1"), ("h_read_col_flat", 0, 0, "2,2"),
            ("h_read_col_masked", 1, 0, "2,2"), ("h_read_col_masked", 0, 0, "2,2"), ("h_read_col_masked", 1, 1, "2,1")]
    if tier == "thorough":
        cfgs += [("h_read_col_flat", 1, 0, "2,2,2"), ("h_read_col_masked", 1, 0, "1,2"), ("h_read_col_masked", 1, 0, "2,1,2"),
                 ("h_read_col_masked", 1, 1, "2,2"), ("h_read_col_masked", 0, 1, "2,2"), ("h_read_col_flat", 1, 0, "3,3")]
    out = []
    for h, opt, dic, rows in cfgs:
        if prop == "C03" and h == "h_read_col_masked":
            continue
        if prop == "C13" and h == "h_read_col_flat":
            continue
        j = ch(prop, F, h, t, FUN, shape=dict(optional=opt, dictionary=dic, page_rows=rows),
               env=dict(VERIF_OPTIONAL=opt, VERIF_DICT=dic, VERIF_PAGE_ROWS=rows))
        j["name"] += "[opt=%d,dict=%d,pages=%s]" % (opt, dic, rows)
        out.append(j)
    return out



def v2_jobs(prop, tier):
    """real core.read_col -> real core.read_data_page_v2 for a flat column (vf/pyshim/h_v2.py)"""
    t = 200 if tier == "quick" else 800
    cfgs = [("plain", "float", "int64", 1, "2,2"), ("plain", "float", "double", 1, "2,2"),
            ("plain", "nullable", "int64", 1, "2,2"), ("dict", "float", "int64", 1, "2,2"),
            ("delta", "float", "int64", 0, "2,2"), ("plain", "float", "int64", 0, "2,2")]
    if tier == "thorough":
        cfgs += [("plain", "float", "int64", 1, "1,2,1"), ("plain", "nullable", "int64", 1, "2,1,2"),
                 ("dict", "nullable", "int64", 1, "2,2"), ("dict", "float", "int64", 1, "3,2"),
                 ("plain", "float", "double", 1, "3,3"), ("delta", "float", "int64", 0, "3,1")]
    # loaded as categorical: a foreign file (any index width, general decoder) / a file of this library (byte-wide
    # indices, fast path)
    cfgs += [("dict", "cat", "int64", 1, "2,2", 4, 0), ("dict", "cat", "int64", 1, "2,2", 8, 1)]
    # value bytes compressed (the page header then carries two different sizes)
    cfgs += [("dict", "float", "int64", 1, "2,2", "snappy"), ("plain", "float", "double", 1, "2,2", "snappy"),
             ("plain", "float", "int64", 0, "2,2", "snappy")]
    if tier == "thorough":
        cfgs += [("delta", "float", "int64", 0, "2,2", "snappy"), ("dict", "cat", "int64", 1, "2,2", 4, 0, "snappy"),
                 ("dict", "nullable", "int64", 1, "2,1", "snappy"), ("plain", "nullable", "int64", 1, "2,2", "snappy")]
    if tier == "thorough":
        cfgs += [("dict", "cat", "int64", 0, "2,2", 4, 0), ("dict", "cat", "int64", 1, "1,2", 8, 0),
                 ("dict", "cat", "int64", 0, "2,1", 8, 1), ("dict", "cat", "int64", 1, "3,2", 2, 0)]
    return _v2(prop, "h_read_col_v2", t, cfgs,
               ["core.read_col", "core.read_data_page_v2 (flat column)", "converted_types.converts_inplace"])


def _v2(prop, harness, t, cfgs, functions):
    out = []
    for cfg in cfgs:
        compressed = 0
        if cfg and cfg[-1] == "snappy":
            cfg, compressed = cfg[:-1], 1
        enc, outk, phys, opt, rows = cfg[:5]
        width, selfmade = (cfg[5], cfg[6]) if len(cfg) > 5 else (4, 0)
        shape = dict(encoding=enc, output=outk, physical=phys, optional=opt, page_rows=rows)
        env = dict(VERIF_ENC=enc, VERIF_OUT=outk, VERIF_PHYS=phys, VERIF_OPTIONAL=opt, VERIF_PAGE_ROWS=rows)
        tag = "[%s,%s,%s,opt=%d,pages=%s" % (enc, outk, phys, opt, rows)
        if compressed:
            shape["codec"] = "SNAPPY"
            env["VERIF_COMPRESSED"] = 1
            tag += ",snappy"
        if outk == "cat":
            shape.update(index_width=width, selfmade=selfmade)
            env.update(VERIF_WIDTH=width, VERIF_SELFMADE=selfmade)
            tag += ",width=%d,selfmade=%d" % (width, selfmade)
        j = ch(prop, "vf/pyshim/h_v2.py", harness, t, functions, shape=shape, env=env)
        j["name"] += tag + "]"
        out.append(j)
    return out


def v2_masked_jobs(prop, tier):
    t = 200 if tier == "quick" else 800
    cfgs = [("plain", "float", "int64", 1, "2,2"), ("plain", "nullable", "int64", 1, "2,2"),
            ("dict", "float", "int64", 1, "2,1"), ("dict", "nullable", "int64", 1, "2,1"),
            ("delta", "float", "int64", 0, "2,1")]
    if tier == "thorough":
        cfgs += [("plain", "float", "double", 1, "2,2"), ("plain", "float", "int64", 0, "2,2"),
                 ("plain", "nullable", "int64", 1, "1,2"), ("dict", "float", "int64", 1, "2,2"),
                 ("dict", "nullable", "int64", 1, "1,2"), ("plain", "float", "int64", 1, "1,1,2")]
    cfgs += [("dict", "cat", "int64", 1, "2,1", 4, 0), ("dict", "cat", "int64", 1, "2,1", 8, 1)]
    cfgs += [("dict", "float", "int64", 1, "2,1", "snappy")]
    if tier == "thorough":
        cfgs += [("plain", "float", "int64", 1, "2,2", "snappy"), ("dict", "cat", "int64", 1, "2,1", 8, 1, "snappy")]
    if tier == "thorough":
        cfgs += [("dict", "cat", "int64", 0, "2,1", 8, 1), ("dict", "cat", "int64", 1, "1,2", 2, 0),
                 ("dict", "cat", "int64", 1, "2,2", 8, 1)]
    return _v2(prop, "h_read_col_v2_masked", t, cfgs,
               ["core.read_col (row mask over v2 pages)", "core.read_data_page_v2 (flat column)"])


def page_jobs(prop, tier):
    """real core.read_data_page / read_def (v1) call-site patterns (vf/pyshim/h_page.py)"""
    t = 200 if tier == "quick" else 800
    out = []
    for enc, opt, sm in (("plain", 1, 0), ("dict", 1, 0), ("dict", 1, 1), ("delta", 0, 0), ("bool_rle", 1, 0),
                         ("dict", 0, 0), ("dict", 0, 1)):
        j = ch(prop, "vf/pyshim/h_page.py", "h_page_v1", t, ["core.read_data_page", "core.read_def"],
               shape=dict(encoding=enc, optional=opt, selfmade=sm),
               env=dict(VERIF_ENC=enc, VERIF_OPTIONAL=opt, VERIF_SELFMADE=sm))
        j["name"] += "[%s,opt=%d,selfmade=%d]" % (enc, opt, sm)
        out.append(j)
    out.append(ch(prop, "vf/pyshim/h_page.py", "h_page_v1_nested", t, ["core.read_data_page", "core.read_rep",
                                                                      "core.read_def"]))
    out.append(ch(prop, "vf/pyshim/h_skip.py", "h_skip_nulls", t,
                  ["core.read_col", "core.read_data_page", "core.read_def", "core.skip_definition_bytes"]))
    for h in ("h_levels", "h_levels_two_columns", "h_list_shape", "h_list_shape_types", "h_map_shape"):
        out.append(ch(prop, "vf/pyshim/h_schema.py", h, t, ["schema.SchemaHelper", "schema._is_list_like",
                                                           "schema._is_map_like"]))
    return out
