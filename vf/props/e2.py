"""helpers to declare CrossHair harness jobs"""


def ch(prop, file, func, timeout=40, functions=(), shape=None, bounds="", env=None):
    return dict(name="%s-%s" % (prop, func), kind="crosshair", timeout=timeout * 8 + 120,
                payload=dict(file=file, func=func, timeout=timeout, functions=list(functions), shape=shape or {},
                             bounds=bounds, cls_prefix=prop, env=env or {}))


SHIM_ASSUMPTIONS = [
    "CrossHair 0.0.110 (z3) executes the real function objects imported from a staged copy of /repo's working tree",
    "'Confirmed over all paths' is the only passing verdict; each harness has a reachability twin (same "
    "preconditions, post: False) that must be refuted",
]
