"""C15 - LIST/MAP assembly (engine E3: _assemble_objects lifted from cencoding.pyx, run under CrossHair)."""
from .e2 import ch, SHIM_ASSUMPTIONS

LEVEL = "other"
F = "vf/pyxlift/h_c15.py"


def plan(tier, seed):
    jobs = []
    shapes = [(1, 1), (0, 1), (1, 0), (0, 0)]
    ns = [3] if tier == "quick" else [3, 4]
    t = 150 if tier == "quick" else 900
    for n in ns:
        for ol, oe in shapes:
            envv = dict(VERIF_N=n, VERIF_OPT_LIST=ol, VERIF_OPT_ELEM=oe)
            hs = ["h_assemble_split", "h_assemble_one_page", "h_read_col_list"]
            hs.append("h_assemble_two_splits")
            for h in hs:
                if h == "h_assemble_two_splits" and n < 3:
                    continue
                j = ch("C15", F, h, t, ["cencoding._assemble_objects"] + (
                    ["core.read_col", "schema.SchemaHelper"] if h == "h_read_col_list" else []), shape=dict(n=n, optional_list=ol,
                                                                                  optional_element=oe), env=envv)
                j["name"] += "[n=%d,list=%d,elem=%d]" % (n, ol, oe)
                jobs.append(j)
            # dictionary page + data pages that are dictionary-encoded or PLAIN (fallback inside a chunk)
            for encs in (("d,p", "p,d") if (tier == "quick" and (ol, oe) in ((1, 1), (0, 0))) else
                         (() if tier == "quick" else ("d,p", "p,d", "d,d"))):
                j = ch("C15", F, "h_read_col_list_mixed", t, ["core.read_col", "cencoding._assemble_objects",
                                                             "schema.SchemaHelper"],
                       shape=dict(n=n, optional_list=ol, optional_element=oe, page_encodings=encs),
                       env=dict(envv, VERIF_ENCS=encs))
                j["name"] += "[n=%d,list=%d,elem=%d,encs=%s]" % (n, ol, oe, encs)
                jobs.append(j)
            # DATA_PAGE_V2 pages (dictionary values): real read_col -> real read_data_page_v2 -> lifted assembler
            import itertools
            for k in range(0, min(n, 4)):
                for sp in itertools.combinations(range(1, n), k):
                    j = ch("C15", "vf/pyxlift/h_c15v2.py", "h_read_col_list_v2", t,
                           ["core.read_col", "core.read_data_page_v2 (repeated-column branch)",
                            "cencoding._assemble_objects", "schema.SchemaHelper"],
                           shape=dict(n=n, optional_list=ol, optional_element=oe, v2_page_boundaries=list(sp)),
                           env=dict(envv, VERIF_SPLITS=",".join(map(str, sp))))
                    j["name"] += "[n=%d,list=%d,elem=%d,splits=%s]" % (n, ol, oe, "-".join(map(str, sp)) or "none")
                    jobs.append(j)
                    if len(sp) <= 1 or tier == "thorough":
                        # the same pages with PLAIN values
                        j = ch("C15", "vf/pyxlift/h_c15v2.py", "h_read_col_list_v2", t,
                               ["core.read_col", "core.read_data_page_v2 (repeated-column branch, PLAIN values)",
                                "cencoding._assemble_objects", "schema.SchemaHelper"],
                               shape=dict(n=n, optional_list=ol, optional_element=oe, v2_page_boundaries=list(sp),
                                          values="PLAIN"),
                               env=dict(envv, VERIF_SPLITS=",".join(map(str, sp)), VERIF_V2ENC="plain"))
                        j["name"] += "[n=%d,list=%d,elem=%d,splits=%s,plain]" % (n, ol, oe,
                                                                               "-".join(map(str, sp)) or "none")
                        jobs.append(j)
    jobs.append(ch("C15", "vf/pyshim/h_mapzip.py", "h_map_zip", t, ["core.read_row_group_arrays", "schema._is_map_like",
                                                                  "schema.SchemaHelper"]))
    from . import pageloop
    jobs += [j for j in pageloop.page_jobs("C15", tier) if "h_page_v1[" in j["name"]]
    jobs.append(ch("C15", "vf/pyshim/h_page.py", "h_page_v1_nested", t, ["core.read_data_page", "core.read_rep",
                                                                        "core.read_def"]))
    for h in ("h_levels", "h_levels_two_columns", "h_list_shape", "h_list_shape_types", "h_map_shape"):
        jobs.append(ch("C15", "vf/pyshim/h_schema.py", h, t, ["schema.SchemaHelper", "schema._is_list_like",
                                                             "schema._is_map_like"]))
    jobs.append(ch("C15", "vf/pyshim/h_page.py", "h_read_page_consumes", 60, ["core._read_page"]))
    extra = dict(
        explanation="The real record-assembly function cencoding._assemble_objects is lifted mechanically from the "
                    ".pyx (types stripped, C integer assignments wrapped to their width, memoryview indexing given the "
                    "bounds obligation the C omits; drift-guarded against the lines quoted in the generated C) and "
                    "executed by CrossHair (z3) page by page over symbolic definition/repetition level streams that "
                    "satisfy the validity predicate of the schema shape, for every page split position (including "
                    "inside a row); the result must equal a Dremel record-assembly reference.",
        bounds="level streams of %s entries; 1 split (and 2 splits where listed) at every position; optional/required "
               "LIST x optional/required element; values distinct integers; plain (non-dictionary) values" % ns,
        outside="dictionary dereference (numpy fancy indexing), MAP key/value zipping in core.read_row_group_arrays, "
                "the row_idx bookkeeping lines of core.read_col (one integer passed through, modelled as prev = 1 + "
                "returned index as the call site does), deeper nesting",
        stubs=["memoryviews -> rt.MV (list + shape, index obligation)", "values array -> Python list"],
        assumptions=SHIM_ASSUMPTIONS + ["the lifted Python is what the .pyx says; the generated C quotes the same lines "
                                        "(checked every run); counterexamples are replayed on the compiled function"])
    return jobs, extra
