"""C10 - metadata serialisation is lossless, IDL-conformant and safe for any size.
T1 integers (E1: varint / zigzag kernels over the full 64-bit range), T4 capacity (E3: lifted to_bytes + write_thrift
with the bounds obligations the C omits), T2/T3 structure and tables (E3 + IDL, vf.props.thrift_struct when present)."""
from .e2 import ch, SHIM_ASSUMPTIONS
from . import native_lattice as L

LEVEL = "other"
F = "vf/pyxlift/h_c10cap.py"
FUN = ["cencoding.ThriftObject.to_bytes", "cencoding.write_thrift", "cencoding.write_list"]


def capacity_jobs(tier, seed, prop="C10"):
    t = 120 if tier == "quick" else 400
    jobs = [ch(prop, F, "h_statistics_capacity", t, FUN), ch(prop, F, "h_statistics_capacity_rest", t, FUN),
            ch(prop, F, "h_filemeta_capacity", t, FUN)]
    shapes = ["1,1,1", "0,1,0", "2,2,2"] if tier == "quick" else ["1,1,1", "0,1,0", "2,2,2", "2,1,0", "1,2,2",
                                                                    "2,2,0"]
    for sh in shapes:
        j = ch(prop, F, "h_filemeta_capacity_rest", t, FUN, shape=dict(fmd=sh), env=dict(VERIF_FMD_SHAPE=sh))
        j["name"] += "[%s]" % sh
        jobs.append(j)
    # (a footer without row groups is inside the recorded finding T4-filemeta: its buffer is the key-value text alone)
    for sh in ["1,1,1", "2,2,2", "1,2,2"]:
        j = ch(prop, F, "h_filemeta_capacity_kv", t, FUN, shape=dict(fmd=sh), env=dict(VERIF_FMD_SHAPE=sh))
        j["name"] += "[%s]" % sh
        jobs.append(j)
    for j in jobs:
        j["payload"]["cls_prefix"] = "C10"
    jobs.append(dict(name="%s-lemma-buffer-premise" % prop, kind="pyfunc", timeout=300,
                     payload=dict(func="vf.pyxlift.lemma_c10:buffer_premise")))
    return jobs


def plan(tier, seed):
    jobs = capacity_jobs(tier, seed)
    ints = [x for x in L.scalars(tier) if x[0] in ("read_varint", "encode_varint", "varint_roundtrip", "zigzag")]
    jobs.append(dict(name="C10-T1-integers", kind="llsym", payload=ints, timeout=600))
    try:
        from . import thrift_struct
        jobs += thrift_struct.jobs("C10", tier, seed)
    except ImportError:
        pass
    # the structures the writer hands to the serialiser carry the 32-bit markers the serialiser relies on (checked on
    # everything write_column emits: chunk, encoding stats, statistics, page headers)
    from .e2 import ch
    t = 150 if tier == "quick" else 500
    for nm in (2, 3):
        # the schema elements handed to the serialiser hold integers in their enum fields (nullability modes that
        # compute the repetition type)
        j = ch("C10", "vf/pyshim/h_meta.py", "h_make_metadata", t, ["writer.make_metadata"],
               shape=dict(has_nulls=["True", "False", "None", "list"][nm]), env=dict(VERIF_NULLMODE=nm))
        j["name"] += "[has_nulls=%d]" % nm
        jobs.append(j)
    from . import wc_lattice
    wc = wc_lattice.jobs("C10", tier)
    jobs += wc if tier == "thorough" else [j for j in wc if "cats=1,none,null=1" in j["name"] or
                                           "v2,cats=0,none,null=1,pages=2" in j["name"]]
    jobs.append(dict(name="C10-lemma-specs-match-idl", kind="pyfunc", timeout=300,
                     payload=dict(func="vf.pyshim.lemmas:specs_match_idl")))
    extra = dict(
        explanation="T1: the varint/zigzag kernels (LLVM IR of the generated C) are compared with ULEB128/zigzag over "
                    "the full 64-bit range by z3. T4: ThriftObject.to_bytes, write_thrift and write_list are lifted "
                    "from cencoding.pyx and run by CrossHair (z3) with string/bytes lengths as symbolic naturals; "
                    "every unchecked memcpy must stay inside the buffer the sizing heuristic allocated and no checked "
                    "write may be dropped (truncated output). Witnesses are confirmed on an ASan build.",
        bounds="lengths 0..8 MB each; FileMetaData with <=2 row groups x <=2 columns x <=2 key-values; Statistics "
               "struct alone; integers full 64-bit",
        outside="memory layout of the real numpy buffer (the replay shows the corruption under ASan)",
        stubs=["lifted code: see vf/pyxlift/lift.py (idiom list); NumpyIO -> rt.PyNumpyIO (size-only mode)",
               "encode_unsigned_varint -> size-only twin (same number of checked byte writes; byte values are the "
               "E1 obligation)", "len(str(key_value list)) -> shortest possible text (printable ASCII content)"] + L.STUBS,
        assumptions=SHIM_ASSUMPTIONS + L.ASSUME[:1])
    return jobs, extra
