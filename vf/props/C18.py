"""C18 - rejected operations leave an existing dataset as it was (failure position symbolic)."""
from .e2 import ch, SHIM_ASSUMPTIONS

LEVEL = "other"
G = "vf/pyshim/h_wfile.py"


def plan(tier, seed):
    t = 120 if tier == "quick" else 400
    jobs = [ch("C18", G, "h_simple_append_rejected", t, ["writer.write_simple (append branch)"]),
            ch("C18", G, "h_multi_append_fault", t, ["api.ParquetFile.write_row_groups", "writer.write_multi"]),
            ch("C18", G, "h_append_other_columns_simple", t, ["api.ParquetFile.write_row_groups", "writer.write_simple",
                                                              "writer.make_row_group"])]
    try:
        from . import rejections
        jobs += rejections.jobs("C18", tier)
    except ImportError:
        pass
    # a rejected append may have opened new part files, never one that exists: part numbers above every number in use
    for h in ("h_find_max_part", "h_find_max_part_dirs", "h_find_max_part_order"):
        jobs.append(ch("C18", G, h, t, ["writer.find_max_part", "api.part_ids"]))
    jobs.append(ch("C18", "vf/pyshim/h_labels.py", "h_type_refused_early", t,
                   ["writer.find_type (up-front type check)", "writer.convert (late type check)"]))
    jobs.append(ch("C18", "vf/pyshim/h_labels.py", "h_label_refused_early", t,
                   ["util.get_column_metadata (up-front label check)", "writer.make_row_group (late label check)"]))
    jobs.append(ch("C18", "vf/pyshim/h_write.py", "h_write_append_options", t,
                   ["writer.write (append branch: up-front refusals)"]))
    jobs.append(ch("C18", "vf/pyshim/h_c05.py", "h_unknown_filter_column", t, ["api.filter_row_groups (column check)"]))
    jobs.append(ch("C18", "vf/pyshim/h_labels.py", "h_required_null_refused", t,
                   ["writer.convert (object encodings)", "writer.encode_plain", "speedups.pack_byte_array"]))
    extra = dict(
        explanation="A late rejection (any exception out of a column write) is injected at a symbolic row-group "
                    "position after a symbolic number of bytes of that row group were written; the real write_simple "
                    "append branch / write_multi must raise and the pre-existing bytes must be what they were (writes "
                    "inside the old extent are accepted only if a later write restores the bytes read from there).",
        bounds="2 appended row groups, failure at either, partial bytes 0..2^40; multi-file: failure at any of the "
               "first 40 filesystem calls",
        outside="which pandas inputs trigger which rejection (concrete pandas behaviour); up-front validation paths",
        stubs=["as C07; the rejection is an exception raised by the make_row_group stub"],
        assumptions=SHIM_ASSUMPTIONS)
    return jobs, extra
