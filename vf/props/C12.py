"""C12 - native code stays inside its buffers (engine E1 safety obligations; E3 capacity obligations added by
vf.props.C10 machinery when available).  Only the safety obligations count here: in-bounds loads/stores/memcpy,
shift amount < width, divisor != 0, on well-formed inputs of every shape of the C11/C03 lattices."""
from . import native_lattice as L

LEVEL = "model_checking"
SAFETY = ("oob-read", "oob-write", "shift-ub", "div0")


def plan(tier, seed):
    js, n = L.jobs([L.bitpacked, L.rle, L.bitpacked1, L.scalars, L.hybrid, L.delta, L.encoders], tier,
                   prefix="C12")
    from . import bytearray as BA
    js += BA.jobs("C12", tier, which=("h_unpack", "h_pack"))
    try:
        from . import C10
        js += C10.capacity_jobs(tier, seed, prop="C12")
    except ImportError:
        pass
    # the packer reads size and payload through unchecked macros: anything but a bytes object must be refused first
    from .e2 import ch
    js.append(ch("C12", "vf/pyshim/h_labels.py", "h_required_null_refused", 60 if tier == "quick" else 200,
                 ["speedups.pack_byte_array (item type check, compiled)", "writer.encode_plain"]))
    extra = dict(
        explanation="Bounded symbolic model checking of the LLVM IR of the generated C: every load, store and memcpy "
                    "carries the obligation 'inside the region it addresses', every shift 'amount < width', every "
                    "division 'divisor != 0'; z3 decides each obligation over all payloads of the shape. Witnesses "
                    "are confirmed on an ASan+UBSan build of the same C in a subprocess.",
        bounds="tier=%s: the %d kernel x shape harnesses of the C11 lattice (widths 0..32 / 0..64 for delta, "
               "capacities 0..count+1, item sizes 1 and 4), inputs sized exactly to the bytes the stream needs" % (tier, n),
        outside="Cython memoryview/refcount runtime, NumpyIO.__cinit__, numpy; forming (not dereferencing) an "
                "out-of-bounds pointer; signed wrap-around (defined under -fno-strict-overflow); malformed streams; "
                "the CPython object API inside speedups (the pointer arithmetic of pack/unpack_byte_array is "
                "checked on the lifted .pyx, engine E3)",
        stubs=L.STUBS, assumptions=L.ASSUME)
    return js, extra


def post(results, tier, seed):
    for r in results:
        fs = [f for f in r.get("findings", []) if f.get("kind") in SAFETY or
              str(f.get("cls", "")).startswith(("C10:", "lemma:buffer", "C12:h_required_null_refused")) or
              # the lifted BYTE_ARRAY codec: a pointer dereference outside its region surfaces as CapacityViolation
              (str(f.get("cls", "")).startswith(("C12:h_unpack", "C12:h_pack")) and
               "CapacityViolation" in str(f.get("detail", "")))]
        if r["status"] == "violation" and not fs:
            r["status"] = "holds"
        r["findings"] = fs
    return results
