"""C17 (reduced) - metadata-only answers match the read: the prediction logic (engine E2)."""
from .e2 import ch, SHIM_ASSUMPTIONS

LEVEL = "other"
F = "vf/pyshim/h_c17.py"


def plan(tier, seed):
    t = 200 if tier == "quick" else 800
    fun = ["api.ParquetFile._dtypes", "api.ParquetFile.check_categories", "api.ParquetFile.categories",
           "converted_types.typemap", "schema.SchemaHelper"]
    jobs = []
    for nested in (0, 1):
        j = ch("C17", F, "h_dtypes_nullable", t, fun, shape=dict(map_column_first=nested), env=dict(VERIF_NESTED=nested))
        j["name"] += "[nested=%d]" % nested
        jobs.append(j)
    jobs.append(ch("C17", F, "h_slice_dtypes", t, ["api.ParquetFile.__getitem__", "api.ParquetFile.__getstate__",
                                                   "api.ParquetFile.__setstate__", "api.ParquetFile._dtypes"]))
    jobs.append(ch("C17", "vf/pyshim/h_c17.py", "h_time_dtype", t if "C17" == "C17" else (90 if tier == "quick" else 300), ["api.ParquetFile._dtypes (timestamp branch)", "api.ParquetFile.__getstate__", "api.ParquetFile.__setstate__", "api.ParquetFile.pre_allocate"]))
    # the columns a read returns are the ones its own arguments name (one list object used for several reads)
    jobs.append(ch("C17", "vf/pyshim/h_c06.py", "h_columns_arg", t, ["api.ParquetFile.to_pandas",
                                                                    "api.ParquetFile._get_index"]))
    jobs.append(ch("C17", "vf/pyshim/h_c17.py", "h_time_index", t, ["api.ParquetFile.pre_allocate", "api._pre_allocate"]))
    jobs.append(ch("C17", "vf/pyshim/h_c17.py", "h_cat_order_flags", 90, ["api.ParquetFile.pre_allocate", "dataframe.empty (categorical placeholders)"]))
    from . import cats
    jobs += cats.jobs("C17", tier)
    jobs.append(ch("C17", F, "h_prealloc", t, ["api.ParquetFile.pre_allocate", "api._pre_allocate",
                                               "api.ParquetFile._dtypes", "api.ParquetFile.check_categories"]))
    jobs.append(ch("C17", "vf/pyshim/h_c06.py", "h_slice_count", t, ["api.ParquetFile.__getitem__", "api.ParquetFile.count",
                                                                    "api.ParquetFile.info"]))
    jobs.append(ch("C17", "vf/pyshim/h_c06.py", "h_slice_state", t, ["api.ParquetFile.__getitem__",
                                                                    "api.ParquetFile.__setstate__"]))
    for nm in (0, 1, 2, 3):
        j = ch("C17", "vf/pyshim/h_meta.py", "h_make_metadata", t, ["writer.make_metadata"],
               shape=dict(has_nulls=["True", "False", "None", "list"][nm]), env=dict(VERIF_NULLMODE=nm))
        j["name"] += "[has_nulls=%d]" % nm
        jobs.append(j)
    jobs.append(dict(name="C17-lemma-find-type", kind="pyfunc", timeout=400,
                     payload=dict(func="vf.pyshim.lemma_types:find_type_roundtrip")))
    extra = dict(
        explanation="The real ParquetFile._dtypes runs under CrossHair (z3) on a handle built from real schema and "
                    "row-group thrift objects whose row counts, NULL counts and statistics state (absent / without "
                    "null_count / truthful) are symbolic: whenever a row group that will be read holds a NULL the "
                    "predicted dtype of an integer column must be able to hold it.",
        bounds="2 row groups, rows <= 1000, integer column after a float column (and after a MAP column: two leaf chunks)",
        outside="what pandas allocates for a dtype (dataframe.empty), time zones, categorical dictionaries",
        stubs=["handle = object.__new__(ParquetFile) with the attributes _set_attrs would give it"],
        assumptions=SHIM_ASSUMPTIONS)
    return jobs, extra
