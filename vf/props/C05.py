"""C05 - row-group pruning is sound (engine E2: CrossHair over the real filter functions)."""
from .e2 import ch, SHIM_ASSUMPTIONS

LEVEL = "other"
F = "vf/pyshim/h_c05.py"
FUN = ["api.filter_val", "api.filter_in", "api.filter_not_in", "api._handle_np_array", "api.filter_out_stats",
       "api.filter_out_cats", "api.filter_row_groups"]


def plan(tier, seed):
    t = 60 if tier == "quick" else 240
    hs = [("h_filter_val_int", 40), ("h_filter_val_str", t), ("h_filter_in_int", 40), ("h_filter_not_in_int", 40), ("h_filter_not_in_int_rest", 40),
          ("h_stats_not_in_clause_rest", t),
          ("h_filter_in_str", t), ("h_stats_clause", t), ("h_stats_two_clauses", t), ("h_stats_b_without_bounds", t), ("h_stats_in_clause", t),
          ("h_stats_not_in_clause", t), ("h_cats_clause", t), ("h_cats_two_clauses", t), ("h_cats_in_clause", t), ("h_cats_label_typing", t), ("h_cats_bool_label", t), ("h_cats_in_text", t), ("h_cats_int_label_other_kind", t), ("h_cats_same_column", t), ("h_unknown_filter_column", t),
          ("h_row_groups_and", 120 if tier == "quick" else 400), ("h_row_groups_or2", 120 if tier == "quick" else 400),
          ("h_row_groups_or3", 160 if tier == "quick" else 600),
          ("h_row_groups_composition", 160 if tier == "quick" else 600)]
    if tier == "thorough":
        hs.append(("h_stats_two_columns_partial", 600))
    jobs = [ch("C05", F, h, to, FUN, env=dict(VERIF_SLEN=1 if tier == "quick" else 2)) for h, to in hs]
    jobs.append(ch("C05", "vf/pyshim/h_convert.py", "h_stat_bound_decodes", t,
                   ["encoding.read_plain (stat=True)", "converted_types.convert"]))
    jobs.append(ch("C05", "vf/pyshim/h_convert.py", "h_convert_intlike", t,
                   ["converted_types.convert (integer-like converted types; the value statistics are compared by)"]))
    extra = dict(
        explanation="CrossHair symbolic execution (z3) of the real api.filter_* functions: bounds (each possibly "
                    "absent), null counts, filter constants, operator index and a witness row are symbolic; the "
                    "postcondition says a row that satisfies the predicate is never in a pruned row group and the "
                    "result keeps row-group order. Bounded by the harness shapes, unbounded integers.",
        bounds="1-2 columns, AND groups of <=2 clauses, OR of <=2 groups, 'in' lists of <=3 ints / <=2 one-char "
               "strings, string bounds of length <=2; integers unbounded; 2 row groups for order",
        outside="float/NaN and datetime bounds; decoding of statistics bytes (read_plain/convert are stubbed to 'the "
                "bound'); val_to_num typing of partition text (C08); cross-type comparisons other than float constant vs integer partition label",
        stubs=["api.np -> {searchsorted: bisect contract, ndarray: never matches}",
               "api.ensure_bytes/encoding.read_plain/converted_types.convert -> identity on a Token holding the bound",
               "api.ex_from_sep -> object returning the (key, value) pairs of a shim path; api.val_to_num -> identity",
               "h_cats_int_label_other_kind: real val_to_num / val_from_meta with numpy's int64 cast stubbed by its contract (truncation toward zero, asserted in the replay); label within +-10^9, constant n/2 within +-10^9, kept in integer arithmetic (class Half, registered as numbers.Real)",
               "row groups / statistics are real compiled ThriftObjects holding symbolic values"],
        assumptions=SHIM_ASSUMPTIONS + ["a NULL cell satisfies no clause (weakest reading of the statement)"])
    return jobs, extra
