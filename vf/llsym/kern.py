"""Harness kit for the native kernels of fastparquet.cencoding: builds NumpyIO
objects in the interpreter's memory, calls the real (IR) function, and hands the
final states to the per-kernel oracles in specs.py."""
import z3

from . import ir as IR
from .interp import Engine, State, HarnessError, simp, is_c, to_z3, mask

PFX = "__pyx_f_11fastparquet_9cencoding_"
NIO = "struct.__pyx_obj_11fastparquet_9cencoding_NumpyIO"
MVS = "struct.__Pyx_memviewslice"

_modcache = {}


def module(path, c_path=None):
    """IR module; module-level C globals that the module init function assigns an integer
    literal to (e.g. `nat`) get that literal as their initial value (read from the current .c)."""
    m = _modcache.get(path)
    if m is None:
        m = IR.load_module(path)
        if c_path:
            import re
            with open(c_path) as f:
                ctext = f.read()
            for mm in re.finditer(r"^\s*(__pyx_v_\w+) = (-?\d+)L*;\s*$", ctext, re.M):
                g = m.globals.get(mm.group(1))
                if g is not None and g[0] is not None and g[0].k == "int":
                    m.globals[mm.group(1)] = (g[0], int(mm.group(2)))
        _modcache[path] = m
    return m


class Kit:
    """one engine + one initial state"""

    def __init__(self, mod, **kw):
        self.m = mod
        self.e = Engine(mod, **kw)
        self.st = State()
        nio = IR.Ty("named", NIO)
        if NIO not in mod.structs:
            raise HarnessError("NumpyIO struct not found in IR")
        self.nio_size = mod.size_align(nio)[0]
        st = mod.resolve(nio)
        # field order in the .pyx: data (memviewslice), loc, nbytes, ptr, writable  (after ob_base, vtab)
        kinds = [f.k if f.k != "named" else f.a for f in st.a]
        if len(st.a) != 7 or kinds[2] != MVS or kinds[3:] != ["int", "int", "ptr", "int"]:
            raise HarnessError("unexpected NumpyIO layout: %r" % (kinds,))
        self.off = {n: mod.field_offset(nio, i)[0] for n, i in
                    (("vtab", 1), ("data", 2), ("loc", 3), ("nbytes", 4), ("ptr", 5), ("writable", 6))}
        self.mvs = IR.Ty("named", MVS)
        self.mvs_size = mod.size_align(self.mvs)[0]
        self.mvs_off = {n: mod.field_offset(self.mvs, i)[0] for n, i in
                        (("memview", 0), ("data", 1), ("shape", 2), ("strides", 3), ("suboffsets", 4))}
        self.bufs = {}

    def buffer(self, name, content, writable=True):
        """content: list of ints / z3 BV8 / None"""
        base = self.e.alloc(self.st, name, len(content), writable=writable, init=content)
        self.bufs[name] = base
        return base

    def numpyio(self, name, buf_base, nbytes, loc=0):
        e, st = self.e, self.st
        obj = e.alloc(st, "NumpyIO:" + name, self.nio_size)
        r = st.regions[-1]
        r.bytes = [0] * r.size
        e.store(st, obj + self.off["loc"], 4, loc, "init")
        e.store(st, obj + self.off["nbytes"], 4, nbytes, "init")
        e.store(st, obj + self.off["ptr"], 8, buf_base, "init")
        d = obj + self.off["data"]
        e.store(st, d + self.mvs_off["memview"], 8, 0xDEAD0000, "init")
        e.store(st, d + self.mvs_off["data"], 8, buf_base, "init")
        e.store(st, d + self.mvs_off["shape"], 8, nbytes, "init")
        e.store(st, d + self.mvs_off["strides"], 8, 1, "init")
        e.store(st, d + self.mvs_off["suboffsets"], 8, mask(64), "init")
        return obj

    def memview(self, name, buf_base, n_items, itemsize):
        e, st = self.e, self.st
        obj = e.alloc(st, "memviewslice:" + name, self.mvs_size)
        r = st.regions[-1]
        r.bytes = [0] * r.size
        e.store(st, obj + self.mvs_off["memview"], 8, 0xDEAD0000, "init")
        e.store(st, obj + self.mvs_off["data"], 8, buf_base, "init")
        e.store(st, obj + self.mvs_off["shape"], 8, n_items, "init")
        e.store(st, obj + self.mvs_off["strides"], 8, itemsize, "init")
        e.store(st, obj + self.mvs_off["suboffsets"], 8, mask(64), "init")
        return obj

    def optargs(self, fname, values):
        """struct __pyx_opt_args_<fname> { int __pyx_n; <fields...> } with all given"""
        tyname = "struct.__pyx_opt_args_11fastparquet_9cencoding_" + fname
        if tyname not in self.m.structs:
            raise HarnessError("opt-args struct for %s not found" % fname)
        ty = IR.Ty("named", tyname)
        size = self.m.size_align(ty)[0]
        e, st = self.e, self.st
        obj = e.alloc(st, "optargs:" + fname, size)
        st.regions[-1].bytes = [0] * size
        e.store(st, obj, 4, len(values), "init")
        fields = self.m.resolve(ty).a
        for i, v in enumerate(values):
            off, fty = self.m.field_offset(ty, i + 1)
            n = self.m.size_align(fty)[0]
            e.store(st, off + obj, n, v, "init")
        return obj

    def run(self, fname, args):
        full = fname if fname.startswith("__pyx") else PFX + fname
        if full not in self.m.functions:
            raise HarnessError("kernel %s not found in the generated C" % full)
        self.e.call(self.st, full, args)
        return self.e.explore(self.st)

    # -------- reading results out of a final state --------
    def field(self, st, obj, name):
        n = 8 if name == "ptr" else 4
        return self.e.load(st, obj + self.off[name], n, "result")

    def out_bytes(self, st, base, n):
        idx = base // (1 << 40) - 1
        r = st.regions[idx]
        return list(r.bytes[:n])

    def out_word(self, st, base, i, size):
        r = st.regions[base // (1 << 40) - 1]
        t = r.typed.get((i * size, size))
        if t is not None:
            return t
        bs = self.out_bytes(st, base, (i + 1) * size)[i * size:(i + 1) * size]
        if all(isinstance(b, int) for b in bs):
            return sum(b << (8 * k) for k, b in enumerate(bs))
        if any(b is None for b in bs):
            return None
        if size == 1:
            return bs[0]
        return simp(z3.Concat(*[to_z3(b, 8) for b in reversed(bs)]))


def sym_bytes(prefix, n):
    return [z3.BitVec("%s%d" % (prefix, i), 8) for i in range(n)]


def bits_of(byte_terms):
    """little-endian bit stream as one wide bit-vector term (or None if empty)"""
    if not byte_terms:
        return None
    return z3.Concat(*[to_z3(b, 8) for b in reversed(byte_terms)]) if len(byte_terms) > 1 else to_z3(byte_terms[0], 8)


def model_bytes(model, terms):
    out = []
    for t in terms:
        if isinstance(t, int):
            out.append(t)
        else:
            v = model.eval(t, model_completion=True)
            out.append(v.as_long())
    return out
