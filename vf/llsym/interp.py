"""Symbolic interpreter for the LLVM-IR subset of fastparquet's generated C.

Values are Python ints (concrete, unsigned, masked to their width) or z3
bit-vector terms.  Memory is a flat 64-bit address space of disjoint regions
placed 2^40 apart; every load/store/memcpy must fall inside one region (the
in-bounds obligation), every shift amount must be < width, every divisor != 0.
Symbolic branch conditions fork the state (depth first); feasibility is decided
by z3.  Loops are unrolled by execution; `max_steps`/`max_paths` are the
unwinding bound and hitting it makes the harness verdict inconclusive.
"""
import time
import z3

from .ir import IRError, Const, Reg, Glob, CExpr, Ty

REGION_GAP = 1 << 40


class HarnessError(Exception):
    pass


class NeedConcrete(Exception):
    """an address / length is symbolic: the engine forks on its feasible values (bounded)"""

    def __init__(self, term, what):
        self.term, self.what = term, what


class PathEnd(Exception):
    def __init__(self, status, info=None):
        self.status, self.info = status, info


def mask(w):
    return (1 << w) - 1


def is_c(v):
    return isinstance(v, int)


def to_z3(v, w):
    return z3.BitVecVal(v, w) if isinstance(v, int) else v


def simp(v):
    if isinstance(v, int):
        return v
    v = z3.simplify(v)
    if z3.is_bv_value(v):
        return v.as_long()
    return v


def signed(v, w):
    return v - (1 << w) if v >> (w - 1) else v


class Region:
    __slots__ = ("name", "base", "size", "bytes", "typed", "writable", "freed")

    def __init__(self, name, base, size, writable=True):
        self.name, self.base, self.size, self.writable = name, base, size, writable
        self.bytes = [None] * size
        self.typed = {}
        self.freed = False

    def copy(self):
        r = Region.__new__(Region)
        r.name, r.base, r.size, r.writable, r.freed = self.name, self.base, self.size, self.writable, self.freed
        r.bytes = list(self.bytes)
        r.typed = dict(self.typed)
        return r


class Frame:
    __slots__ = ("fn", "label", "prev", "ip", "regs", "dest", "allocas")

    def __init__(self, fn, dest):
        self.fn, self.dest = fn, dest
        self.label, self.prev, self.ip = fn.entry, None, 0
        self.regs = {}
        self.allocas = []

    def copy(self):
        f = Frame.__new__(Frame)
        f.fn, f.dest, f.label, f.prev, f.ip = self.fn, self.dest, self.label, self.prev, self.ip
        f.regs = dict(self.regs)
        f.allocas = list(self.allocas)
        return f


class State:
    def __init__(self):
        self.frames = []
        self.regions = []          # index = region id
        self.pc = []
        self.steps = 0
        self.status = "running"
        self.retval = None
        self.tainted = False       # passed through UB that was given x86 semantics
        self.info = None
        self.concrete = {}         # z3 ast id -> (term, value) chosen when forking on a symbolic address

    def fork(self):
        s = State.__new__(State)
        s.frames = [f.copy() for f in self.frames]
        s.regions = [r.copy() for r in self.regions]
        s.pc = list(self.pc)
        s.steps, s.status, s.retval, s.tainted, s.info = self.steps, self.status, self.retval, self.tainted, self.info
        s.concrete = dict(self.concrete)
        return s


class Engine:
    def __init__(self, module, stubs=None, max_steps=200000, max_paths=2000, timeout_ms=20000,
                 seed=0):
        self.m = module
        self.stubs = dict(DEFAULT_STUBS)
        if stubs:
            self.stubs.update(stubs)
        self.max_steps, self.max_paths = max_steps, max_paths
        self.solver = z3.Solver()
        self.solver.set("timeout", timeout_ms)
        self.solver.set("random_seed", seed)
        self.stats = dict(queries=0, sat=0, unsat=0, unknown=0, solver_ms=0.0, paths=0, steps=0, forks=0)
        self.violations = []
        self.bound_hit = False
        self.fresh_n = 0
        self.functions_entered = set()
        self.formation = []

    # ------------------------------------------------------------ solver --
    def check(self, *conds):
        t = time.time()
        r = self.solver.check(*conds)
        self.stats["solver_ms"] += (time.time() - t) * 1000
        self.stats["queries"] += 1
        r = str(r)
        self.stats[r] += 1
        return r

    def model(self):
        return self.solver.model()

    def fresh(self, prefix, w):
        self.fresh_n += 1
        return z3.BitVec("%s!%d" % (prefix, self.fresh_n), w)

    # ------------------------------------------------------------ memory --
    def alloc(self, st, name, size, writable=True, init=None):
        base = (len(st.regions) + 1) * REGION_GAP
        r = Region(name, base, size, writable)
        if init is not None:
            for i, b in enumerate(init):
                r.bytes[i] = b
        st.regions.append(r)
        return base

    def region_of(self, st, addr, n):
        idx = addr // REGION_GAP - 1
        if 0 <= idx < len(st.regions):
            r = st.regions[idx]
            off = addr - r.base
            if 0 <= off and off + n <= r.size and not r.freed:
                return r, off
        return None, None

    def describe_addr(self, st, addr):
        idx = addr // REGION_GAP - 1
        # also consider an address slightly below a region base
        for k in (idx, idx + 1):
            if 0 <= k < len(st.regions):
                r = st.regions[k]
                off = addr - r.base
                if -REGION_GAP // 2 < off < REGION_GAP // 2:
                    return "%s%+d (size %d)" % (r.name, off, r.size)
        return hex(addr)

    def concrete_addr(self, st, a, what):
        a = simp(a)
        if not is_c(a):
            c = st.concrete.get(a.get_id())
            if c is not None:
                return c[1]
            raise NeedConcrete(a, what)
        return a

    def load(self, st, addr, nbytes, what):
        addr = self.concrete_addr(st, addr, what)
        r, off = self.region_of(st, addr, nbytes)
        if r is None:
            self.violate(st, "oob-read", what, "read of %d bytes at %s" % (nbytes, self.describe_addr(st, addr)))
            raise PathEnd("oob")
        t = r.typed.get((off, nbytes))
        if t is not None:
            return t
        bs = r.bytes[off:off + nbytes]
        for i, b in enumerate(bs):
            if b is None:
                b = self.fresh("uninit_%s_%d" % (r.name, off + i), 8)
                r.bytes[off + i] = b
                bs[i] = b
        if all(isinstance(b, int) for b in bs):
            v = 0
            for i, b in enumerate(bs):
                v |= b << (8 * i)
            return v
        if nbytes == 1:
            return bs[0]
        v = simp(z3.Concat(*[to_z3(b, 8) for b in reversed(bs)]))
        return v

    def store(self, st, addr, nbytes, val, what):
        addr = self.concrete_addr(st, addr, what)
        r, off = self.region_of(st, addr, nbytes)
        if r is None or not r.writable:
            self.violate(st, "oob-write", what, "write of %d bytes at %s" % (nbytes, self.describe_addr(st, addr)))
            raise PathEnd("oob")
        if r.typed:
            for (o, n) in list(r.typed):
                if o < off + nbytes and off < o + n:
                    del r.typed[(o, n)]
        if isinstance(val, int):
            for i in range(nbytes):
                r.bytes[off + i] = (val >> (8 * i)) & 0xff
        else:
            if nbytes == 1:
                r.bytes[off] = val
            else:
                for i in range(nbytes):
                    r.bytes[off + i] = simp(z3.Extract(8 * i + 7, 8 * i, val))
                r.typed[(off, nbytes)] = val

    # -------------------------------------------------------- violations --
    def violate(self, st, kind, what, detail, extra_cond=None):
        conds = list(st.pc)
        if extra_cond is not None:
            conds.append(extra_cond)
        r = self.check(*conds)
        if r == "unsat":
            return False
        model = self.model() if r == "sat" else None
        fn = st.frames[-1].fn.name if st.frames else "?"
        self.violations.append(dict(kind=kind, function=fn, instr=what, detail=detail, model=model,
                                    solver=r, tainted=st.tainted))
        return True

    # ------------------------------------------------------------- values --
    def width(self, ty):
        ty2 = ty
        if ty2.k == "int":
            return ty2.a
        if ty2.k in ("ptr", "func"):
            return 64
        if ty2.k == "double":
            return 64
        if ty2.k == "float":
            return 32
        raise HarnessError("width of %r" % (ty,))

    def val(self, st, fr, o):
        if isinstance(o, Reg):
            try:
                return fr.regs[o.name]
            except KeyError:
                raise HarnessError("undefined register %%%s in %s" % (o.name, fr.fn.name))
        if isinstance(o, Const):
            v = o.v
            if v == "undef":
                return self.fresh("undef", self.width(o.ty))
            if isinstance(v, tuple):
                if v[0] == "float":
                    return self.float_const(o.ty, v[1])
            if v == "aggregate":
                raise HarnessError("aggregate constant used")
            return v & mask(self.width(o.ty))
        if isinstance(o, Glob):
            return self.global_addr(st, o.name)
        if isinstance(o, CExpr):
            if o.op == "getelementptr":
                base = self.val(st, fr, o.args[0])
                return self.gep(st, fr, o.srcty, base, o.args[1:])
            if o.op in ("bitcast", "ptrtoint", "inttoptr"):
                return self.val(st, fr, o.args[0])
            raise HarnessError("constant expression %s" % o.op)
        raise HarnessError("operand %r" % (o,))

    def float_const(self, ty, txt):
        import struct
        if txt.startswith("0x") or txt.startswith("-0x"):
            return int(txt, 16) & mask(64)
        return struct.unpack("<Q", struct.pack("<d", float(txt)))[0]

    def global_addr(self, st, name):
        if name in self.m.functions or name in self.m.declared:
            # function pointer: an opaque distinct address
            key = "fn:" + name
        else:
            key = "g:" + name
        for r in st.regions:
            if r.name == key:
                return r.base
        size = 8
        init = None
        g = self.m.globals.get(name)
        if key.startswith("g:") and (g is None or g[0] is None or g[0].k in ("named", "struct")) \
                and not name.startswith("__pyx"):
            # external CPython object (e.g. _Py_NoneStruct): immortal reference count
            size = 32
            init = [0xff, 0xff, 0xff, 0xff, 0, 0, 0, 0] + [0] * 24
        if g and g[0] is not None and init is None:
            try:
                size = self.m.size_align(g[0])[0]
            except IRError:
                size = 8
            if g[1] is not None:
                v = g[1] & mask(size * 8)
                init = [(v >> (8 * i)) & 0xff for i in range(size)]
        return self.alloc(st, key, max(size, 1), writable=True, init=init)

    def gep(self, st, fr, srcty, base, idxs):
        ty = srcty
        off = 0  # int or z3 64-bit
        first = True
        for ix in idxs:
            iv = self.val(st, fr, ix)
            iw = self.width(ix.ty)
            if first:
                sz = self.m.size_align(ty)[0] if ty.k != "opaque" else 1
                off = self.addmul(off, iv, iw, sz)
                first = False
                continue
            rt = self.m.resolve(ty)
            if rt.k == "struct":
                if not is_c(iv):
                    raise HarnessError("symbolic struct index")
                o, ty = self.m.field_offset(ty, iv)
                off = self.addmul(off, o, 64, 1)
            elif rt.k == "array":
                ty = rt.b
                sz = self.m.size_align(ty)[0]
                off = self.addmul(off, iv, iw, sz)
            else:
                raise HarnessError("gep into %r" % (rt,))
        return self.binop("add", base, off, 64)

    def addmul(self, acc, iv, iw, scale):
        # acc + sext(iv) * scale   (64-bit)
        if is_c(iv):
            t = signed(iv, iw) * scale
            t &= mask(64)
        else:
            t = z3.SignExt(64 - iw, iv) if iw < 64 else iv
            if scale != 1:
                t = t * z3.BitVecVal(scale, 64)
        return self.binop("add", acc, t, 64)

    def binop(self, op, a, b, w):
        if is_c(a) and is_c(b):
            m = mask(w)
            if op == "add":
                return (a + b) & m
            if op == "sub":
                return (a - b) & m
            if op == "mul":
                return (a * b) & m
            if op == "and":
                return a & b
            if op == "or":
                return a | b
            if op == "xor":
                return a ^ b
            if op == "shl":
                return (a << b) & m if b < w else 0
            if op == "lshr":
                return a >> b if b < w else 0
            if op == "ashr":
                return (signed(a, w) >> min(b, w - 1)) & m
            if op == "udiv":
                return a // b
            if op == "urem":
                return a % b
            if op == "sdiv":
                sa, sb = signed(a, w), signed(b, w)
                q = abs(sa) // abs(sb)
                if (sa < 0) != (sb < 0):
                    q = -q
                return q & m
            if op == "srem":
                sa, sb = signed(a, w), signed(b, w)
                q = abs(sa) // abs(sb)
                if (sa < 0) != (sb < 0):
                    q = -q
                return (sa - q * sb) & m
            raise HarnessError("binop " + op)
        # cheap identities keep terms small
        if is_c(b):
            if b == 0 and op in ("add", "sub", "or", "xor", "shl", "lshr", "ashr"):
                return a
            if op == "and" and b == mask(w):
                return a
            if op in ("and", "mul") and b == 0:
                return 0
        if is_c(a):
            if a == 0 and op in ("add", "or", "xor"):
                return b
            if a == 0 and op in ("and", "mul", "shl", "lshr", "ashr"):
                return 0
        za, zb = to_z3(a, w), to_z3(b, w)
        if op == "add":
            r = za + zb
        elif op == "sub":
            r = za - zb
        elif op == "mul":
            r = za * zb
        elif op == "and":
            r = za & zb
        elif op == "or":
            r = za | zb
        elif op == "xor":
            r = za ^ zb
        elif op == "shl":
            r = za << zb
        elif op == "lshr":
            r = z3.LShR(za, zb)
        elif op == "ashr":
            r = za >> zb
        elif op == "udiv":
            r = z3.UDiv(za, zb)
        elif op == "urem":
            r = z3.URem(za, zb)
        elif op == "sdiv":
            r = za / zb
        elif op == "srem":
            r = z3.SRem(za, zb)
        else:
            raise HarnessError("binop " + op)
        return simp(r)

    def icmp(self, pred, a, b, w):
        if is_c(a) and is_c(b):
            sa, sb = signed(a, w), signed(b, w)
            r = {"eq": a == b, "ne": a != b, "ugt": a > b, "uge": a >= b, "ult": a < b, "ule": a <= b,
                 "sgt": sa > sb, "sge": sa >= sb, "slt": sa < sb, "sle": sa <= sb}[pred]
            return int(r)
        za, zb = to_z3(a, w), to_z3(b, w)
        c = {"eq": lambda: za == zb, "ne": lambda: za != zb, "ugt": lambda: z3.UGT(za, zb),
             "uge": lambda: z3.UGE(za, zb), "ult": lambda: z3.ULT(za, zb), "ule": lambda: z3.ULE(za, zb),
             "sgt": lambda: za > zb, "sge": lambda: za >= zb, "slt": lambda: za < zb,
             "sle": lambda: za <= zb}[pred]()
        return simp(z3.If(c, z3.BitVecVal(1, 1), z3.BitVecVal(0, 1)))

    # ------------------------------------------------------------ running --
    def call(self, st, fname, args, dest=None):
        """push a frame for a defined function (args: list of values)"""
        fn = self.m.functions.get(fname)
        if fn is None:
            raise HarnessError("function %s not found in IR" % fname)
        fn.parse()
        if len(args) != len(fn.params):
            raise HarnessError("arity mismatch calling %s: %d vs %d" % (fname, len(args), len(fn.params)))
        fr = Frame(fn, dest)
        for (pn, pty), a in zip(fn.params, args):
            fr.regs[pn] = a
        st.frames.append(fr)
        self.functions_entered.add(fname)

    def explore(self, st):
        """run st to completion over all feasible paths; returns list of final states"""
        finals = []
        work = [st]
        while work:
            s = work.pop()
            if self.stats["paths"] >= self.max_paths:
                self.bound_hit = True
                break
            try:
                forks = self.run_path(s)
            except NeedConcrete as nc:
                forks = self.concretize(s, nc)
            except PathEnd as e:
                s.status = e.status
                s.info = e.info
                forks = None
            if forks:
                work.extend(forks)
                self.stats["forks"] += len(forks) - 1
            else:
                self.stats["paths"] += 1
                self.stats["steps"] += s.steps
                finals.append(s)
        return finals

    def concretize(self, st, nc, limit=12):
        """fork st on the feasible values of nc.term (re-executing the instruction that needed it)"""
        vals = []
        excl = []
        while True:
            r = self.check(*st.pc, *excl)
            if r == "unknown":
                self.bound_hit = True
                break
            if r == "unsat":
                break
            v = self.model().eval(nc.term, model_completion=True).as_long()
            vals.append(v)
            excl.append(nc.term != z3.BitVecVal(v, nc.term.size()))
            if len(vals) > limit:
                self.bound_hit = True      # more values than the bound: explored ones stand, verdict inconclusive
                break
        fr = st.frames[-1]
        fr.ip -= 1
        st.steps -= 1
        out = []
        for v in vals:
            s2 = st.fork()
            s2.pc.append(nc.term == z3.BitVecVal(v, nc.term.size()))
            s2.concrete[nc.term.get_id()] = (nc.term, v)
            out.append(s2)
        if not out:
            st.status = "infeasible"
            return None
        return out

    def branch(self, st, cond_bv):
        """cond_bv: i1 value. returns list of (state, taken_bool)"""
        c = simp(cond_bv)
        if is_c(c):
            return [(st, bool(c))]
        ct = c == z3.BitVecVal(1, 1)
        ct = z3.simplify(ct)
        out = []
        rt = self.check(*st.pc, ct)
        rf = self.check(*st.pc, z3.Not(ct))
        if rt == "unknown" or rf == "unknown":
            self.bound_hit = True
        feas_t, feas_f = rt != "unsat", rf != "unsat"
        if feas_t and feas_f:
            s2 = st.fork()
            st.pc.append(ct)
            s2.pc.append(z3.Not(ct))
            return [(st, True), (s2, False)]
        if feas_t:
            return [(st, True)]
        if feas_f:
            return [(st, False)]
        raise PathEnd("infeasible")

    def run_path(self, st):
        """execute until the path ends (returns None) or forks (returns list of states)"""
        while True:
            if not st.frames:
                st.status = "returned" if st.status == "running" else st.status
                return None
            fr = st.frames[-1]
            blk = fr.fn.block(fr.label)
            if fr.ip >= len(blk):
                raise HarnessError("fell off block %s in %s" % (fr.label, fr.fn.name))
            ins = blk[fr.ip]
            st.steps += 1
            if st.steps > self.max_steps:
                self.bound_hit = True
                raise PathEnd("bound")
            op = ins.op
            if op == "phi":
                # evaluate all phis of the block simultaneously
                vals = []
                j = fr.ip
                while j < len(blk) and blk[j].op == "phi":
                    p = blk[j]
                    for v, lab in p.extra:
                        if lab == fr.prev:
                            vals.append((p.dest, self.val(st, fr, v)))
                            break
                    else:
                        raise HarnessError("phi without incoming for %s" % fr.prev)
                    j += 1
                for d, v in vals:
                    fr.regs[d] = v
                fr.ip = j
                continue
            fr.ip += 1
            if op in ("add", "sub", "mul", "and", "or", "xor"):
                w = ins.ty.a
                fr.regs[ins.dest] = self.binop(op, self.val(st, fr, ins.args[0]), self.val(st, fr, ins.args[1]), w)
            elif op in ("shl", "lshr", "ashr"):
                w = ins.ty.a
                a, b = self.val(st, fr, ins.args[0]), self.val(st, fr, ins.args[1])
                if is_c(b):
                    if b >= w:
                        self.violate(st, "shift-ub", "%s i%d" % (op, w), "shift amount %d >= width %d" % (b, w))
                        st.tainted = True
                        b = b & (w - 1) if w in (32, 64) else b & 31
                else:
                    over = z3.UGE(b, z3.BitVecVal(w, w))
                    if self.check(*st.pc, over) != "unsat":
                        self.violate(st, "shift-ub", "%s i%d" % (op, w), "shift amount can be >= width %d" % w, over)
                        st.tainted = True
                        b = b & z3.BitVecVal((w - 1) if w in (32, 64) else 31, w)
                fr.regs[ins.dest] = self.binop(op, a, b, w)
            elif op in ("udiv", "sdiv", "urem", "srem"):
                w = ins.ty.a
                a, b = self.val(st, fr, ins.args[0]), self.val(st, fr, ins.args[1])
                if is_c(b):
                    if b == 0:
                        self.violate(st, "div0", "%s i%d" % (op, w), "division by zero")
                        raise PathEnd("div0")
                else:
                    z = b == z3.BitVecVal(0, w)
                    if self.check(*st.pc, z) != "unsat":
                        self.violate(st, "div0", "%s i%d" % (op, w), "divisor can be zero", z)
                        st.pc.append(z3.Not(z))
                fr.regs[ins.dest] = self.binop(op, a, b, w)
            elif op == "icmp":
                w = self.width(ins.ty)
                fr.regs[ins.dest] = self.icmp(ins.extra, self.val(st, fr, ins.args[0]),
                                              self.val(st, fr, ins.args[1]), w)
            elif op in ("zext", "sext", "trunc"):
                a = self.val(st, fr, ins.args[0])
                sw, dw = self.width(ins.args[0].ty), self.width(ins.ty)
                if is_c(a):
                    if op == "zext":
                        r = a
                    elif op == "sext":
                        r = signed(a, sw) & mask(dw)
                    else:
                        r = a & mask(dw)
                else:
                    if op == "zext":
                        r = z3.ZeroExt(dw - sw, a)
                    elif op == "sext":
                        r = z3.SignExt(dw - sw, a)
                    else:
                        r = z3.Extract(dw - 1, 0, a)
                    r = simp(r)
                fr.regs[ins.dest] = r
            elif op in ("bitcast", "ptrtoint", "inttoptr"):
                a = self.val(st, fr, ins.args[0])
                sw, dw = self.width(ins.args[0].ty), self.width(ins.ty)
                if sw != dw:
                    if is_c(a):
                        a &= mask(dw)
                    else:
                        a = simp(z3.Extract(dw - 1, 0, a) if dw < sw else z3.ZeroExt(dw - sw, a))
                fr.regs[ins.dest] = a
            elif op == "gep":
                base = self.val(st, fr, ins.args[0])
                fr.regs[ins.dest] = self.gep(st, fr, ins.ty, base, ins.args[1:])
            elif op == "load":
                n = self.m.size_align(ins.ty)[0]
                v = self.load(st, self.val(st, fr, ins.args[0]), n, "load %r" % (ins.ty,))
                w = self.width(ins.ty)
                if w < n * 8:
                    v = v & mask(w) if is_c(v) else simp(z3.Extract(w - 1, 0, v))
                fr.regs[ins.dest] = v
            elif op == "store":
                n = self.m.size_align(ins.ty)[0]
                v = self.val(st, fr, ins.args[0])
                w = self.width(ins.ty)
                if w < n * 8 and not is_c(v):
                    v = z3.ZeroExt(n * 8 - w, v)
                self.store(st, self.val(st, fr, ins.args[1]), n, v, "store %r" % (ins.ty,))
            elif op == "br":
                fr.prev, fr.label, fr.ip = fr.label, ins.extra[0], 0
            elif op == "condbr":
                c = self.val(st, fr, ins.args[0])
                outs = self.branch(st, c)
                for s2, taken in outs:
                    f2 = s2.frames[-1]
                    f2.prev, f2.label, f2.ip = f2.label, ins.extra[0 if taken else 1], 0
                if len(outs) > 1:
                    return [s for s, _ in reversed(outs)]
            elif op == "switch":
                v = simp(self.val(st, fr, ins.args[0]))
                default, cases = ins.extra
                w = self.width(ins.ty)
                if is_c(v):
                    tgt = default
                    for cv, lab in cases:
                        if (cv & mask(w)) == v:
                            tgt = lab
                            break
                    fr.prev, fr.label, fr.ip = fr.label, tgt, 0
                else:
                    outs = []
                    rest = []
                    for cv, lab in cases:
                        c = v == z3.BitVecVal(cv, w)
                        if self.check(*st.pc, c) != "unsat":
                            s2 = st.fork()
                            s2.pc.append(c)
                            f2 = s2.frames[-1]
                            f2.prev, f2.label, f2.ip = f2.label, lab, 0
                            outs.append(s2)
                        rest.append(z3.Not(c))
                    if self.check(*st.pc, *rest) != "unsat":
                        st.pc.extend(rest)
                        fr.prev, fr.label, fr.ip = fr.label, default, 0
                        outs.append(st)
                    if not outs:
                        raise PathEnd("infeasible")
                    return outs
            elif op == "select":
                c = simp(self.val(st, fr, ins.args[0]))
                a, b = self.val(st, fr, ins.args[1]), self.val(st, fr, ins.args[2])
                if is_c(c):
                    fr.regs[ins.dest] = a if c else b
                else:
                    w = self.width(ins.ty)
                    fr.regs[ins.dest] = simp(z3.If(c == z3.BitVecVal(1, 1), to_z3(a, w), to_z3(b, w)))
            elif op == "ret":
                rv = self.val(st, fr, ins.args[0]) if ins.args else None
                for base in fr.allocas:
                    st.regions[base // REGION_GAP - 1].freed = True
                st.frames.pop()
                if st.frames:
                    if fr.dest is not None:
                        st.frames[-1].regs[fr.dest] = rv
                else:
                    st.retval = rv
                    st.status = "returned"
                    return None
            elif op == "alloca":
                size = self.m.size_align(ins.ty)[0]
                base = self.alloc(st, "alloca:%s:%s" % (fr.fn.name[-24:], ins.dest), size)
                fr.allocas.append(base)
                fr.regs[ins.dest] = base
            elif op == "call":
                callee = ins.extra
                if not isinstance(callee, str):
                    raise HarnessError("indirect call in %s: %s" % (fr.fn.name, ins.text.strip()[:120]))
                if callee.startswith("llvm.dbg.") or callee.startswith("llvm.lifetime"):
                    continue
                args = [self.val(st, fr, a) if a is not None else None for a in ins.args]
                stub = self.stubs.get(callee)
                if stub is not None:
                    r = stub(self, st, args, ins)
                    if ins.dest is not None:
                        fr.regs[ins.dest] = r
                elif callee in self.m.functions:
                    self.call(st, callee, args, ins.dest)
                else:
                    raise HarnessError("no stub for external function %s (called from %s)" % (callee, fr.fn.name))
            elif op == "unreachable":
                raise PathEnd("unreachable")
            else:
                raise HarnessError("unsupported instruction in %s: %s" % (fr.fn.name, ins.text.strip()[:160]))


# ------------------------------------------------------------------ stubs ---
def _stub_null(e, st, args, ins):
    return 0


def _stub_void(e, st, args, ins):
    return None


def _stub_raise(e, st, args, ins):
    raise PathEnd("raised", ins.extra)


def _stub_memcpy(e, st, args, ins):
    dst, src, n = args[0], args[1], simp(args[2])
    if not is_c(n):
        n = e.concrete_addr(st, n, "memcpy length")
    if n == 0:
        return None
    dst = e.concrete_addr(st, dst, "memcpy dst")
    src = e.concrete_addr(st, src, "memcpy src")
    rs, so = e.region_of(st, src, n)
    if rs is None:
        e.violate(st, "oob-read", "memcpy", "memcpy source %d bytes at %s" % (n, e.describe_addr(st, src)))
        raise PathEnd("oob")
    rd, do = e.region_of(st, dst, n)
    if rd is None or not rd.writable:
        e.violate(st, "oob-write", "memcpy", "memcpy destination %d bytes at %s" % (n, e.describe_addr(st, dst)))
        raise PathEnd("oob")
    data = []
    for i in range(n):
        b = rs.bytes[so + i]
        if b is None:
            b = e.fresh("uninit_%s_%d" % (rs.name, so + i), 8)
            rs.bytes[so + i] = b
        data.append(b)
    for (o, k) in list(rd.typed):
        if o < do + n and do < o + k:
            del rd.typed[(o, k)]
    rd.bytes[do:do + n] = data
    return None


def _stub_memset(e, st, args, ins):
    dst, val, n = args[0], args[1], simp(args[2])
    if not is_c(n):
        n = e.concrete_addr(st, n, "memset length")
    if n == 0:
        return None
    dst = e.concrete_addr(st, dst, "memset dst")
    rd, do = e.region_of(st, dst, n)
    if rd is None or not rd.writable:
        e.violate(st, "oob-write", "memset", "memset %d bytes at %s" % (n, e.describe_addr(st, dst)))
        raise PathEnd("oob")
    for (o, k) in list(rd.typed):
        if o < do + n and do < o + k:
            del rd.typed[(o, k)]
    for i in range(n):
        rd.bytes[do + i] = val
    return None


def _new_pyint(e, st, value):
    """boxed Python int: {refcnt=1, type=opaque, value (64-bit two's complement; enough for shift counts/masks)}"""
    base = e.alloc(st, "pyint", 24)
    st.regions[-1].bytes = [0] * 24
    e.store(st, base, 8, 1, "init")
    e.store(st, base + 16, 8, value, "init")
    return base


def _stub_pylong_from_long(e, st, args, ins):
    return _new_pyint(e, st, args[0])


def _stub_pylong_as_u64(e, st, args, ins):
    return e.load(st, args[0] + 16, 8, "PyLong value")


def _stub_rshift_allones(e, st, args, ins):
    """PyNumber_Rshift(<interned 0xffffffffffffffff>, n): mathematical shift of the 64-bit all-ones constant.
    The caller (kern.Kit) has checked in the C text that this is the only PyNumber_Rshift the kernels reach."""
    n = simp(e.load(st, args[1] + 16, 8, "PyLong value"))
    if not is_c(n):
        raise HarnessError("symbolic shift count in PyNumber_Rshift stub")
    n = signed(n, 64)
    if n < 0:
        raise PathEnd("raised", "negative shift count")
    return _new_pyint(e, st, (mask(64) >> n) if n < 64 else 0)


DEFAULT_STUBS = {
    "__Pyx_PyLong_From_long": _stub_pylong_from_long,
    "__Pyx_PyLong_As_uint64_t": _stub_pylong_as_u64,
    "PyNumber_Rshift": _stub_rshift_allones,
    "_Py_Dealloc": _stub_void,
    "PyErr_Occurred": _stub_null,            # no exception pending on entry / after cdef calls
    "__Pyx_AddTraceback": _stub_raise,       # path ends: the function raised
    "__Pyx_WriteUnraisable": _stub_raise,
    "__Pyx_INC_MEMVIEW": _stub_void,         # memoryview acquisition counts: not modelled
    "__Pyx_XCLEAR_MEMVIEW": _stub_void,
    "llvm.memcpy.p0i8.p0i8.i64": _stub_memcpy,
    "llvm.memmove.p0i8.p0i8.i64": _stub_memcpy,
    "llvm.memset.p0i8.i64": _stub_memset,
}
