"""Translator validation (not the deciding step): the IR interpreter run on fully
concrete inputs must agree byte for byte with the freshly compiled extension
module.  Vectors: the literal vectors of the repo's own tests plus seeded random
ones per kernel.  A disagreement is a harness error, never a verdict."""
import os
import random
import sys


def _kit(mod):
    from .kern import Kit
    return Kit(mod, max_steps=2000000)


def _run_ir(mod, kernel, inp, cap, args, itemsize=1, in_loc=0):
    from .kernels import PFX
    k = _kit(mod)
    ib = k.buffer("in", list(inp) if inp else [], writable=False)
    ob = k.buffer("out", [0] * cap)
    f = k.numpyio("f", ib, len(inp), in_loc)
    o = k.numpyio("o", ob, cap)
    if kernel == "read_bitpacked":
        a = [f, args["header"], args["width"], o, 0, k.optargs("read_bitpacked", [itemsize])]
    elif kernel == "read_rle":
        a = [f, args["header"], args["width"], o, 0, k.optargs("read_rle", [itemsize])]
    elif kernel == "read_bitpacked1":
        a = [f, args["count"], o, 0]
    elif kernel == "read_rle_bit_packed_hybrid":
        a = [f, args["width"], args["length"], o, 0, k.optargs("read_rle_bit_packed_hybrid", [itemsize])]
    elif kernel == "delta_binary_unpack":
        a = [f, o, 0, k.optargs("delta_binary_unpack", [args["longval"]])]
    elif kernel == "read_unsigned_var_int":
        a = [f, 0]
    else:
        raise ValueError(kernel)
    finals = k.run(kernel, a)
    if len(finals) != 1 or finals[0].status != "returned" or k.e.violations:
        return None
    st = finals[0]
    return dict(out=bytes(k.out_bytes(st, ob, cap)), f_loc=k.field(st, f, "loc"), o_loc=k.field(st, o, "loc"),
                ret=st.retval)


def _run_so(c, np, kernel, inp, cap, args, itemsize=1, in_loc=0):
    arr = np.array(list(inp) + [0], dtype="uint8")[:len(inp)] if len(inp) else np.zeros(1, dtype="uint8")[:0]
    if len(inp) == 0:
        return None
    f = c.NumpyIO(arr)
    f.seek(in_loc)
    oarr = np.zeros(max(cap, 1), dtype="uint8")
    o = c.NumpyIO(oarr[:cap] if cap else oarr[:1])
    ret = None
    if kernel in ("read_bitpacked", "read_rle"):
        getattr(c, kernel)(f, args["header"], args["width"], o, itemsize)
    elif kernel == "read_bitpacked1":
        c.read_bitpacked1(f, args["count"], o)
    elif kernel == "read_rle_bit_packed_hybrid":
        c.read_rle_bit_packed_hybrid(f, args["width"], args["length"], o, itemsize)
    elif kernel == "delta_binary_unpack":
        c.delta_binary_unpack(f, o, args["longval"])
    elif kernel == "read_unsigned_var_int":
        ret = c.read_unsigned_var_int(f)
    return dict(out=bytes(oarr[:cap]), f_loc=f.tell(), o_loc=o.tell(), ret=ret)


def uleb(n):
    out = []
    while n > 127:
        out.append((n & 0x7f) | 0x80)
        n >>= 7
    out.append(n)
    return out


def vectors(rng, n):
    vs = []
    for _ in range(n):
        w = rng.randint(1, 24)
        g = rng.randint(1, 3)
        s = 1 if rng.random() < 0.5 else 4
        cap = rng.randint(1, 8 * g + 2) * s
        vs.append(("read_bitpacked", [rng.randrange(256) for _ in range(g * w)], cap,
                   dict(header=(g << 1) | 1, width=w), s))
    for _ in range(n):
        w = rng.randint(1, 32)
        cnt = rng.randint(0, 12)
        s = 1 if rng.random() < 0.5 else 4
        vs.append(("read_rle", [rng.randrange(256) for _ in range((w + 7) // 8)], rng.randint(1, 14) * s,
                   dict(header=cnt << 1, width=w), s))
    for _ in range(n):
        cnt = rng.randint(1, 30)
        vs.append(("read_bitpacked1", [rng.randrange(256) for _ in range((cnt + 7) // 8)], rng.randint(1, 34),
                   dict(count=cnt), 1))
    for _ in range(n):
        w = rng.randint(1, 24)
        s = 1 if w <= 8 else 4
        body = []
        total = 0
        for _r in range(rng.randint(1, 3)):
            if rng.random() < 0.5:
                cnt = rng.randint(0, 10)
                body += uleb(cnt << 1) + [rng.randrange(256) for _ in range((w + 7) // 8)]
                total += cnt
            else:
                g = rng.randint(1, 2)
                body += uleb((g << 1) | 1) + [rng.randrange(256) for _ in range(g * w)]
                total += 8 * g
        vs.append(("read_rle_bit_packed_hybrid", body, max(1, total + rng.randint(-2, 2)) * s,
                   dict(width=w, length=len(body)), s))
    for _ in range(n // 2):
        lv = rng.random() < 0.5
        block, minis = rng.choice([(8, 1), (16, 2), (128, 4)])
        vpm = block // minis
        cnt = rng.randint(2, block)
        if (cnt - 1) % block == 0:
            cnt += 1
        stream = uleb(block) + uleb(minis) + uleb(cnt) + uleb(rng.randrange(1 << 20))
        stream += uleb(rng.randrange(1 << 10))
        ws = [rng.randint(0, 28) for _ in range(minis)]
        stream += ws
        rem = cnt - 1
        for w in ws:
            if rem <= 0:
                break
            stream += [rng.randrange(256) for _ in range(vpm * w // 8)]
            rem -= vpm
        vs.append(("delta_binary_unpack", stream, cnt * (8 if lv else 4), dict(longval=int(lv)), 1))
    for _ in range(n // 2):
        k = rng.randint(1, 9)
        bs = [rng.randrange(128) | 0x80 for _ in range(k - 1)] + [rng.randrange(128)]
        vs.append(("read_unsigned_var_int", bs, 0, {}, 1))
    return vs


def repo_test_vectors():
    """literal vectors from fastparquet/test/test_encoding.py / test_with_n.py (same data the suite uses)"""
    import io
    import struct
    vs = []
    # testFourByteValue / testSingleByte / testFourByte: varints
    for data in (b"\x7f", b"\xff\xff\xff\xff\x0f", b"\xff\xff\xff\x7f"):
        vs.append(("read_unsigned_var_int", list(data), 0, {}, 1))
    # testFromExample: bit width 3, header 3 (1 group), the spec's 0..7 example
    vs.append(("read_bitpacked", [0b10001000, 0b11000110, 0b11111010], 8, dict(header=3, width=3), 1))
    vs.append(("read_bitpacked", [0b10001000, 0b11000110, 0b11111010], 32, dict(header=3, width=3), 4))
    # test_rle (test_with_n): header 3<<1? uses read_rle(fo, o=..) with width 8/16/32 value 4
    for w in (8, 16, 24, 32):
        vs.append(("read_rle", list(struct.pack("<i", 4))[: (w + 7) // 8], 40, dict(header=10 << 1, width=w), 4))
    # test-data/hybrid style: rle run then bit-packed run
    vs.append(("read_rle_bit_packed_hybrid", [0x08, 0x05, 0x03, 0b10001000, 0b11000110, 0b11111010], 12,
               dict(width=3, length=6), 1))
    # delta example from the format document (block 128/4 would be long; use the unit-test shape 8/1)
    return vs


def run(seed=0, n=40):
    from vf import env
    from . import kern
    stage = os.environ.get("VERIF_STAGE") or env.stage_dir()
    if stage not in sys.path:
        sys.path.insert(0, stage)
    import numpy as np
    from fastparquet import cencoding as c
    mod = kern.module(env.ir_path("cencoding"), env.c_path("cencoding"))
    rng = random.Random(seed)
    vs = repo_test_vectors() + vectors(rng, n)
    bad = []
    agree = 0
    skipped = 0
    for v in vs:
        kernel, inp, cap, args, isz = v
        a = _run_ir(mod, kernel, inp, cap, args, isz)
        if a is None:
            skipped += 1
            continue
        b = _run_so(c, np, kernel, inp, cap, args, isz)
        if b is None:
            skipped += 1
            continue
        if a["ret"] is not None and not isinstance(a["ret"], int):
            bad.append((kernel, "symbolic return on concrete input"))
            continue
        same = (a["out"] == b["out"] and a["f_loc"] == b["f_loc"] and a["o_loc"] == b["o_loc"] and
                (kernel != "read_unsigned_var_int" or a["ret"] == b["ret"]))
        if same:
            agree += 1
        else:
            bad.append((kernel, inp, cap, args, isz, a, b))
    status = "holds" if not bad and agree > 0 else "error"
    r = dict(harness="translator-validation[llsym vs compiled .so]", engine="E1-validation", status=status,
             findings=[], stats={}, validated_vectors=agree, skipped=skipped,
             shape=dict(vectors=len(vs), agree=agree, skipped=skipped))
    if bad:
        r["error"] = "IR interpreter disagrees with the compiled module on %d vectors, e.g. %r" % (len(bad),
                                                                                                    bad[0])
    return r
