"""Minimal parser for the textual LLVM-14 IR (typed pointers) that clang emits
for the Cython-generated C of fastparquet.  Only what the interpreter needs:
named struct layouts, globals with integer initialisers, function bodies split
into basic blocks, instructions parsed lazily per function.

Anything that is not understood raises IRError -> the harness exits with the
reserved harness-error code; it never turns into a verdict.
"""
import re


class IRError(Exception):
    pass


# ---------------------------------------------------------------- types ----
class Ty:
    __slots__ = ("k", "a", "b")

    def __init__(self, k, a=None, b=None):
        self.k, self.a, self.b = k, a, b

    def __repr__(self):
        if self.k == "int":
            return "i%d" % self.a
        if self.k == "ptr":
            return "%r*" % (self.a,)
        if self.k == "named":
            return "%" + self.a
        if self.k == "array":
            return "[%d x %r]" % (self.a, self.b)
        if self.k == "struct":
            return "{%s}" % ", ".join(map(repr, self.a))
        return self.k


VOID = Ty("void")
_ws = re.compile(r"\s*")
_ident = re.compile(r'[%@](?:"[^"]*"|[-a-zA-Z$._0-9]+)')
_int = re.compile(r"-?\d+")


def skip(s, i):
    return _ws.match(s, i).end()


def parse_type(s, i):
    """returns (Ty, newpos)"""
    i = skip(s, i)
    c = s[i]
    if s.startswith("void", i):
        t, i = VOID, i + 4
    elif c == "i" and s[i + 1].isdigit():
        m = _int.match(s, i + 1)
        t, i = Ty("int", int(m.group())), m.end()
    elif s.startswith("double", i):
        t, i = Ty("double"), i + 6
    elif s.startswith("float", i):
        t, i = Ty("float"), i + 5
    elif s.startswith("x86_fp80", i):
        t, i = Ty("fp80"), i + 8
    elif s.startswith("metadata", i):
        t, i = Ty("metadata"), i + 8
    elif s.startswith("label", i):
        t, i = Ty("label"), i + 5
    elif s.startswith("opaque", i):
        t, i = Ty("opaque"), i + 6
    elif c == "%":
        m = _ident.match(s, i)
        t, i = Ty("named", m.group()[1:].strip('"')), m.end()
    elif c == "[":
        m = _int.match(s, skip(s, i + 1))
        n = int(m.group())
        j = skip(s, m.end())
        assert s[j] == "x", s[i:i + 40]
        et, j = parse_type(s, j + 1)
        j = skip(s, j)
        assert s[j] == "]", s[i:i + 60]
        t, i = Ty("array", n, et), j + 1
    elif c == "{" or s.startswith("<{", i):
        packed = c == "<"
        j = i + (2 if packed else 1)
        elems = []
        j = skip(s, j)
        if s[j] != "}":
            while True:
                et, j = parse_type(s, j)
                elems.append(et)
                j = skip(s, j)
                if s[j] == ",":
                    j += 1
                    continue
                break
        assert s[j] == "}", s[i:i + 80]
        j += 1
        if packed:
            assert s[j] == ">"
            j += 1
        t, i = Ty("struct", elems, packed), j
    elif c == "<":
        m = _int.match(s, skip(s, i + 1))
        n = int(m.group())
        j = skip(s, m.end())
        assert s[j] == "x"
        et, j = parse_type(s, j + 1)
        j = skip(s, j)
        assert s[j] == ">"
        t, i = Ty("vector", n, et), j + 1
    else:
        raise IRError("cannot parse type at: %r" % s[i:i + 60])
    # suffixes: pointers and function types
    while True:
        j = skip(s, i)
        if j < len(s) and s[j] == "*":
            t, i = Ty("ptr", t), j + 1
        elif j < len(s) and s[j] == "(":
            # function type: ret (args...)
            depth, k = 0, j
            while True:
                if s[k] == "(":
                    depth += 1
                elif s[k] == ")":
                    depth -= 1
                    if depth == 0:
                        break
                k += 1
            t, i = Ty("func", t), k + 1
        elif s.startswith("addrspace(", j):
            k = s.index(")", j)
            i = k + 1
        else:
            break
    return t, i


# ------------------------------------------------------------- operands ----
class Const:
    """an integer / null / undef constant of a given type"""
    __slots__ = ("ty", "v")

    def __init__(self, ty, v):
        self.ty, self.v = ty, v

    def __repr__(self):
        return "Const(%r,%r)" % (self.ty, self.v)


class Reg:
    __slots__ = ("ty", "name")

    def __init__(self, ty, name):
        self.ty, self.name = ty, name

    def __repr__(self):
        return "%" + self.name


class Glob:
    __slots__ = ("ty", "name")

    def __init__(self, ty, name):
        self.ty, self.name = ty, name

    def __repr__(self):
        return "@" + self.name


class CExpr:
    """constant expression: op in {getelementptr, bitcast, ptrtoint, inttoptr, ...}"""
    __slots__ = ("ty", "op", "args", "srcty")

    def __init__(self, ty, op, args, srcty=None):
        self.ty, self.op, self.args, self.srcty = ty, op, args, srcty


_float = re.compile(r"-?(0x[0-9A-Fa-f]+|\d+\.\d*(e[+-]?\d+)?)")


def parse_value(s, i, ty):
    """parse an operand value (no type prefix) of type ty; returns (operand, newpos)"""
    i = skip(s, i)
    c = s[i]
    if c == "%":
        m = _ident.match(s, i)
        return Reg(ty, m.group()[1:].strip('"')), m.end()
    if c == "@":
        m = _ident.match(s, i)
        return Glob(ty, m.group()[1:].strip('"')), m.end()
    for kw, v in (("true", 1), ("false", 0), ("null", 0), ("undef", "undef"), ("poison", "undef"),
                  ("zeroinitializer", 0)):
        if s.startswith(kw, i) and not (s[i + len(kw):i + len(kw) + 1].isalnum()):
            return Const(ty, v), i + len(kw)
    if ty.k in ("double", "float", "fp80"):
        m = _float.match(s, i)
        if m:
            return Const(ty, ("float", m.group())), m.end()
    m = _int.match(s, i)
    if m and ty.k in ("int",):
        return Const(ty, int(m.group())), m.end()
    # constant expression
    m = re.compile(r"(getelementptr|bitcast|ptrtoint|inttoptr|trunc|zext|sext|add|sub|icmp)\b").match(s, i)
    if m:
        op = m.group(1)
        j = skip(s, m.end())
        if op == "getelementptr":
            if s.startswith("inbounds", j):
                j = skip(s, j + 8)
            assert s[j] == "("
            srcty, j = parse_type(s, j + 1)
            j = skip(s, j)
            assert s[j] == ","
            args = []
            j += 1
            while True:
                a, j = parse_typed(s, j)
                args.append(a)
                j = skip(s, j)
                if s[j] == ",":
                    j += 1
                    continue
                break
            assert s[j] == ")"
            return CExpr(ty, op, args, srcty), j + 1
        if op in ("bitcast", "ptrtoint", "inttoptr", "trunc", "zext", "sext"):
            assert s[j] == "("
            a, j = parse_typed(s, j + 1)
            j = skip(s, j)
            assert s.startswith("to", j)
            dty, j = parse_type(s, j + 2)
            j = skip(s, j)
            assert s[j] == ")"
            return CExpr(dty, op, [a]), j + 1
    if c in "[{<c":
        # aggregate constant: not needed by the interpreter
        return Const(ty, "aggregate"), len(s)
    raise IRError("cannot parse value at %r" % s[i:i + 80])


_attrs = re.compile(r"\s*(noundef|nonnull|signext|zeroext|noalias|nocapture|readonly|readnone|writeonly|"
                    r"returned|inreg|immarg|nofree|align \d+|dereferenceable\(\d+\)|"
                    r"dereferenceable_or_null\(\d+\)|byval\([^)]*\)|sret\([^)]*\)|"
                    r"(?:byval|sret)\((?:[^()]|\([^()]*\))*\))")


def skip_attrs(s, i):
    while True:
        m = _attrs.match(s, i)
        if not m or m.end() == i:
            return i
        i = m.end()


def parse_typed(s, i):
    ty, i = parse_type(s, i)
    i = skip_attrs(s, i)
    return parse_value(s, i, ty)


# --------------------------------------------------------- instructions ----
class Instr:
    __slots__ = ("op", "dest", "ty", "args", "extra", "text")

    def __init__(self, op, dest, ty, args, extra, text):
        self.op, self.dest, self.ty, self.args, self.extra, self.text = op, dest, ty, args, extra, text

    def __repr__(self):
        return self.text.strip()


BINOPS = {"add", "sub", "mul", "udiv", "sdiv", "urem", "srem", "shl", "lshr", "ashr", "and", "or", "xor"}
CASTS = {"zext", "sext", "trunc", "bitcast", "ptrtoint", "inttoptr", "sitofp", "uitofp", "fptosi", "fptoui",
         "fpext", "fptrunc"}
_flags = re.compile(r"\s*(nuw|nsw|exact|inbounds|volatile|fast|nnan|ninf|nsz|arcp|contract|afn|reassoc)\b")


def _skip_flags(s, i):
    while True:
        m = _flags.match(s, i)
        if not m:
            return skip(s, i)
        i = m.end()


def parse_instr(line):
    s = line.split(" !dbg")[0].rstrip()
    # strip trailing metadata like ", !prof !1" / ", align 4" handled per op
    i = skip(s, 0)
    dest = None
    m = re.compile(r'(%(?:"[^"]*"|[-a-zA-Z$._0-9]+))\s*=\s*').match(s, i)
    if m:
        dest = m.group(1)[1:].strip('"')
        i = m.end()
    m = re.compile(r"(tail |musttail |notail )?([a-z_]+)").match(s, i)
    op = m.group(2)
    i = m.end()
    if op in BINOPS:
        flags = s[i:]
        i = _skip_flags(s, i)
        ty, i = parse_type(s, i)
        a, i = parse_value(s, i, ty)
        i = skip(s, i)
        assert s[i] == ","
        b, i = parse_value(s, i + 1, ty)
        fl = set(re.findall(r"\b(nuw|nsw|exact)\b", flags.split("%")[0].split(" i")[0]))
        return Instr(op, dest, ty, [a, b], fl, line)
    if op in ("fadd", "fsub", "fmul", "fdiv", "frem"):
        i = _skip_flags(s, i)
        ty, i = parse_type(s, i)
        a, i = parse_value(s, i, ty)
        i = skip(s, i)
        b, i = parse_value(s, i + 1, ty)
        return Instr(op, dest, ty, [a, b], None, line)
    if op in ("icmp", "fcmp"):
        i = _skip_flags(s, i)
        m = re.compile(r"\s*([a-z]+)").match(s, i)
        pred = m.group(1)
        ty, i = parse_type(s, m.end())
        a, i = parse_value(s, i, ty)
        i = skip(s, i)
        assert s[i] == ","
        b, i = parse_value(s, i + 1, ty)
        return Instr(op, dest, ty, [a, b], pred, line)
    if op in CASTS:
        a, i = parse_typed(s, i)
        i = skip(s, i)
        assert s.startswith("to", i), s
        dty, i = parse_type(s, i + 2)
        return Instr(op, dest, dty, [a], None, line)
    if op == "br":
        i = skip(s, i)
        if s.startswith("label", i):
            m = _ident.match(s, skip(s, i + 5))
            return Instr("br", None, None, [], [m.group()[1:]], line)
        c, i = parse_typed(s, i)
        labs = re.findall(r"label %([-a-zA-Z$._0-9]+)", s[i:])
        return Instr("condbr", None, None, [c], labs, line)
    if op == "ret":
        i = skip(s, i)
        if s.startswith("void", i):
            return Instr("ret", None, VOID, [], None, line)
        a, i = parse_typed(s, i)
        return Instr("ret", None, a.ty, [a], None, line)
    if op == "phi":
        ty, i = parse_type(s, i)
        inc = []
        for m in re.finditer(r"\[\s*(.+?)\s*,\s*%([-a-zA-Z$._0-9]+)\s*\]", s[i:]):
            v, _ = parse_value(m.group(1), 0, ty)
            inc.append((v, m.group(2)))
        return Instr("phi", dest, ty, [], inc, line)
    if op == "select":
        c, i = parse_typed(s, i)
        i = skip(s, i)
        a, i = parse_typed(s, i + 1)
        i = skip(s, i)
        b, i = parse_typed(s, i + 1)
        return Instr("select", dest, a.ty, [c, a, b], None, line)
    if op == "load":
        i = _skip_flags(s, i)
        if s.startswith("atomic", i):
            i = _skip_flags(s, i + 6)
        ty, i = parse_type(s, i)
        i = skip(s, i)
        assert s[i] == ","
        p, i = parse_typed(s, i + 1)
        return Instr("load", dest, ty, [p], None, line)
    if op == "store":
        i = _skip_flags(s, i)
        if s.startswith("atomic", i):
            i = _skip_flags(s, i + 6)
        v, i = parse_typed(s, i)
        i = skip(s, i)
        assert s[i] == ","
        p, i = parse_typed(s, i + 1)
        return Instr("store", None, v.ty, [v, p], None, line)
    if op == "getelementptr":
        i = _skip_flags(s, i)
        srcty, i = parse_type(s, i)
        i = skip(s, i)
        assert s[i] == ","
        args = []
        i += 1
        while True:
            a, i = parse_typed(s, i)
            args.append(a)
            i = skip(s, i)
            if i < len(s) and s[i] == ",":
                i += 1
                continue
            break
        return Instr("gep", dest, srcty, args, None, line)
    if op == "alloca":
        ty, i = parse_type(s, i)
        return Instr("alloca", dest, ty, [], None, line)
    if op == "call":
        i = _skip_flags(s, i)
        # return attrs
        i = skip_attrs(s, i)
        rty, i = parse_type(s, i)
        if rty.k == "func":
            rty = rty.a
        i = skip(s, i)
        if s[i] == "@":
            m = _ident.match(s, i)
            callee = m.group()[1:].strip('"')
            i = m.end()
        elif s[i] == "%":
            m = _ident.match(s, i)
            callee = Reg(None, m.group()[1:])
            i = m.end()
        else:
            # e.g. bitcast (...) call target
            raise IRError("indirect/cast callee: " + s)
        i = skip(s, i)
        assert s[i] == "(", s
        i += 1
        args = []
        i = skip(s, i)
        if s[i] != ")":
            while True:
                j = skip(s, i)
                if s.startswith("metadata", j):
                    # debug intrinsics
                    depth = 0
                    k = j
                    while k < len(s) and not (s[k] in ",)" and depth == 0):
                        if s[k] == "(":
                            depth += 1
                        elif s[k] == ")":
                            depth -= 1
                        k += 1
                    args.append(None)
                    i = k
                else:
                    a, i = parse_typed(s, i)
                    args.append(a)
                i = skip(s, i)
                if s[i] == ",":
                    i += 1
                    continue
                break
        return Instr("call", dest, rty, args, callee, line)
    if op == "switch":
        v, i = parse_typed(s, i)
        m = re.compile(r"\s*,\s*label %([-a-zA-Z$._0-9]+)\s*\[").match(s, i)
        default = m.group(1)
        cases = []
        for cm in re.finditer(r"i\d+ (-?\d+), label %([-a-zA-Z$._0-9]+)", s[m.end():]):
            cases.append((int(cm.group(1)), cm.group(2)))
        return Instr("switch", None, v.ty, [v], (default, cases), line)
    if op == "unreachable":
        return Instr("unreachable", None, None, [], None, line)
    if op in ("atomicrmw", "fneg", "extractvalue", "insertvalue", "cmpxchg", "fence"):
        return Instr("unsupported", dest, None, [], op, line)
    raise IRError("unknown instruction: " + line)


# -------------------------------------------------------------- module -----
class Function:
    def __init__(self, name, header, lines):
        self.name, self.header, self.lines = name, header, lines
        self._blocks = None
        self.params = None
        self.ret = None

    def parse(self):
        if self._blocks is not None:
            return
        h = self.header
        m = re.search(r"@(\"[^\"]*\"|[-a-zA-Z$._0-9]+)\s*\(", h)
        pre = h[:m.start()]
        pre = re.sub(r"^define\s+((internal|dso_local|hidden|private|linkonce_odr|weak|available_externally|"
                     r"noundef|zeroext|signext|nonnull|noalias|align \d+|dereferenceable\(\d+\))\s+)*", "", pre)
        # what remains of pre is attributes + return type; take the last type
        pre = pre.strip()
        pre = re.sub(r"^((noundef|zeroext|signext|nonnull|noalias)\s+)*", "", pre)
        self.ret, _ = parse_type(pre, 0)
        i = m.end()
        params = []
        i = skip(h, i)
        if h[i] != ")":
            while True:
                if h.startswith("...", skip(h, i)):
                    i = skip(h, i) + 3
                else:
                    ty, i = parse_type(h, i)
                    i = skip_attrs(h, i)
                    i = skip(h, i)
                    mm = _ident.match(h, i)
                    params.append((mm.group()[1:], ty))
                    i = mm.end()
                i = skip(h, i)
                if h[i] == ",":
                    i += 1
                    continue
                break
        self.params = params
        blocks = {}
        order = []
        # the entry block's implicit label is the next unnamed value number
        nparams_unnamed = sum(1 for p, _ in params if p.isdigit())
        cur = str(nparams_unnamed)
        blocks[cur] = []
        order.append(cur)
        pending = None
        for ln in self.lines:
            if not ln.strip() or ln.lstrip().startswith(";"):
                continue
            if pending is not None:
                pending += " " + ln.strip()
                if ln.strip() == "]":
                    blocks[cur].append(pending)
                    pending = None
                continue
            if re.match(r"^\s+switch\b", ln) and ln.rstrip().endswith("["):
                pending = ln.rstrip()
                continue
            m = re.match(r"^([-a-zA-Z$._0-9]+):", ln)
            if m:
                cur = m.group(1)
                blocks[cur] = []
                order.append(cur)
                continue
            blocks[cur].append(ln)
        self._raw = blocks
        self._blocks = {}
        self.entry = order[0]

    def block(self, label):
        self.parse()
        b = self._blocks.get(label)
        if b is None:
            raw = self._raw.get(label)
            if raw is None:
                raise IRError("no block %s in %s" % (label, self.name))
            b = [parse_instr(ln) for ln in raw]
            self._blocks[label] = b
        return b


class Module:
    def __init__(self, text):
        self.structs = {}
        self.functions = {}
        self.declared = set()
        self.globals = {}      # name -> (Ty, initializer int or None)
        self._layout = {}
        lines = text.split("\n")
        i, n = 0, len(lines)
        while i < n:
            ln = lines[i]
            if ln.startswith("%") and " = type " in ln:
                name, rest = ln.split(" = type ", 1)
                name = name[1:].strip('"')
                if rest.strip() == "opaque":
                    self.structs[name] = Ty("opaque")
                else:
                    self.structs[name], _ = parse_type(rest, 0)
            elif ln.startswith("define "):
                m = re.search(r"@(\"[^\"]*\"|[-a-zA-Z$._0-9]+)\s*\(", ln)
                name = m.group(1).strip('"')
                body = []
                i += 1
                while lines[i] != "}":
                    body.append(lines[i])
                    i += 1
                self.functions[name] = Function(name, ln, body)
            elif ln.startswith("declare "):
                m = re.search(r"@(\"[^\"]*\"|[-a-zA-Z$._0-9]+)\s*\(", ln)
                self.declared.add(m.group(1).strip('"'))
            elif ln.startswith("@"):
                m = re.match(r'@("[^"]*"|[-a-zA-Z$._0-9]+) = (.*)$', ln)
                if m:
                    name, rest = m.group(1).strip('"'), m.group(2)
                    rest = re.sub(r"^((internal|private|external|dso_local|unnamed_addr|local_unnamed_addr|"
                                  r"common|weak|hidden|constant|global|thread_local|linkonce_odr)\s+)*", "", rest)
                    try:
                        ty, j = parse_type(rest, 0)
                    except Exception:
                        ty, j = None, 0
                    init = None
                    if ty is not None and ty.k == "int":
                        mm = _int.match(rest, skip(rest, j))
                        if mm:
                            init = int(mm.group())
                    self.globals[name] = (ty, init)
            i += 1

    # ---- layout (x86-64 SysV natural alignment) ----
    def resolve(self, ty):
        while ty.k == "named":
            t = self.structs.get(ty.a)
            if t is None:
                raise IRError("unknown named type %s" % ty.a)
            ty = t
        return ty

    def size_align(self, ty):
        k = ty.k
        if k == "int":
            b = max(1, (ty.a + 7) // 8)
            # round up to power of two
            p = 1
            while p < b:
                p *= 2
            return p, min(p, 8) if p <= 8 else 16
        if k == "ptr" or k == "func":
            return 8, 8
        if k == "double":
            return 8, 8
        if k == "float":
            return 4, 4
        if k == "fp80":
            return 16, 16
        if k == "named":
            key = ty.a
            if key not in self._layout:
                self._layout[key] = self.size_align(self.resolve(ty))
            return self._layout[key]
        if k == "array":
            s, a = self.size_align(ty.b)
            return s * ty.a, a
        if k == "struct":
            off, mx = 0, 1
            for e in ty.a:
                s, a = self.size_align(e)
                if ty.b:
                    a = 1
                off = (off + a - 1) // a * a
                off += s
                mx = max(mx, a)
            off = (off + mx - 1) // mx * mx
            return off, mx
        if k == "opaque":
            raise IRError("size of opaque type")
        raise IRError("size of %r" % (ty,))

    def field_offset(self, ty, idx):
        st = self.resolve(ty)
        if st.k != "struct":
            raise IRError("field_offset on non-struct %r" % (ty,))
        off = 0
        for n, e in enumerate(st.a):
            s, a = self.size_align(e)
            if st.b:
                a = 1
            off = (off + a - 1) // a * a
            if n == idx:
                return off, e
            off += s
        raise IRError("field index out of range")


def load_module(path):
    with open(path) as f:
        return Module(f.read())
