"""Per-kernel harnesses (E1): real IR function vs. specification written from the
Parquet format text (Encodings.md), payload symbolic, shape concrete.

Every harness returns an Outcome; Outcome.findings carry a replayable witness
(concrete inputs + the values the *specification* demands) so that the replay
driver can confirm the violation on the freshly compiled extension module.
"""
import z3

from .interp import HarnessError, simp, is_c, to_z3, mask, PathEnd, REGION_GAP
from .kern import Kit, sym_bytes, model_bytes, PFX


# --------------------------------------------------------------------- util --
def uleb(n):
    out = []
    while n > 127:
        out.append((n & 0x7f) | 0x80)
        n >>= 7
    out.append(n)
    return out


def uleb_padded(n, length):
    """non-minimal ULEB128 of exactly `length` bytes (valid per the varint definition)"""
    out = []
    for i in range(length):
        b = (n >> (7 * i)) & 0x7f
        if i < length - 1:
            b |= 0x80
        out.append(b)
    return out


def zext(t, frm, to):
    if isinstance(t, int):
        return t
    return z3.ZeroExt(to - frm, t) if to > frm else t


def extract_bits(byte_terms, lo, n, outw):
    """bits [lo, lo+n) of the little-endian bit stream formed by byte_terms, zero-extended to outw"""
    if n == 0:
        return 0
    first, last = lo // 8, (lo + n - 1) // 8
    chunk = byte_terms[first:last + 1]
    if all(isinstance(b, int) for b in chunk):
        v = sum(b << (8 * i) for i, b in enumerate(chunk))
        return ((v >> (lo - 8 * first)) & mask(n)) & mask(outw)
    t = z3.Concat(*[to_z3(b, 8) for b in reversed(chunk)]) if len(chunk) > 1 else to_z3(chunk[0], 8)
    s = lo - 8 * first
    t = z3.Extract(s + n - 1, s, t)
    if n > outw:
        t = z3.Extract(outw - 1, 0, t)
    elif n < outw:
        t = z3.ZeroExt(outw - n, t)
    return simp(t)


class Outcome:
    def __init__(self, name, kit, shape, functions):
        self.name, self.k, self.shape = name, kit, shape
        self.findings = []
        self.functional_queries = 0
        self.reached = 0
        self.functions = functions
        self.inconclusive = []

    def check(self, st, obs, witness_fn, pre=()):
        """obs: list of (label, impl_term, spec_term[, width]) ; query pc & pre & OR(impl != spec)"""
        e = self.k.e
        self.reached += 1
        diffs = []
        for o in obs:
            label, impl, spec = o[0], o[1], o[2]
            if impl is None:
                raise HarnessError("observable %s is uninitialised" % label)
            if isinstance(impl, int) and isinstance(spec, int):
                if impl != spec:
                    diffs.append(z3.BoolVal(True))
                continue
            w = impl.size() if not isinstance(impl, int) else spec.size()
            # normalise the difference first (flattens/sorts +,^ chains), then ask the solver
            dz = z3.simplify(to_z3(impl, w) - to_z3(spec, w), som=True, flat=True, sort_sums=True) != z3.BitVecVal(0, w)
            diffs.append(z3.simplify(dz))
        if not diffs:
            return
        # one query per observable; an equality already shown (unsat) is a lemma for the next ones
        lemmas = []
        r = "unsat"
        for d in diffs:
            self.functional_queries += 1
            r = e.check(*st.pc, *pre, *lemmas, d)
            if r == "unsat":
                if not z3.is_true(d):
                    lemmas.append(z3.Not(d))
                continue
            break
        if r == "unsat":
            return
        if r == "unknown":
            self.inconclusive.append("functional query unknown")
            return
        m = e.model()
        bad = []
        for o in obs:
            label, impl, spec = o[0], o[1], o[2]
            iv = impl if isinstance(impl, int) else m.eval(impl, model_completion=True).as_long()
            sv = spec if isinstance(spec, int) else m.eval(spec, model_completion=True).as_long()
            if iv != sv:
                bad.append((label, iv, sv))
        wit = witness_fn(m)
        wit["expect"] = {o[0]: (o[2] if isinstance(o[2], int) else m.eval(o[2], model_completion=True).as_long())
                         for o in obs}
        self.findings.append(dict(kind="functional", function=self.shape["kernel"],
                                  obligation="output == specification",
                                  detail="; ".join("%s: code gives %d, specification %d" % b for b in bad[:4]),
                                  shape=self.shape, witness=wit, tainted=st.tainted,
                                  cls="%s:functional" % self.shape["kernel"]))

    def absorb_violations(self, witness_fn):
        """turn engine-level safety violations (oob / shift / div0) into findings (deduplicated)"""
        seen = set()
        for v in self.k.e.violations:
            fn = v["function"].replace(PFX, "")
            key = (v["kind"], fn, v["instr"])
            if key in seen:
                continue
            seen.add(key)
            if v["model"] is None:
                self.inconclusive.append("safety query unknown: %s" % (key,))
                continue
            wit = witness_fn(v["model"])
            wit["expect_safety"] = v["kind"]
            self.findings.append(dict(kind=v["kind"], function=fn, obligation=v["instr"], detail=v["detail"],
                                      shape=self.shape, witness=wit, tainted=v["tainted"],
                                      cls="%s:%s:%s" % (fn, v["kind"], v["instr"])))

    def result(self):
        e = self.k.e
        if e.bound_hit:
            self.inconclusive.append("unwinding/path bound hit")
        if self.reached == 0 and not self.findings:
            self.inconclusive.append("no path reached the assertion (vacuous)")
        status = "violation" if self.findings else ("inconclusive" if self.inconclusive else "holds")
        st = dict(e.stats)
        st["solver_ms"] = round(st["solver_ms"], 1)
        return dict(harness=self.name, engine="E1-llsym", status=status, findings=self.findings,
                    inconclusive=self.inconclusive, stats=st, shape=self.shape,
                    functions=sorted(f.replace(PFX, "") for f in e.functions_entered),
                    reached=self.reached, functional_queries=self.functional_queries)


def _final_returned(out, finals):
    for st in finals:
        if st.status == "returned":
            yield st
        elif st.status in ("oob", "div0", "infeasible"):
            continue
        elif st.status == "bound":
            out.inconclusive.append("path hit step bound")
        elif st.status == "raised":
            out.inconclusive.append("path ended in an exception stub")
        else:
            out.inconclusive.append("path ended with status %s" % st.status)


def _unchanged_tail(k, st, ob, init, start, n):
    """observables: bytes [start, n) of the output buffer keep their initial content"""
    cur = k.out_bytes(st, ob, n)
    return [("out_byte[%d] (beyond the values written)" % i, cur[i], init[i]) for i in range(start, n)]


# ---------------------------------------------------------- read_bitpacked --
def h_read_bitpacked(mod, width, groups, itemsize, cap, **kw):
    """cap: output capacity in items"""
    k = Kit(mod, **kw)
    nin = groups * width
    inb = sym_bytes("in", nin)
    init = sym_bytes("oinit", cap * itemsize)
    ib = k.buffer("in", inb, writable=False)
    ob = k.buffer("out", list(init))
    f = k.numpyio("f", ib, nin)
    o = k.numpyio("o", ob, cap * itemsize)
    oa = k.optargs("read_bitpacked", [itemsize])
    header = (groups << 1) | 1
    shape = dict(kernel="read_bitpacked", width=width, groups=groups, itemsize=itemsize, cap=cap)
    out = Outcome("read_bitpacked[w=%d,g=%d,s=%d,cap=%d]" % (width, groups, itemsize, cap), k, shape, [])

    def wit(m):
        return dict(driver="native", call="read_bitpacked", input=model_bytes(m, inb),
                    out_init=model_bytes(m, init), args=dict(header=header, width=width, itemsize=itemsize),
                    cap_bytes=cap * itemsize)

    finals = k.run("read_bitpacked", [f, header, width, o, 0, oa])
    count = groups * 8
    written = min(count, cap)
    for st in _final_returned(out, finals):
        obs = [("file_loc", k.field(st, f, "loc"), nin), ("out_loc", k.field(st, o, "loc"), written * itemsize)]
        for i in range(written):
            obs.append(("out[%d]" % i, k.out_word(st, ob, i, itemsize),
                        extract_bits(inb, i * width, width, itemsize * 8)))
        obs += _unchanged_tail(k, st, ob, init, written * itemsize, cap * itemsize)
        out.check(st, obs, wit)
    out.absorb_violations(wit)
    return out.result()


# ---------------------------------------------------------------- read_rle --
def h_read_rle(mod, width, count, itemsize, cap, **kw):
    k = Kit(mod, **kw)
    nin = (width + 7) // 8
    inb = sym_bytes("in", nin)
    init = sym_bytes("oinit", cap * itemsize)
    ib = k.buffer("in", inb, writable=False)
    ob = k.buffer("out", list(init))
    f = k.numpyio("f", ib, nin)
    o = k.numpyio("o", ob, cap * itemsize)
    oa = k.optargs("read_rle", [itemsize])
    header = count << 1
    shape = dict(kernel="read_rle", width=width, count=count, itemsize=itemsize, cap=cap)
    out = Outcome("read_rle[w=%d,n=%d,s=%d,cap=%d]" % (width, count, itemsize, cap), k, shape, [])

    def wit(m):
        return dict(driver="native", call="read_rle", input=model_bytes(m, inb), out_init=model_bytes(m, init),
                    args=dict(header=header, width=width, itemsize=itemsize), cap_bytes=cap * itemsize)

    finals = k.run("read_rle", [f, header, width, o, 0, oa])
    written = min(count, cap)
    val = extract_bits(inb, 0, nin * 8, itemsize * 8)
    for st in _final_returned(out, finals):
        obs = [("file_loc", k.field(st, f, "loc"), nin), ("out_loc", k.field(st, o, "loc"), written * itemsize)]
        for i in range(written):
            obs.append(("out[%d]" % i, k.out_word(st, ob, i, itemsize), val))
        obs += _unchanged_tail(k, st, ob, init, written * itemsize, cap * itemsize)
        # well-formed: the repeated value fits the declared bit width
        pre = []
        if width < nin * 8 and nin:
            full = extract_bits(inb, 0, nin * 8, nin * 8)
            pre.append(z3.ULT(to_z3(full, nin * 8), z3.BitVecVal(1 << width, nin * 8)))
        out.check(st, obs, wit, pre)
    out.absorb_violations(wit)
    return out.result()


# --------------------------------------------------------- read_bitpacked1 --
def h_read_bitpacked1(mod, count, cap, **kw):
    k = Kit(mod, **kw)
    nin = (count + 7) // 8
    inb = sym_bytes("in", nin)
    init = sym_bytes("oinit", cap)
    ib = k.buffer("in", inb, writable=False)
    ob = k.buffer("out", list(init))
    f = k.numpyio("f", ib, nin)
    o = k.numpyio("o", ob, cap)
    shape = dict(kernel="read_bitpacked1", count=count, cap=cap)
    out = Outcome("read_bitpacked1[n=%d,cap=%d]" % (count, cap), k, shape, [])

    def wit(m):
        return dict(driver="native", call="read_bitpacked1", input=model_bytes(m, inb),
                    out_init=model_bytes(m, init), args=dict(count=count), cap_bytes=cap)

    finals = k.run("read_bitpacked1", [f, count, o, 0])
    written = min(count, cap)
    for st in _final_returned(out, finals):
        obs = [("file_loc", k.field(st, f, "loc"), nin), ("out_loc", k.field(st, o, "loc"), written)]
        for i in range(written):
            obs.append(("out[%d]" % i, k.out_word(st, ob, i, 1), extract_bits(inb, i, 1, 8)))
        obs += _unchanged_tail(k, st, ob, init, written, cap)
        out.check(st, obs, wit)
    out.absorb_violations(wit)
    return out.result()


# --------------------------------------------------- read_unsigned_var_int --
def varint_bytes(prefix, n, top_bits_free=False):
    """n symbolic bytes shaped as a varint of exactly n bytes; returns (byte terms, 7-bit payload terms)"""
    pay = [z3.BitVec("%s%d" % (prefix, i), 7) for i in range(n)]
    bs = []
    for i, p in enumerate(pay):
        top = z3.BitVecVal(1 if i < n - 1 else 0, 1)
        bs.append(z3.Concat(top, p))
    return bs, pay


def varint_value(pay, w=64):
    acc = z3.BitVecVal(0, w)
    for i, p in enumerate(pay):
        if 7 * i >= w:
            break
        t = z3.ZeroExt(w - 7, p) << (7 * i)
        acc = acc | t
    return simp(acc)


def h_read_varint(mod, nbytes, **kw):
    k = Kit(mod, **kw)
    inb, pay = varint_bytes("v", nbytes)
    ib = k.buffer("in", inb, writable=False)
    f = k.numpyio("f", ib, nbytes)
    shape = dict(kernel="read_unsigned_var_int", nbytes=nbytes)
    out = Outcome("read_unsigned_var_int[len=%d]" % nbytes, k, shape, [])

    def wit(m):
        return dict(driver="native", call="read_unsigned_var_int", input=model_bytes(m, inb), args={})

    finals = k.run("read_unsigned_var_int", [f, 0])
    pre = []
    if nbytes == 10:   # a 64-bit value leaves one bit for the 10th byte
        pre.append(z3.ULE(pay[9], z3.BitVecVal(1, 7)))
    for st in _final_returned(out, finals):
        obs = [("file_loc", k.field(st, f, "loc"), nbytes), ("return", st.retval, varint_value(pay))]
        out.check(st, obs, wit, pre)
    out.absorb_violations(wit)
    return out.result()


def h_encode_varint(mod, cap=10, **kw):
    """encode_unsigned_varint(x) for every 64-bit x: bytes are the canonical ULEB128 of x"""
    k = Kit(mod, **kw)
    x = z3.BitVec("x", 64)
    init = sym_bytes("oinit", cap)
    ob = k.buffer("out", list(init))
    o = k.numpyio("o", ob, cap)
    shape = dict(kernel="encode_unsigned_varint", cap=cap)
    out = Outcome("encode_unsigned_varint[x:u64,cap=%d]" % cap, k, shape, [])

    def wit(m):
        return dict(driver="native", call="encode_unsigned_varint", x=m.eval(x, model_completion=True).as_long(),
                    out_init=model_bytes(m, init), cap_bytes=cap, args={})

    finals = k.run("encode_unsigned_varint", [x, o, 0])
    lengths = set()
    for st in _final_returned(out, finals):
        n = k.field(st, o, "loc")
        if not is_c(n):
            raise HarnessError("symbolic output length")
        lengths.add(n)
        bs = k.out_bytes(st, ob, cap)
        # specification: the unique minimal ULEB128 encoding of x.  length L = max(1, ceil(bitlen(x)/7))
        obs = []
        acc = z3.BitVecVal(0, 64)
        for i in range(n):
            b = to_z3(bs[i], 8)
            acc = acc | (z3.ZeroExt(57, z3.Extract(6, 0, b)) << (7 * i))
            obs.append(("continuation_bit[%d]" % i, simp(z3.Extract(7, 7, b)), 1 if i < n - 1 else 0))
        obs.append(("decoded_value", simp(acc), x))
        if n > 1:
            obs.append(("last_byte_nonzero(minimal)", simp(z3.If(to_z3(bs[n - 1], 8) == 0, z3.BitVecVal(0, 1),
                                                                   z3.BitVecVal(1, 1))), 1))
        obs += _unchanged_tail(k, st, ob, init, n, cap)
        out.check(st, obs, wit)
    out.shape["lengths_seen"] = sorted(lengths)
    if cap >= 10 and lengths != set(range(1, 11)):
        out.inconclusive.append("expected paths for all lengths 1..10, saw %s" % sorted(lengths))
    out.absorb_violations(wit)
    return out.result()


def h_varint_roundtrip(mod, **kw):
    """read_unsigned_var_int(encode_unsigned_varint(x)) == x for every 64-bit x"""
    k = Kit(mod, **kw)
    x = z3.BitVec("x", 64)
    ob = k.buffer("out", [0] * 12)
    o = k.numpyio("o", ob, 12)
    shape = dict(kernel="varint_roundtrip")
    out = Outcome("varint_roundtrip[x:u64]", k, shape, [])

    def wit(m):
        return dict(driver="native", call="varint_roundtrip", x=m.eval(x, model_completion=True).as_long(), args={})

    finals = k.run("encode_unsigned_varint", [x, o, 0])
    for st in list(_final_returned(out, finals)):
        n = k.field(st, o, "loc")
        # now decode from position 0 in the same state
        k.e.store(st, o + k.off["loc"], 4, 0, "seek0")
        st.status = "running"
        k.e.call(st, PFX + "read_unsigned_var_int", [o, 0])
        for st2 in _final_returned(out, k.e.explore(st)):
            out.check(st2, [("decoded", st2.retval, x), ("consumed", k.field(st2, o, "loc"), n)], wit)
    out.absorb_violations(wit)
    return out.result()


# ------------------------------------------------------------------ zigzag --
def h_zigzag(mod, **kw):
    k = Kit(mod, **kw)
    n = z3.BitVec("n", 64)
    shape = dict(kernel="zigzag")
    out = Outcome("zigzag[n:64]", k, shape, [])

    def wit(m):
        return dict(driver="native", call="zigzag", n=m.eval(n, model_completion=True).as_long(), args={})

    for fname, spec in (("zigzag_long", z3.LShR(n, 1) ^ (-(n & 1))),
                        ("long_zigzag", (n << 1) ^ (n >> 63)),
                        ("zigzag_int", z3.Extract(31, 0, z3.LShR(n, 1) ^ (-(n & 1))))):
        if PFX + fname not in mod.functions:
            if fname == "zigzag_int":
                continue      # unused cdef function: not emitted into the generated C
            raise HarnessError("kernel %s not found" % fname)
        k2 = Kit(mod, **kw)
        k2.e.stats = k.e.stats
        k2.e.functions_entered = k.e.functions_entered
        o2 = Outcome(out.name, k2, dict(kernel=fname), [])
        finals = k2.run(fname, [n])
        for st in _final_returned(o2, finals):
            o2.check(st, [(fname, st.retval, simp(spec))], wit)
        o2.absorb_violations(wit)
        out.findings += o2.findings
        out.inconclusive += o2.inconclusive
        out.reached += o2.reached
        out.functional_queries += o2.functional_queries
    # round trip through both directions
    k3 = Kit(mod, **kw)
    k3.e.stats = k.e.stats
    k3.e.functions_entered = k.e.functions_entered
    o3 = Outcome(out.name, k3, dict(kernel="zigzag_roundtrip"), [])
    for st in _final_returned(o3, k3.run("long_zigzag", [n])):
        z = st.retval
        st.status = "running"
        k3.e.call(st, PFX + "zigzag_long", [z])
        for st2 in _final_returned(o3, k3.e.explore(st)):
            o3.check(st2, [("zigzag_long(long_zigzag(n))", st2.retval, n)], wit)
    out.findings += o3.findings
    out.reached += o3.reached
    out.functional_queries += o3.functional_queries
    return out.result()


# ------------------------------------------------------- width_from_max_int --
def h_width_from_max_int(mod, **kw):
    k = Kit(mod, **kw)
    v = z3.BitVec("value", 64)
    k.st.pc.append(v >= 0)   # domain: maximum levels / dictionary sizes are non-negative
    shape = dict(kernel="width_from_max_int")
    out = Outcome("width_from_max_int[value:0..2^63)", k, shape, [])

    def wit(m):
        return dict(driver="native", call="width_from_max_int", value=m.eval(v, model_completion=True).as_long(),
                    args={})

    finals = k.run("width_from_max_int", [v, 0])
    for st in _final_returned(out, finals):
        r = st.retval
        if not is_c(r):
            raise HarnessError("symbolic width result")
        # specification: the bit length of value
        spec = z3.If(v == 0, z3.BitVecVal(0, 32), z3.BitVecVal(0, 32))
        conds = []
        if r == 0:
            ok = v == 0
        else:
            ok = z3.And(z3.ULT(v, z3.BitVecVal(1 << r, 64)) if r < 64 else z3.BoolVal(True),
                        z3.UGE(v, z3.BitVecVal(1 << (r - 1), 64)))
        out.check(st, [("bit_length", simp(z3.If(ok, z3.BitVecVal(1, 1), z3.BitVecVal(0, 1))), 1)], wit)
    out.absorb_violations(wit)
    return out.result()


# ------------------------------------------------------------------ hybrid --
def hybrid_stream(runs, width, pad_header=0):
    """runs: list of ('rle', count) | ('bp', groups).  Returns (byte terms, symbolic payload bytes, spec values)"""
    bs, pay, vals = [], [], []
    nb = (width + 7) // 8
    for ri, r in enumerate(runs):
        if r[0] == "rle":
            h = r[1] << 1
            hb = uleb(h)
            if pad_header:
                hb = uleb_padded(h, len(hb) + pad_header)
            p = sym_bytes("r%d_" % ri, nb)
            bs += hb + p
            pay += p
            v = extract_bits(p, 0, nb * 8, 32) if nb else 0
            vals += [("rle", v, p)] * r[1]
        else:
            h = (r[1] << 1) | 1
            hb = uleb(h)
            if pad_header:
                hb = uleb_padded(h, len(hb) + pad_header)
            p = sym_bytes("b%d_" % ri, r[1] * width)
            bs += hb + p
            pay += p
            for i in range(r[1] * 8):
                vals.append(("bp", extract_bits(p, i * width, width, 32), None))
    return bs, pay, vals


def h_hybrid(mod, width, runs, itemsize, cap, prefix_len=False, pad_header=0, **kw):
    """read_rle_bit_packed_hybrid as its call sites in core.py use it.
    prefix_len=True: length argument 0 -> 4-byte little-endian length prefix (definition/repetition levels, v1)
    prefix_len=False: length = bytes remaining (dictionary indices)"""
    k = Kit(mod, **kw)
    body, pay, vals = hybrid_stream(runs, width, pad_header)
    n = len(body)
    stream = ([n & 0xff, (n >> 8) & 0xff, (n >> 16) & 0xff, (n >> 24) & 0xff] if prefix_len else []) + body
    init = sym_bytes("oinit", cap * itemsize)
    ib = k.buffer("in", stream, writable=False)
    ob = k.buffer("out", list(init))
    f = k.numpyio("f", ib, len(stream))
    o = k.numpyio("o", ob, cap * itemsize)
    oa = k.optargs("read_rle_bit_packed_hybrid", [itemsize])
    shape = dict(kernel="read_rle_bit_packed_hybrid", width=width, runs=[list(r) for r in runs], itemsize=itemsize,
                 cap=cap, prefix_len=prefix_len, pad_header=pad_header)
    out = Outcome("hybrid[w=%d,%s,s=%d,cap=%d,%s]" % (width, "+".join("%s%d" % tuple(r) for r in runs), itemsize, cap,
                                                      "len32" if prefix_len else "len"), k, shape, [])

    def wit(m):
        return dict(driver="native", call="read_rle_bit_packed_hybrid", input=model_bytes(m, stream),
                    out_init=model_bytes(m, init),
                    args=dict(width=width, length=0 if prefix_len else n, itemsize=itemsize),
                    cap_bytes=cap * itemsize)

    finals = k.run("read_rle_bit_packed_hybrid", [f, width, 0 if prefix_len else n, o, 0, oa])
    total = len(vals)
    written = min(total, cap)
    # values before the last run: if they already fill the output the tail of the stream is legitimately unread
    before_last = total - (runs[-1][1] * (8 if runs[-1][0] == "bp" else 1)) if runs else 0
    pre = []
    nb = (width + 7) // 8
    seen = set()
    for kind, v, p in vals:
        if kind == "rle" and p and width < nb * 8 and id(p) not in seen:
            seen.add(id(p))
            full = extract_bits(p, 0, nb * 8, nb * 8)
            pre.append(z3.ULT(to_z3(full, nb * 8), z3.BitVecVal(1 << width, nb * 8)))
    for st in _final_returned(out, finals):
        obs = [("out_loc", k.field(st, o, "loc"), written * itemsize)]
        if cap > before_last or not runs:
            obs.append(("file_loc", k.field(st, f, "loc"), len(stream)))
        for i in range(written):
            sv = vals[i][1]
            if itemsize == 1:
                sv = sv & 0xff if isinstance(sv, int) else simp(z3.Extract(7, 0, sv))
            obs.append(("out[%d]" % i, k.out_word(st, ob, i, itemsize), sv))
        obs += _unchanged_tail(k, st, ob, init, written * itemsize, cap * itemsize)
        out.check(st, obs, wit, pre)
    out.absorb_violations(wit)
    return out.result()


# ------------------------------------------------------------------- delta --
def _zz_varint(prefix, nbytes):
    """symbolic zigzag varint of exactly nbytes; returns (bytes, signed 64-bit value term)"""
    bs, pay = varint_bytes(prefix, nbytes)
    if nbytes == 10:
        # the 10th byte of a 64-bit varint carries a single bit (well-formed stream)
        pay[9] = z3.ZeroExt(6, z3.Extract(0, 0, pay[9]))
        bs[9] = z3.Concat(z3.BitVecVal(0, 1), pay[9])
    u = varint_value(pay)
    return bs, simp(z3.LShR(u, 1) ^ (-(u & 1))), pay


def h_delta(mod, block, minis, count, longval, widths, vlen=2, dlen=2, cap=None, **kw):
    """delta_binary_unpack.  widths: list (per block) of lists (per miniblock) of bit widths.
    Only the miniblocks that hold values carry data (Encodings.md: the last miniblocks may be omitted)."""
    k = Kit(mod, **kw)
    vpm = block // minis
    isz = 8 if longval else 4
    bits = isz * 8
    stream = uleb(block) + uleb(minis) + uleb(count)
    fb, first, fpay = _zz_varint("first", vlen)
    stream += fb
    pre = []
    deltas = []     # spec delta terms (64-bit), in order
    remaining = count - 1
    sym_all = list(fb)
    for bi, ws in enumerate(widths):
        mb, md, mpay = _zz_varint("md%d_" % bi, dlen)
        stream += mb
        sym_all += mb
        stream += list(ws)
        for mi, w in enumerate(ws):
            if remaining <= 0:
                break
            p = sym_bytes("d%d_%d_" % (bi, mi), vpm * w // 8)
            stream += p
            sym_all += p
            for j in range(vpm):
                if remaining <= 0:
                    break
                d = extract_bits(p, j * w, w, 64)
                deltas.append(simp(to_z3(d, 64) + md))
                remaining -= 1
    if remaining > 0:
        raise HarnessError("shape does not cover count")
    capb = (count if cap is None else cap) * isz
    init = sym_bytes("oinit", capb)
    ib = k.buffer("in", stream, writable=False)
    ob = k.buffer("out", list(init))
    f = k.numpyio("f", ib, len(stream))
    o = k.numpyio("o", ob, capb)
    oa = k.optargs("delta_binary_unpack", [1 if longval else 0])
    shape = dict(kernel="delta_binary_unpack", block=block, minis=minis, count=count, longval=int(longval),
                 widths=[list(w) for w in widths], maxwidth=max([max(w) for w in widths] + [0]), cap=capb // isz,
                 vlen=vlen, dlen=dlen)
    out = Outcome("delta[B=%d,M=%d,n=%d,%s,w=%s,v%d,d%d]" % (block, minis, count, "i64" if longval else "i32",
                                                             "/".join(",".join(map(str, w)) for w in widths),
                                                             vlen, dlen),
                  k, shape, [])

    def wit(m):
        return dict(driver="native", call="delta_binary_unpack", input=model_bytes(m, stream),
                    out_init=model_bytes(m, init), args=dict(longval=int(longval)), cap_bytes=capb)

    finals = k.run("delta_binary_unpack", [f, o, 0, oa])
    nout = min(count, capb // isz)
    spec = [first]
    for d in deltas:
        spec.append(simp(spec[-1] + d))
    for st in _final_returned(out, finals):
        obs = [("out_loc", k.field(st, o, "loc"), nout * isz)]
        for i in range(nout):
            sv = spec[i]
            if bits == 32:
                sv = simp(z3.Extract(31, 0, sv))
            obs.append(("out[%d]" % i, k.out_word(st, ob, i, isz), sv))
        if nout == count:
            obs.append(("file_loc", k.field(st, f, "loc"), len(stream)))
        out.check(st, obs, wit, pre)
    out.absorb_violations(wit)
    return out.result()


# ---------------------------------------------------------------- encoders --
def h_encode_bitpacked(mod, width, n, with_length=None, cap=None, start=0, **kw):
    """encode_bitpacked / encode_rle_bp: header + LSB-first packing of n values < 2^width, appended at the output's
    cursor (`start` bytes are already in the buffer and must stay as they are)"""
    k = Kit(mod, **kw)
    vals = [z3.BitVec("val%d" % i, 32) for i in range(n)]
    vb = []
    for v in vals:
        vb += [z3.Extract(8 * j + 7, 8 * j, v) for j in range(4)]
        if width < 32:
            k.st.pc.append(z3.ULT(v, z3.BitVecVal(1 << width, 32)))
    vbuf = k.buffer("values", vb, writable=False)
    mv = k.memview("values", vbuf, n, 4)
    groups = (n + 7) // 8
    hb = uleb((groups << 1) | 1)
    need = start + len(hb) + (n * width + 7) // 8 + (4 if with_length else 0)
    capb = need + 4 if cap is None else cap
    init = sym_bytes("oinit", capb)
    ob = k.buffer("out", list(init))
    o = k.numpyio("o", ob, capb, loc=start)
    fn = "encode_bitpacked" if with_length is None else "encode_rle_bp"
    shape = dict(kernel=fn, width=width, n=n, with_length=with_length, cap=capb)
    if start:
        shape["start"] = start
    out = Outcome("%s[w=%d,n=%d%s%s]" % (fn, width, n, "" if with_length is None else ",len=%d" % with_length,
                                         ",start=%d" % start if start else ""), k, shape, [])

    def wit(m):
        return dict(driver="native", call=fn, values=[m.eval(v, model_completion=True).as_long() for v in vals],
                    out_init=model_bytes(m, init), args=dict(width=width, with_length=with_length, start=start),
                    cap_bytes=capb)

    if with_length is None:
        finals = k.run("encode_bitpacked", [mv, width, o, 0])
    else:
        oa = k.optargs("encode_rle_bp", [with_length])
        finals = k.run("encode_rle_bp", [mv, width, o, 0, oa])
    nbody = (n * width + 7) // 8
    for st in _final_returned(out, finals):
        bs = k.out_bytes(st, ob, capb)
        off = start
        obs = [("out_byte[%d] (before the cursor)" % j, bs[j], init[j]) for j in range(start)]
        if with_length:
            ln = len(hb) + nbody
            for j in range(4):
                obs.append(("length_prefix[%d]" % j, bs[start + j], (ln >> (8 * j)) & 0xff))
            off = start + 4
        for j, b in enumerate(hb):
            obs.append(("header[%d]" % j, bs[off + j], b))
        off += len(hb)
        body = bs[off:off + nbody]
        for i in range(n):
            obs.append(("packed_value[%d]" % i, extract_bits(body, i * width, width, 32), vals[i]))
        pad = n * width % 8
        if pad:
            obs.append(("padding_bits", extract_bits(body, n * width, 8 - pad, 8), 0))
        obs.append(("out_loc", k.field(st, o, "loc"), off + nbody))
        obs += _unchanged_tail(k, st, ob, init, off + nbody, capb)
        out.check(st, obs, wit)
    out.absorb_violations(wit)
    return out.result()


def h_bitpack_roundtrip(mod, width, n, **kw):
    """read_bitpacked(encode_bitpacked(v)) == v for n values (n multiple of 8: whole groups)"""
    k = Kit(mod, **kw)
    vals = [z3.BitVec("val%d" % i, 32) for i in range(n)]
    vb = []
    for v in vals:
        vb += [z3.Extract(8 * j + 7, 8 * j, v) for j in range(4)]
        if width < 32:
            k.st.pc.append(z3.ULT(v, z3.BitVecVal(1 << width, 32)))
    vbuf = k.buffer("values", vb, writable=False)
    mv = k.memview("values", vbuf, n, 4)
    groups = (n + 7) // 8
    hb = uleb((groups << 1) | 1)
    capb = len(hb) + groups * width
    ob = k.buffer("enc", [0] * capb)
    o = k.numpyio("o", ob, capb)
    db = k.buffer("dec", [0] * (groups * 8 * 4))
    d = k.numpyio("d", db, groups * 8 * 4)
    oa = k.optargs("read_bitpacked", [4])
    shape = dict(kernel="bitpack_roundtrip", width=width, n=n)
    out = Outcome("bitpack_roundtrip[w=%d,n=%d]" % (width, n), k, shape, [])

    def wit(m):
        return dict(driver="native", call="bitpack_roundtrip",
                    values=[m.eval(v, model_completion=True).as_long() for v in vals], args=dict(width=width))

    finals = k.run("encode_bitpacked", [mv, width, o, 0])
    for st in list(_final_returned(out, finals)):
        k.e.store(st, o + k.off["loc"], 4, len(hb), "seek")
        st.status = "running"
        k.e.call(st, PFX + "read_bitpacked", [o, (groups << 1) | 1, width, d, 0, oa])
        for st2 in _final_returned(out, k.e.explore(st)):
            obs = [("decoded[%d]" % i, k.out_word(st2, db, i, 4), vals[i]) for i in range(n)]
            out.check(st2, obs, wit)
    out.absorb_violations(wit)
    return out.result()


# --------------------------------------------------------- write_bitpacked1 --
def h_write_bitpacked1_safety(mod, count, **kw):
    """safety only (the function has no caller in the library): reads count bytes, writes ceil(count/8)"""
    k = Kit(mod, **kw)
    inb = sym_bytes("in", count)
    for b in inb:
        k.st.pc.append(z3.ULE(b, 1))
    ib = k.buffer("in", inb, writable=False)
    nout = (count + 7) // 8
    ob = k.buffer("out", [0] * nout)
    f = k.numpyio("f", ib, count)
    o = k.numpyio("o", ob, nout)
    shape = dict(kernel="write_bitpacked1", count=count)
    out = Outcome("write_bitpacked1[n=%d] (safety)" % count, k, shape, [])

    def wit(m):
        return dict(driver="native", call="write_bitpacked1", input=model_bytes(m, inb), args=dict(count=count),
                    cap_bytes=nout)

    finals = k.run("write_bitpacked1", [f, count, o, 0])
    for st in _final_returned(out, finals):
        out.check(st, [("out_loc", k.field(st, o, "loc"), nout)], wit)
    out.absorb_violations(wit)
    return out.result()


# --------------------------------------------------------------- time_shift --
def h_time_shift(mod, n, factor, **kw):
    k = Kit(mod, **kw)
    vals = [z3.BitVec("t%d" % i, 64) for i in range(n)]
    vb = []
    for v in vals:
        vb += [z3.Extract(8 * j + 7, 8 * j, v) for j in range(8)]
    buf = k.buffer("data", vb)
    mv = k.memview("data", buf, n, 8)
    oa = k.optargs("time_shift", [factor])
    shape = dict(kernel="time_shift", n=n, factor=factor)
    out = Outcome("time_shift[n=%d,f=%d]" % (n, factor), k, shape, [])

    def wit(m):
        return dict(driver="native", call="time_shift",
                    values=[m.eval(v, model_completion=True).as_long() for v in vals], args=dict(factor=factor))

    finals = k.run("time_shift", [mv, factor, 0, oa]) if False else k.run("time_shift", [mv, 0, oa])
    nat = 1 << 63
    for st in _final_returned(out, finals):
        obs = []
        for i, v in enumerate(vals):
            spec = simp(z3.If(v == z3.BitVecVal(nat, 64), v, v * z3.BitVecVal(factor, 64)))
            obs.append(("data[%d]" % i, k.out_word(st, buf, i, 8), spec))
        out.check(st, obs, wit)
    out.absorb_violations(wit)
    return out.result()


REGISTRY = {f.__name__[2:]: f for f in (h_read_bitpacked, h_read_rle, h_read_bitpacked1, h_read_varint,
                                        h_encode_varint, h_varint_roundtrip, h_zigzag, h_width_from_max_int,
                                        h_hybrid, h_delta, h_encode_bitpacked, h_bitpack_roundtrip,
                                        h_write_bitpacked1_safety, h_time_shift)}
