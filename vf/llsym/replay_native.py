"""Replay of an E1 witness against the freshly compiled extension module.

usage: python replay_native.py <stage_dir> <witness.json>
prints one JSON line {"actual": {...}, "diff": [[label, actual, expected], ...]}
The process may also die from a sanitizer report / signal: the caller looks at
stderr and the exit status (safety witnesses are run on the ASan+UBSan build).
"""
import json
import sys


def main():
    stage, wpath = sys.argv[1], sys.argv[2]
    sys.path.insert(0, stage)
    import numpy as np
    from fastparquet import cencoding as c
    assert c.__file__.startswith(stage), c.__file__
    w = json.load(open(wpath))
    call, a = w["call"], w.get("args", {})
    actual = {}

    def inbuf(data):
        # one leading pad byte so that an empty stream is still a valid (exhausted) buffer
        arr = np.array([0xAA] + list(data), dtype="uint8")
        f = c.NumpyIO(arr)
        f.seek(1)
        return arr, f

    def outbuf():
        arr = np.array(w.get("out_init", [0] * w.get("cap_bytes", 0)), dtype="uint8")
        if len(arr) == 0:
            arr = np.zeros(1, dtype="uint8")
            o = c.NumpyIO(arr)
            # capacity 0: position the cursor at the end of a 1-byte buffer
            o.seek(1)
            return arr, o, 1
        return arr, c.NumpyIO(arr), 0

    def collect(f, o, oarr, obase, itemsize):
        if f is not None:
            actual["file_loc"] = f.tell() - 1
        if o is not None:
            actual["out_loc"] = o.tell() - obase
            ob = bytes(oarr[obase:])
            for i in range(len(ob)):
                actual["out_byte[%d] (beyond the values written)" % i] = ob[i]
            for i in range(len(ob) // itemsize):
                actual["out[%d]" % i] = int.from_bytes(ob[i * itemsize:(i + 1) * itemsize], "little")

    if call in ("read_bitpacked", "read_rle"):
        arr, f = inbuf(w["input"])
        oarr, o, ob = outbuf()
        getattr(c, call)(f, a["header"], a["width"], o, a["itemsize"])
        collect(f, o, oarr, ob, a["itemsize"])
    elif call == "read_bitpacked1":
        arr, f = inbuf(w["input"])
        oarr, o, ob = outbuf()
        c.read_bitpacked1(f, a["count"], o)
        collect(f, o, oarr, ob, 1)
    elif call == "read_rle_bit_packed_hybrid":
        arr, f = inbuf(w["input"])
        oarr, o, ob = outbuf()
        c.read_rle_bit_packed_hybrid(f, a["width"], a["length"], o, a["itemsize"])
        collect(f, o, oarr, ob, a["itemsize"])
    elif call == "delta_binary_unpack":
        arr, f = inbuf(w["input"])
        oarr, o, ob = outbuf()
        c.delta_binary_unpack(f, o, a["longval"])
        collect(f, o, oarr, ob, 8 if a["longval"] else 4)
    elif call == "read_unsigned_var_int":
        arr, f = inbuf(w["input"])
        actual["return"] = c.read_unsigned_var_int(f)
        actual["file_loc"] = f.tell() - 1
    elif call == "encode_unsigned_varint":
        oarr, o, ob = outbuf()
        c.encode_unsigned_varint(w["x"], o)
        n = o.tell() - ob
        actual["out_loc"] = n
        bs = bytes(oarr[ob:])
        val = 0
        for i in range(n):
            actual["continuation_bit[%d]" % i] = bs[i] >> 7
            val |= (bs[i] & 0x7f) << (7 * i)
        actual["decoded_value"] = val & ((1 << 64) - 1)
        if n > 1:
            actual["last_byte_nonzero(minimal)"] = int(bs[n - 1] != 0)
        for i in range(len(bs)):
            actual["out_byte[%d] (beyond the values written)" % i] = bs[i]
    elif call == "varint_roundtrip":
        arr = np.zeros(12, dtype="uint8")
        o = c.NumpyIO(arr)
        c.encode_unsigned_varint(w["x"], o)
        n = o.tell()
        o.seek(0)
        actual["decoded"] = c.read_unsigned_var_int(o)
        actual["consumed"] = o.tell()
        w.setdefault("expect", {})
        w["expect"] = {"decoded": w["x"], "consumed": n}
    elif call == "width_from_max_int":
        r = c.width_from_max_int(w["value"])
        v = w["value"]
        actual["bit_length"] = int(r == v.bit_length())
    elif call in ("encode_bitpacked", "encode_rle_bp"):
        vals = np.array(w["values"], dtype="uint32").view("int32")
        oarr, o, ob = outbuf()
        st0 = a.get("start", 0)
        if st0:
            o.seek(ob + st0)
        if call == "encode_bitpacked":
            c.encode_bitpacked(vals, a["width"], o)
        else:
            c.encode_rle_bp(vals, a["width"], o, a["with_length"])
        bs = bytes(oarr[ob:])
        n, width = len(vals), a["width"]
        off = st0
        for j in range(st0):
            actual["out_byte[%d] (before the cursor)" % j] = bs[j]
        if a.get("with_length"):
            for j in range(4):
                actual["length_prefix[%d]" % j] = bs[st0 + j]
            off = st0 + 4
        hb = []
        h = (((n + 7) // 8) << 1) | 1
        while True:
            hb.append(h & 0x7f | (0x80 if h > 127 else 0))
            h >>= 7
            if not h:
                break
        for j in range(len(hb)):
            actual["header[%d]" % j] = bs[off + j]
        off += len(hb)
        nbody = (n * width + 7) // 8
        body = int.from_bytes(bs[off:off + nbody], "little")
        for i in range(n):
            actual["packed_value[%d]" % i] = (body >> (i * width)) & ((1 << width) - 1)
        if n * width % 8:
            actual["padding_bits"] = body >> (n * width)
        actual["out_loc"] = o.tell() - ob
        for i in range(len(bs)):
            actual["out_byte[%d] (beyond the values written)" % i] = bs[i]
    elif call == "bitpack_roundtrip":
        vals = np.array(w["values"], dtype="uint32").view("int32")
        width = a["width"]
        groups = (len(vals) + 7) // 8
        enc = np.zeros(8 + groups * width, dtype="uint8")
        o = c.NumpyIO(enc)
        c.encode_bitpacked(vals, width, o)
        o.seek(0)
        head = c.read_unsigned_var_int(o)
        dec = np.zeros(groups * 8, dtype="int32")
        c.read_bitpacked(o, head, width, c.NumpyIO(dec.view("uint8")), 4)
        for i in range(len(vals)):
            actual["decoded[%d]" % i] = int(dec.view("uint32")[i])
        w["expect"] = {"decoded[%d]" % i: int(v) for i, v in enumerate(w["values"])}
    elif call == "write_bitpacked1":
        arr, f = inbuf(w["input"])
        oarr, o, ob = outbuf()
        c.write_bitpacked1(f, a["count"], o)
        actual["out_loc"] = o.tell() - ob
    elif call == "time_shift":
        vals = np.array(w["values"], dtype="uint64").view("int64")
        c.time_shift(vals, a["factor"])
        for i in range(len(vals)):
            actual["data[%d]" % i] = int(vals.view("uint64")[i])
    elif call == "zigzag":
        # zigzag helpers are cdef-only; reachable through the thrift integer codec
        n = w["n"]
        s = n - (1 << 64) if n >> 63 else n
        t = c.ThriftObject.from_fields("KeyValue")
        buf = np.zeros(32, dtype="uint8")
        o = c.NumpyIO(buf)
        c.write_thrift({1: s}, o)
        o.seek(0)
        back = c.read_thrift(o)
        actual["zigzag_long(long_zigzag(n))"] = back.get(1) & ((1 << 64) - 1)
        w["expect"] = {"zigzag_long(long_zigzag(n))": n}
    else:
        print(json.dumps({"error": "unknown call %s" % call}))
        return
    diff = []
    for k, v in (w.get("expect") or {}).items():
        if k in actual and actual[k] != v:
            diff.append([k, actual[k], v])
    print(json.dumps({"actual_n": len(actual), "diff": diff}))


if __name__ == "__main__":
    main()
