"""C01 / C17: the schema and pandas metadata writer.make_metadata builds for a frame.  Real make_metadata over a frame
shim (column names, dtypes, row count); find_type / get_column_metadata are recording stubs (their own behaviour is
lemma_types' / pandas' business).  Which columns get a schema element, in which order, which are OPTIONAL, what the
pandas metadata lists - for every combination of ignored (partition) columns, nullability mode and index columns."""
import json
from typing import List

from vf.pyshim.kit import REPLAY

import fastparquet.writer as writer
from fastparquet import parquet_thrift

NAMES = ["a", "b", "c"]


def _pick(v, lo, hi):
    for k in range(lo, hi + 1):
        if v == k:
            return k
    raise ValueError(v)


class _DT:
    def __init__(self, obj):
        self.obj = obj

    def __eq__(self, o):
        return (o == "O") == self.obj if o in ("O", "object") else False

    __hash__ = None


class _Ser:
    def __init__(self, name, obj):
        self.name, self.dtype = name, _DT(obj)


class _Cols(list):
    is_unique = True
    name = None


class _Frame:
    def __init__(self, names, objs, n):
        self.columns = _Cols(names)
        self.objs, self.n = dict(zip(names, objs)), n

    def __len__(self):
        return self.n

    def __getitem__(self, c):
        return _Ser(c, self.objs[c])


import os
MODE = int(os.environ.get("VERIF_NULLMODE", "0"))       # has_nulls: 0 True, 1 False, 2 None ('infer'), 3 a list of names


def h_make_metadata(n: int, ign0: bool, ign1: bool, obj0: bool, obj1: bool, obj2: bool, in0: bool, in1: bool,
                    in2: bool, t96: bool) -> bool:
    """
    pre: 0 <= n <= 1 << 40
    pre: MODE == 3 or not (in0 or in1 or in2)
    pre: MODE == 2 or not (obj1 or obj2)
    post: __return__
    """
    ncols, mode = 3, MODE
    names = NAMES[:ncols]
    ignore = [c for c, f in zip(names, (ign0, ign1)) if f]
    objs = [obj0, obj1, obj2][:ncols]
    has_nulls = [True, False, None, [c for c, f in zip(names, (in0, in1, in2)) if f]][mode]
    found = []

    def find_type(data, fixed_text=None, object_encoding=None, times="int64", is_index=None):
        found.append((data.name, times, fixed_text, object_encoding))
        return parquet_thrift.SchemaElement(name=data.name, type=2, repetition_type=0), 2
    saved = (writer.find_type, writer.get_column_metadata)
    writer.find_type = find_type
    writer.get_column_metadata = lambda ser, name, object_dtype=None: {"name": name}
    try:
        fmd = writer.make_metadata(_Frame(names, objs, n), has_nulls=has_nulls, ignore_columns=ignore,
                                   times="int96" if t96 else "int64", index_cols=[], partition_cols=ignore)
    finally:
        writer.find_type, writer.get_column_metadata = saved
    kept = [c for c in names if c not in ignore]
    schema = fmd.schema
    if [s.name for s in schema[1:]] != kept or schema[0].num_children != len(kept) or fmd.num_rows != n:
        return False
    if [f[0] for f in found] != kept or any(f[1] != ("int96" if t96 else "int64") for f in found):
        return False
    for se, c in zip(schema[1:], kept):
        obj = objs[names.index(c)]
        want_opt = {0: True, 1: False, 2: obj}.get(mode, None)
        if mode == 3:
            want_opt = c in has_nulls
        if (se.repetition_type == parquet_thrift.FieldRepetitionType.OPTIONAL) != want_opt:
            return False
        # an enum of the IDL: the serialiser picks the wire type from the Python type (bool before int), so the value
        # must be an integer, not a truth value that happens to equal one
        if isinstance(se.repetition_type, bool) or not isinstance(se.repetition_type, int):
            return False
    kv = {k.key: k.value for k in fmd.key_value_metadata}
    pm = json.loads(kv[b"pandas"])
    return ([c["name"] for c in pm["columns"]] == kept and [c["name"] for c in pm["partition_columns"]] == ignore and
            pm["index_columns"] == [])


def replay_h_make_metadata(n, ign0, ign1, obj0, obj1, obj2, in0, in1, in2, t96):
    ncols, mode = 3, MODE
    import numpy as np
    import pandas as pd
    names = NAMES[:ncols]
    ignore = [c for c, f in zip(names, (ign0, ign1)) if f]
    objs = [obj0, obj1, obj2][:ncols]
    has_nulls = [True, False, None, [c for c, f in zip(names, (in0, in1, in2)) if f]][mode]
    rows = min(n, 4)
    df = pd.DataFrame({c: (["x"] * rows if o else np.arange(rows, dtype="int64")) for c, o in zip(names, objs)})
    try:
        fmd = writer.make_metadata(df, has_nulls=has_nulls, ignore_columns=ignore, times="int96" if t96 else "int64",
                                   index_cols=[], partition_cols=ignore)
    except Exception as ex:
        return True, "make_metadata fails: %s: %s" % (type(ex).__name__, str(ex)[:80])
    kept = [c for c in names if c not in ignore]
    got = [(s.name, s.repetition_type) for s in fmd.schema[1:]]
    want = []
    for c in kept:
        o = objs[names.index(c)]
        opt = {0: True, 1: False, 2: o}.get(mode, None)
        if mode == 3:
            opt = c in has_nulls
        want.append((c, 1 if opt else 0))
    kinds = sorted({type(b).__name__ for a, b in got})
    if kinds not in (["int"], []):
        from vf.pyshim import filecheck
        raw = bytes(fmd.to_bytes())
        bad = filecheck.idl_conformance("FileMetaData", raw)
        return True, "make_metadata(has_nulls=%r) stores repetition_type as %r; the footer it serialises to: %s" % (
            has_nulls, kinds, bad[0] if bad else "follows the IDL")
    got = [(a, 1 if b == 1 else 0) for a, b in got]
    pm = json.loads({k.key: k.value for k in fmd.key_value_metadata}[b"pandas"])
    if got != want or fmd.schema[0].num_children != len(kept) or [c["name"] for c in pm["columns"]] != kept:
        return True, "frame columns %r (partition columns %r, has_nulls=%r): schema %r, expected %r; pandas metadata " \
                     "lists %r" % (names, ignore, has_nulls, got, want, [c["name"] for c in pm["columns"]])
    return False, "schema and pandas metadata as expected"
