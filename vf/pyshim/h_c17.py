"""C17 (reduced): what a handle predicts from metadata alone can hold what a read then produces.
Real api.ParquetFile._dtypes / check_categories / categories / pre_allocate / _pre_allocate / _get_index / columns on a
handle built without opening a file (real SchemaHelper, real RowGroup / ColumnChunk / Statistics thrift objects holding
symbolic row and NULL counts).  pandas' allocation itself (dataframe.empty) is a recording stub."""
import os
from typing import List, Optional

from vf.pyshim.kit import REPLAY

import numpy as np
import fastparquet.api as api
from fastparquet import parquet_thrift
from fastparquet.schema import SchemaHelper

T = parquet_thrift.Type
NESTED = os.environ.get("VERIF_NESTED", "0") == "1"      # a MAP column (two leaf chunks) precedes the integer column


def _schema():
    els = [parquet_thrift.SchemaElement(name="schema", num_children=3 if NESTED else 2)]
    if NESTED:
        els += [parquet_thrift.SchemaElement(name="m", num_children=1, repetition_type=1, converted_type=1),
                parquet_thrift.SchemaElement(name="key_value", num_children=2, repetition_type=2),
                parquet_thrift.SchemaElement(name="key", type=T.INT64, repetition_type=0),
                parquet_thrift.SchemaElement(name="value", type=T.INT64, repetition_type=1)]
    els += [parquet_thrift.SchemaElement(name="f", type=T.DOUBLE, repetition_type=1),
            parquet_thrift.SchemaElement(name="a", type=T.INT64, repetition_type=1)]
    return els


def _chunk(path, state, nulls):
    """state 0: no statistics; 1: statistics without null_count (optional in the format); 2: truthful null_count"""
    st = None
    if state == 1:
        st = parquet_thrift.Statistics(max=b"\x01", min=b"\x00")
    elif state == 2:
        st = parquet_thrift.Statistics(max=b"\x01", min=b"\x00", null_count=nulls)
    md = parquet_thrift.ColumnMetaData(type=T.INT64, path_in_schema=path, num_values=10, statistics=st)
    return parquet_thrift.ColumnChunk(meta_data=md)


def _handle(rgs, pandas_nulls):
    pf = object.__new__(api.ParquetFile)
    fmd = parquet_thrift.FileMetaData(version=1, schema=_schema(), row_groups=rgs, num_rows=0, created_by=b"other")
    pf.__dict__.update(fn="x", fmd=fmd, _pdm=None, _kvm=None, _categories=None, _base_dtype=None, _columns_dtype=None,
                       _statistics=None, pandas_nulls=pandas_nulls, tz=None, cats={}, file_scheme="simple",
                       row_groups=rgs, created_by=b"other", selfmade=False, schema=SchemaHelper(fmd.schema))
    return pf


def _rg(rows, st_a, k_a, st_other, k_other):
    cols = []
    if NESTED:
        cols += [_chunk(["m", "key_value", "key"], st_other, 0), _chunk(["m", "key_value", "value"], st_other, k_other)]
    cols += [_chunk(["f"], st_other, k_other), _chunk(["a"], st_a, k_a)]
    return parquet_thrift.RowGroup(columns=cols, num_rows=rows, total_byte_size=1)


def h_dtypes_nullable(r0: int, r1: int, k0: int, k1: int, s0: int, s1: int, o0: int, o1: int, so: int,
                      pandas_nulls: bool) -> bool:
    """
    pre: 0 <= r0 <= 1000 and 0 <= r1 <= 1000 and 0 <= k0 <= r0 and 0 <= k1 <= r1 and 0 <= o0 <= r0 and 0 <= o1 <= r1
    pre: 0 <= s0 <= 2 and 0 <= s1 <= 2 and 0 <= so <= 2
    post: __return__
    """
    # integer column `a` of two row groups holding k0 / k1 NULLs (other columns: o0 / o1); statistics absent, present
    # without a NULL count, or truthful.  If a row group that will be read holds a NULL, the predicted dtype of `a`
    # must be one that can hold it - the nullable extension type, or float64 when pandas_nulls is off.
    pf = _handle([_rg(r0, s0, k0, so, o0), _rg(r1, s1, k1, so, o1)], pandas_nulls)
    dt = pf._dtypes()
    if list(dt) != (["m", "f", "a"] if NESTED else ["f", "a"]):
        return False
    has_null = (r0 > 0 and k0 > 0) or (r1 > 0 and k1 > 0)
    name = str(dt["a"])
    if has_null:
        return name == ("Int64" if pandas_nulls else "float64")
    return name in ("int64", "Int64", "float64")


def replay_h_dtypes_nullable(r0, r1, k0, k1, s0, s1, o0, o1, so, pandas_nulls):
    """a two-row-group file built from the specification (dictionary-encoded INT64 column with NULLs, chunk statistics
    in the witness's state), opened and read through the public API"""
    import shutil, tempfile
    import fastparquet
    import pandas as pd
    from vf.pyshim import flat_file
    if NESTED:
        # a file built from the specification: MAP column, then the integer column; truthful NULL counts everywhere
        from vf.pyxlift import nested_file
        d = tempfile.mkdtemp(prefix="c17-")
        try:
            r, k = (r0, k0) if (r0 > 0 and k0 > 0) or r1 == 0 else (r1, k1)
            r = max(1, min(r, 6))
            k = min(k, r)
            vals = [None] * k + [7 + j for j in range(r - k)]
            fn = os.path.join(d, "m.parq")
            nested_file.build_map_then_int(fn, vals)
            try:
                pf = fastparquet.ParquetFile(fn, pandas_nulls=pandas_nulls)
                pred = str(pf.dtypes["a"])
                out = pf.to_pandas()["a"]
            except Exception as ex:
                return True, "integer column %r after a MAP column (truthful statistics) cannot be read: %s: %s" % (
                    vals, type(ex).__name__, str(ex)[:80])
            got = [None if pd.isna(v) else int(v) for v in out.astype(object)]
            if got != vals or str(out.dtype) != pred:
                return True, "integer column after a MAP column: predicted %s, read gives %s / %r, file encodes %r" % (
                    pred, out.dtype, got, vals)
            return False, "prediction holds"
        finally:
            shutil.rmtree(d, ignore_errors=True)
    d = tempfile.mkdtemp(prefix="c17-")
    try:
        want, fns = [], []
        for i, (r, k, s) in enumerate(((r0, k0, s0), (r1, k1, s1))):
            r, k = min(r, 12), min(k, min(r, 12))
            if r == 0:
                continue
            nulls = [j < k for j in range(r)]
            idx = [j % 3 for j in range(r - k)]
            fn = os.path.join(d, "p%d.parq" % i)
            flat_file.build_dict(fn, [10, 20, 30], idx, 2, nulls=nulls, optional=True,
                                 stats_null_count={0: "absent", 1: None, 2: k}[s])
            it = iter(idx)
            want += [None if z else [10, 20, 30][next(it)] for z in nulls]
            fns.append(fn)
        if not fns:
            return False, "no rows"
        try:
            pf = fastparquet.ParquetFile(fns if len(fns) > 1 else fns[0], pandas_nulls=pandas_nulls)
            pred = str(pf.dtypes["x"])
            out = pf.to_pandas()["x"]
        except Exception as ex:
            return True, "integer column with %r NULLs per row group (statistics states %r) cannot be read: %s: %s" % (
                [k0, k1], [s0, s1], type(ex).__name__, str(ex)[:80])
        got = [None if pd.isna(v) else int(v) for v in out.astype(object)]
        if got != want or str(out.dtype) != pred:
            return True, "predicted dtype %s, read gives dtype %s / values %r, file encodes %r" % (
                pred, out.dtype, got[:6], want[:6])
        return False, "prediction holds"
    finally:
        shutil.rmtree(d, ignore_errors=True)


# ------------------------------------------------------------------ slices / copies predict what the parent does ---
def h_slice_dtypes(k0: int, k1: int, s0: int, s1: int, item: int, via_state: bool, pandas_nulls: bool,
                   given: bool) -> bool:
    """
    pre: 0 <= k0 <= 5 and 0 <= k1 <= 5 and 0 <= s0 <= 2 and 0 <= s1 <= 2 and 0 <= item <= 2
    post: __return__
    """
    # a handle derived from another - pf[0], pf[1], pf[0:2], also after a trip through __getstate__/__setstate__ (what
    # pickle, copy and dask do with it) - predicts the dtypes its parent predicts: a partial read then has the dtypes
    # of the full read, wherever the NULLs are, and a dtypes= override given when the file was opened stays in force
    pf = _handle([_rg(5, s0, k0, 2, 0), _rg(5, s1, k1, 2, 0)], pandas_nulls)
    pf.fn, pf.open = "x", None
    if given:
        pf._base_dtype = {"f": np.dtype("float32"), "a": np.dtype("float64")}     # ParquetFile(fn, dtypes=...)
    pf._dtypes()
    parent = [(c, str(t)) for c, t in pf.dtypes.items()]
    sub = pf[[0, 1, slice(0, 2)][item]]
    if via_state:
        state = sub.__getstate__()
        sub = object.__new__(api.ParquetFile)
        sub.__setstate__(state)
    if [(c, str(t)) for c, t in sub.dtypes.items()] != parent or sub.pandas_nulls != pandas_nulls:
        return False
    # ... and can allocate what it predicts (the first step of every read)
    saved = api.dataframe
    api.dataframe = _DFMod
    try:
        sub.pre_allocate(5, ["f", "a"], None, None)
    finally:
        api.dataframe = saved
    r = REC[0]
    return r["cols"] == ["f", "a"] and [str(t) for t in r["types"]] == [t for c, t in parent]


def replay_h_slice_dtypes(k0, k1, s0, s1, item, via_state, pandas_nulls, given):
    """a two-row-group file built from the specification (INT64 dictionary column, NULLs where the witness has them,
    statistics in the witness's state): dtypes announced by the handle vs dtypes of reads through the derived handle"""
    import pickle, shutil, tempfile
    import fastparquet
    from vf.pyshim import flat_file
    d = tempfile.mkdtemp(prefix="c17-")
    try:
        fns = []
        for i, (k, s) in enumerate(((k0, s0), (k1, s1))):
            nulls = [j < k for j in range(5)]
            fn = os.path.join(d, "p%d.parq" % i)
            flat_file.build_dict(fn, [10, 20, 30], [j % 3 for j in range(5 - k)], 2, nulls=nulls, optional=True,
                                 stats_null_count={0: "absent", 1: None, 2: k}[s])
            fns.append(fn)
        kw = dict(dtypes={"x": np.dtype("float32")}) if given else {}
        pf = fastparquet.ParquetFile(fns, pandas_nulls=pandas_nulls, **kw)
        parent = str(pf.dtypes["x"])
        sub = pf[[0, 1, slice(0, 2)][item]]
        if via_state:
            sub = pickle.loads(pickle.dumps(sub))
        if str(sub.dtypes["x"]) != parent:
            return True, "handle predicts %s for column x, the handle derived from it (%s%s) predicts %s" % (
                parent, ["pf[0]", "pf[1]", "pf[0:2]"][item], ", pickled" if via_state else "", sub.dtypes["x"])
        try:
            got = str(sub.to_pandas()["x"].dtype)
        except Exception as ex:
            return True, "reading through the derived handle fails: %s: %s" % (type(ex).__name__, str(ex)[:80])
        if got != parent:
            return True, "handle predicts %s for column x, a read through %s%s gives %s" % (
                parent, ["pf[0]", "pf[1]", "pf[0:2]"][item], " (pickled)" if via_state else "", got)
        return False, "derived handle agrees with its parent"
    finally:
        shutil.rmtree(d, ignore_errors=True)


# ------------------------------------------------------------------ timestamp columns: unit and zone ---
UNITS = ["s", "ms", "us", "ns"]
ZONES = [None, "UTC", "Europe/Paris"]


def _time_handle(unit, zone):
    """a handle over the metadata the real writer produces for a frame with one timestamp column"""
    import pandas as pd
    import fastparquet.writer as writer
    t = pd.Series(np.array([0, 1000000000], dtype="int64").astype("M8[s]").astype("M8[%s]" % unit))
    if zone:
        t = t.dt.tz_localize("UTC").dt.tz_convert(zone)
    df = pd.DataFrame({"t": t, "a": [1, 2]})
    fmd = writer.make_metadata(df)
    cols = [parquet_thrift.ColumnChunk(meta_data=parquet_thrift.ColumnMetaData(
        type=T.INT64, path_in_schema=[c], num_values=2, statistics=parquet_thrift.Statistics(null_count=0)))
        for c in ("t", "a")]
    fmd.row_groups = [parquet_thrift.RowGroup(columns=cols, num_rows=2, total_byte_size=1)]
    fmd.num_rows = 2
    pf = object.__new__(api.ParquetFile)
    pf.__setstate__({"fn": "x", "open": None, "fmd": fmd, "pandas_nulls": True, "_base_dtype": None, "tz": None})
    return pf, str(df["t"].dtype)


def h_time_annotation(iu: int, iz: int) -> bool:
    """
    pre: 0 <= iu <= 3 and 0 <= iz <= 2
    post: __return__
    """
    # what a reader that knows only the format sees: the stored integers of a zone-aware column are UTC instants, so
    # its TIMESTAMP annotation must say isAdjustedToUTC exactly when the column has a zone (any zone), and the legacy
    # converted type and the logical unit must name the same unit
    iu, iz = _pick_i(iu, 0, 3), _pick_i(iz, 0, 2)
    from crosshair.tracers import NoTracing
    with NoTracing():
        return _time_annotation(iu, iz)


def _time_annotation(iu, iz):
    pf, _ = _time_handle(UNITS[iu], ZONES[iz])
    se = [x for x in pf.fmd.schema if x.name == "t"][0]
    ts = se.logicalType.TIMESTAMP if se.logicalType is not None else None
    if ts is None:
        return False
    if bool(ts.isAdjustedToUTC) != (ZONES[iz] is not None):
        return False
    unit = [k for k, v in ts.unit._asdict().items() if v is not None]
    legacy = {parquet_thrift.ConvertedType.TIMESTAMP_MILLIS: "MILLIS",
              parquet_thrift.ConvertedType.TIMESTAMP_MICROS: "MICROS", None: None}.get(se.converted_type, "?")
    return len(unit) == 1 and (legacy is None or legacy == unit[0])


def replay_h_time_annotation(iu, iz):
    import shutil, tempfile, os
    import pandas as pd
    import fastparquet
    d = tempfile.mkdtemp(prefix="c02-")
    try:
        unit, zone = UNITS[iu], ZONES[iz]
        t = pd.Series(np.array([0, 1000000000], dtype="int64").astype("M8[s]").astype("M8[%s]" % unit))
        if zone:
            t = t.dt.tz_localize("UTC").dt.tz_convert(zone)
        fn = os.path.join(d, "t.parq")
        fastparquet.write(fn, pd.DataFrame({"t": t}))
        se = [x for x in fastparquet.ParquetFile(fn).fmd.schema if x.name == "t"][0]
        flag = bool(se.logicalType.TIMESTAMP.isAdjustedToUTC)
        if flag != (zone is not None):
            return True, ("a datetime64[%s%s] column is written with TIMESTAMP(isAdjustedToUTC=%s) although the stored "
                          "integers are %s" % (unit, ", " + zone if zone else "", flag,
                                               "UTC instants" if zone else "local wall-clock values"))
        return False, "annotation matches the stored integers"
    finally:
        shutil.rmtree(d, ignore_errors=True)


AS_INDEX = [False]


def h_time_index(iu: int, iz: int, via_state: bool) -> bool:
    """
    pre: 0 <= iu <= 3 and 0 <= iz <= 2
    post: __return__
    """
    # the same column chosen as the index of the result (to_pandas(index="t")): its predicted dtype and the zone handed
    # to the allocator are unchanged
    AS_INDEX[0] = True
    try:
        return _h_time_dtype(iu, iz, via_state)
    finally:
        AS_INDEX[0] = False


def replay_h_time_index(iu, iz, via_state):
    AS_INDEX[0] = True
    try:
        return replay_h_time_dtype(iu, iz, via_state)
    finally:
        AS_INDEX[0] = False


def h_time_dtype(iu: int, iz: int, via_state: bool) -> bool:
    """
    pre: 0 <= iu <= 3 and 0 <= iz <= 2
    post: __return__
    """
    return _h_time_dtype(iu, iz, via_state)


def _h_time_dtype(iu, iz, via_state):
    # a timestamp column of any unit, naive or zone-aware, as this library's writer describes it: the handle predicts
    # the frame's own dtype (unit and zone), keeps predicting it after a trip through __getstate__ / __setstate__, and
    # asks the allocator for that zone
    iu, iz = _pick_i(iu, 0, 3), _pick_i(iz, 0, 2)
    via_state = bool(via_state)
    # every input is concrete from here on: the real functions (and pandas underneath) run untraced
    try:
        from crosshair.tracers import NoTracing
    except ImportError:
        return _time_dtype(iu, iz, via_state)
    with NoTracing():
        return _time_dtype(iu, iz, via_state)


def _time_dtype(iu, iz, via_state):
    pf, want = _time_handle(UNITS[iu], ZONES[iz])
    if via_state:
        state = pf.__getstate__()
        pf = object.__new__(api.ParquetFile)
        pf.__setstate__(state)
    if str(pf.dtypes["t"]) != want:
        return False
    saved = api.dataframe
    api.dataframe = _DFMod
    try:
        if AS_INDEX[0]:
            pf.pre_allocate(2, ["a"], None, "t")
        else:
            pf.pre_allocate(2, ["t", "a"], None, None)
    finally:
        api.dataframe = saved
    r = REC[0]
    zone = ZONES[iz]
    got_type = str(r["index_types"][0]) if AS_INDEX[0] else [str(t) for t in r["types"]][0]
    return got_type == want and r["timezones"] == ({"t": zone} if zone else {})


def _pick_i(v, lo, hi):
    for k in range(lo, hi + 1):
        if v == k:
            return k
    raise ValueError(v)


def replay_h_time_dtype(iu, iz, via_state):
    import pickle, shutil, tempfile
    import pandas as pd
    import fastparquet
    unit, zone = UNITS[iu], ZONES[iz]
    t = pd.Series(np.array([0, 1000000000], dtype="int64").astype("M8[s]").astype("M8[%s]" % unit))
    if zone:
        t = t.dt.tz_localize("UTC").dt.tz_convert(zone)
    df = pd.DataFrame({"t": t, "a": [1, 2]})
    d = tempfile.mkdtemp(prefix="c17-")
    try:
        fn = os.path.join(d, "t.parq")
        fastparquet.write(fn, df)
        pf = fastparquet.ParquetFile(fn)
        if via_state:
            pf = pickle.loads(pickle.dumps(pf))
        pred = str(pf.dtypes["t"])
        out = pf.to_pandas(index="t").index if AS_INDEX[0] else pf.to_pandas()["t"]
        if pred != str(df["t"].dtype) or str(out.dtype) != pred or list(out) != list(df["t"]):
            return True, "timestamp column %s%s: handle predicts %s, read gives %s (%r)" % (
                df["t"].dtype, " (pickled handle)" if via_state else "", pred, out.dtype, list(out)[:1])
        return False, "unit and zone kept"
    finally:
        shutil.rmtree(d, ignore_errors=True)


# ------------------------------------------------------------------ allocation request == prediction ---
REC = [None]


class _FrameStub:
    class _Ax:
        names = None

    def __init__(self):
        self.columns, self.index = _FrameStub._Ax(), _FrameStub._Ax()

    def __contains__(self, k):
        return False


class _DFMod:
    @staticmethod
    def empty(types, size, cats=None, cols=None, index_types=None, index_names=None, timezones=None,
              columns_dtype=None):
        REC[0] = dict(types=list(types), size=size, cats=dict(cats or {}), cols=list(cols),
                      index_types=list(index_types or []), index_names=list(index_names or []),
                      timezones=dict(timezones or {}))
        return _FrameStub(), {}

    tz_to_dt_tz = staticmethod(lambda z: z)


def h_prealloc(sel_f: bool, sel_a: bool, swap: bool, idx: int, size: int, k0: int, part: bool) -> bool:
    """
    pre: 0 <= idx <= 2 and 0 <= size <= 1000 and 0 <= k0 <= 5 and (sel_f or sel_a or idx > 0 or part)
    post: __return__
    """
    # any selection / order of the columns f (float) and a (integer, k0 NULLs), any of them as index, with or without a
    # partition column: what is handed to the allocator is, column by column, the predicted dtype - in the requested
    # order, index columns separately, partition columns last as categories
    pf = _handle([_rg(5, 2, k0, 2, 0)], True)
    if part:
        pf.cats = {"p": [1, 2]}
    pred = dict(pf._dtypes())
    cols = [c for c, s in (("f", sel_f), ("a", sel_a)) if s]
    if swap:
        cols = cols[::-1]
    index = [None, "f", "a"][idx]
    want_cols = cols + ([index] if index and index not in cols else []) + (["p"] if part else [])
    saved = api.dataframe
    api.dataframe = _DFMod
    try:
        pf.pre_allocate(size, list(want_cols), None, index)
    finally:
        api.dataframe = saved
    r = REC[0]
    data_cols = [c for c in want_cols if c != index and c != "p"]
    # (a partition column named in the selection is passed twice; the allocator keeps one entry per name)
    seen, cols, types = set(), [], []
    for c, t in zip(r["cols"], r["types"]):
        if c not in seen:
            seen.add(c)
            cols.append(c)
            types.append(t)
    if len(r["cols"]) != len(r["types"]) or cols != data_cols + (["p"] if part else []) or r["size"] != size:
        return False
    for c, t in zip(cols, types):
        if str(t) != str("category" if c == "p" else pred[c]):
            return False
    if r["index_names"] != ([index] if index else []):
        return False
    if index:
        # an integer index that may hold NULLs is allocated as int64 (documented special case), otherwise as predicted
        it = str(r["index_types"][0])
        if it != str(pred[index]) and not (index == "a" and it == "int64"):
            return False
    return set(r["cats"]) == ({"p"} if part else set())


def replay_h_prealloc(sel_f, sel_a, swap, idx, size, k0, part):
    """a real file (columns f, a) read with the same selection: dtypes and column order of the result vs pf.dtypes"""
    import shutil, tempfile
    import numpy as np
    import pandas as pd
    import fastparquet
    d = tempfile.mkdtemp(prefix="c17-")
    try:
        a = pd.array([None if j < k0 else j for j in range(5)], dtype="Int64")
        df = pd.DataFrame({"f": np.arange(5, dtype="f8"), "a": a, "p": [1, 1, 2, 2, 2]})
        fn = os.path.join(d, "ds")
        if part:
            fastparquet.write(fn, df, file_scheme="hive", partition_on=["p"], write_index=False)
        else:
            fastparquet.write(fn, df[["f", "a"]], write_index=False)
        pf = fastparquet.ParquetFile(fn)
        cols = [c for c, s in (("f", sel_f), ("a", sel_a)) if s]
        if swap:
            cols = cols[::-1]
        index = [None, "f", "a"][idx]
        want_cols = cols + (["p"] if part else [])
        try:
            out = pf.to_pandas(columns=want_cols, index=index if index else False)
        except Exception as ex:
            return True, "to_pandas(columns=%r, index=%r) fails: %s: %s" % (want_cols, index, type(ex).__name__,
                                                                          str(ex)[:80])
        data_cols = [c for c in want_cols if c != index]
        if list(out.columns) != data_cols:
            return True, "to_pandas(columns=%r, index=%r) returns columns %r" % (want_cols, index, list(out.columns))
        for c in data_cols:
            if str(out[c].dtype) != str(pf.dtypes[c]):
                return True, "column %s: predicted %s, read %s" % (c, pf.dtypes[c], out[c].dtype)
        return False, "prediction holds"
    finally:
        shutil.rmtree(d, ignore_errors=True)


# ------------------------------------------------------------------ categorical columns: each its own order flag ---
def _cat_flags(o1, o2, same_size):
    import pandas as pd
    import fastparquet.writer as writer
    c1 = pd.Categorical(["a", "b"], categories=["a", "b", "c"], ordered=o1)
    c2 = pd.Categorical(["x", "y"], categories=["x", "y", "z"] if same_size else ["x", "y"], ordered=o2)
    df = pd.DataFrame({"c1": c1, "c2": c2})
    fmd = writer.make_metadata(df)
    cols = [parquet_thrift.ColumnChunk(meta_data=parquet_thrift.ColumnMetaData(
        type=T.BYTE_ARRAY, path_in_schema=[c], num_values=2, statistics=parquet_thrift.Statistics(null_count=0)))
        for c in ("c1", "c2")]
    fmd.row_groups = [parquet_thrift.RowGroup(columns=cols, num_rows=2, total_byte_size=1)]
    fmd.num_rows = 2
    pf = object.__new__(api.ParquetFile)
    pf.__setstate__({"fn": "x", "open": None, "fmd": fmd, "pandas_nulls": True, "_base_dtype": None, "tz": None})
    out, views = pf.pre_allocate(2, ["c1", "c2"], None, None)
    return (bool(out["c1"].dtype.ordered), bool(out["c2"].dtype.ordered)), (out["c1"].dtype is out["c2"].dtype)


def h_cat_order_flags(o1: bool, o2: bool, same_size: bool) -> bool:
    """
    pre: True
    post: __return__
    """
    # two categorical columns in one frame, with the same or different numbers of labels: the frame allocated for a
    # read gives each column that column's order flag (the real dataframe.empty and
    # pandas run untraced on concrete input)
    o1, o2, same_size = bool(o1), bool(o2), bool(same_size)
    try:
        from crosshair.tracers import NoTracing
    except ImportError:
        flags, shared = _cat_flags(o1, o2, same_size)
    else:
        with NoTracing():
            flags, shared = _cat_flags(o1, o2, same_size)
    return flags == (o1, o2)


def replay_h_cat_order_flags(o1, o2, same_size):
    import shutil, tempfile
    import pandas as pd
    import fastparquet
    d = tempfile.mkdtemp(prefix="c01-")
    try:
        fn = os.path.join(d, "t.parq")
        c1 = pd.Categorical(["a", "b"], categories=["a", "b", "c"], ordered=o1)
        c2 = pd.Categorical(["x", "y"], categories=["x", "y", "z"] if same_size else ["x", "y"], ordered=o2)
        fastparquet.write(fn, pd.DataFrame({"c1": c1, "c2": c2}))
        out = fastparquet.ParquetFile(fn).to_pandas()
        got = (bool(out["c1"].dtype.ordered), bool(out["c2"].dtype.ordered))
        if got != (o1, o2) or list(out["c1"]) != ["a", "b"] or list(out["c2"]) != ["x", "y"]:
            return True, "categorical columns written with ordered=%r / %r come back with ordered=%r / %r" % (
                o1, o2, got[0], got[1])
        return False, "order flags kept"
    finally:
        shutil.rmtree(d, ignore_errors=True)


# ------------------------------------------------------------------ multi-index levels filled chunk by chunk ---
# (a chunk's label list is the sorted set of its values; lists that are a prefix of the first chunk's are left out:
# their codes coincide with the first chunk's by construction)
LEVEL_SETS = [["p", "q", "r"], ["p", "r"], ["q", "r"], ["r"], ["p", "q", "r", "s"]]


def _second_chunk(i0, i1):
    import pandas as pd
    from fastparquet import dataframe
    df, views = dataframe.empty([np.dtype("int64")], 4, cols=["v"], index_types=[np.dtype("O"), np.dtype("O")],
                                index_names=["a", "b"])
    x = views["a-catdef"]
    x._set_categories(pd.Index(LEVEL_SETS[i0]), fastpath=True)
    try:
        x._set_categories(pd.Index(LEVEL_SETS[i1]), fastpath=True)
    except RuntimeError:
        return "refused"
    return "accepted"


def h_multiindex_chunk_labels(i0: int, i1: int) -> bool:
    """
    pre: 0 <= i0 <= 4 and 0 <= i1 <= 4
    post: __return__
    """
    # an explicit multi-index over plain columns: every chunk's codes count positions in that chunk's own label list,
    # so a later chunk may be merged into the levels set by the first chunk only if its label list IS that list - any
    # other list (a subset, a permutation, a superset) has to be refused, or its rows get other rows' labels
    i0, i1 = _pick_i(i0, 0, 4), _pick_i(i1, 0, 4)
    try:
        from crosshair.tracers import NoTracing
    except ImportError:
        out = _second_chunk(i0, i1)
    else:
        with NoTracing():
            out = _second_chunk(i0, i1)
    return out == ("accepted" if LEVEL_SETS[i0] == LEVEL_SETS[i1] else "refused")


def replay_h_multiindex_chunk_labels(i0, i1):
    import shutil, tempfile
    import pandas as pd
    import fastparquet
    d = tempfile.mkdtemp(prefix="c06-")
    try:
        fn = os.path.join(d, "t.parq")
        l0, l1 = LEVEL_SETS[i0], LEVEL_SETS[i1]
        a = [l0[j % len(l0)] for j in range(len(l0))] + [l1[j % len(l1)] for j in range(len(l1))]
        df = pd.DataFrame({"a": pd.Series(a, dtype=object), "b": pd.Series(["k"] * len(a), dtype=object),
                           "v": list(range(len(a)))})
        fastparquet.write(fn, df, row_group_offsets=[0, len(l0)])
        pf = fastparquet.ParquetFile(fn)
        try:
            out = pf.to_pandas(index=["a", "b"])
        except RuntimeError:
            return False, "refused"
        got = [x[0] for x in out.index]
        if got != a:
            return True, "to_pandas(index=['a','b']) over row groups whose 'a' labels are %r and %r returns index " \
                         "labels %r, the file holds %r" % (l0, l1, got, a)
        return False, "labels right"
    finally:
        shutil.rmtree(d, ignore_errors=True)
