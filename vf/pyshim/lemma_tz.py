"""C01 - fixed-offset time zones: the text the writer stores for a datetime.timezone column
(util.get_column_metadata: str(tz).strip("UTC") = "+HH:MM" / "-HH:MM") parsed back by the real
dataframe.tz_to_dt_tz gives the same offset, for every sign, hour 0..23 and minute 0..59.

The function's source is executed by the small AST interpreter (vf.pyshim.pysym) on a *model* of the text: sign,
hour field and minute field are z3 variables; split / startswith / int / timedelta / timezone are modelled by their
documented contracts.  One z3 query per path asks for (sign, HH, MM) whose parsed offset differs from the offset
the text denotes.  Whole-minute offsets only (the parser does not accept a seconds field); named zones pass through
the function unchanged (not text-parsed) and are outside."""
import datetime

import z3

from vf.pyshim import pysym
from vf.pyshim.astz3 import Untranslatable
from vf.pyshim.lemmas import _res, _check


class _Char:
    def __init__(self, is_minus):
        self.is_minus = is_minus

    def __eq__(self, other):
        if other == "-":
            return self.is_minus
        if other == "+":
            return z3.Not(self.is_minus)
        return False

    def __ne__(self, other):
        r = self.__eq__(other)
        return z3.Not(r) if isinstance(r, z3.ExprRef) else (not r)

    __hash__ = None


class _Field:
    """a run of decimal digits, optionally signed"""

    def __init__(self, value, neg=None):
        self.value, self.neg = value, neg

    def as_int(self):
        if self.neg is None:
            return self.value
        return z3.If(self.neg, -self.value, self.value)       # int("-00") == 0: the sign of a zero field is lost

    def startswith(self, x):
        if self.neg is not None and x == "-":
            return self.neg
        if self.neg is not None and x == "+":
            return z3.Not(self.neg)
        raise Untranslatable("startswith(%r) on a digit field" % (x,))

    def lstrip(self, chars="+-"):
        if set(chars) >= {"+", "-"}:
            return _Field(self.value)
        raise Untranslatable("lstrip(%r)" % (chars,))

    def slice(self, lo, hi):
        if self.neg is not None and lo == 1 and hi is None:
            return _Field(self.value)
        raise Untranslatable("slice of a digit field")

    def index(self, i):
        if self.neg is not None and i == 0:
            return _Char(self.neg)
        raise Untranslatable("character of a digit field")


class OffsetText:
    """'+HH:MM' or '-HH:MM'"""

    def __init__(self, neg, hh, mm):
        self.neg, self.hh, self.mm = neg, hh, mm

    def contains(self, x):
        if x == ":":
            return True
        if x == "-":
            return self.neg
        if x == "+":
            return z3.Not(self.neg)
        raise Untranslatable("%r in text" % (x,))

    def startswith(self, x):
        if x == "-":
            return self.neg
        if x == "+":
            return z3.Not(self.neg)
        raise Untranslatable("startswith(%r)" % (x,))

    def split(self, sep, maxsplit=-1):
        if sep != ":":
            raise Untranslatable("split(%r)" % (sep,))
        return (_Field(self.hh, self.neg), _Field(self.mm))

    def index(self, i):
        if i == 0:
            return _Char(self.neg)
        raise Untranslatable("character %r of the text" % (i,))


def _int(x, *a):
    if hasattr(x, "as_int"):
        return x.as_int()
    if isinstance(x, (int, z3.ExprRef)):
        return x
    raise Untranslatable("int() of %r" % (type(x).__name__,))


def _timedelta(days=0, seconds=0, microseconds=0, milliseconds=0, minutes=0, hours=0, weeks=0):
    if microseconds != 0 or milliseconds != 0:
        raise Untranslatable("sub-second timedelta")
    return ((weeks * 7 + days) * 24 + hours) * 3600 + minutes * 60 + seconds


def _abs(x):
    return z3.If(x < 0, -x, x) if isinstance(x, z3.ExprRef) else abs(x)


CALLS = {"int": _int, "datetime.timedelta": _timedelta, "timedelta": _timedelta,
         "datetime.timezone": lambda off, *a: off, "timezone": lambda off, *a: off, "abs": _abs}


def tz_offset_text():
    import fastparquet.dataframe as dataframe
    res = _res("lemma.tz_offset_text[dataframe.tz_to_dt_tz]", ["dataframe.tz_to_dt_tz"],
               dict(domain="sign x hour 0..23 x minute 0..59"))
    neg, hh, mm = z3.Bool("neg"), z3.Int("hh"), z3.Int("mm")
    try:
        paths = pysym.run(dataframe.tz_to_dt_tz, {"z": OffsetText(neg, hh, mm)}, CALLS)
    except Untranslatable as ex:
        res["status"] = "inconclusive"
        res["inconclusive"].append("cannot interpret the current source of tz_to_dt_tz: %s" % ex)
        return res
    # translator validation: the encoding agrees with the real function on concrete texts
    bad = []
    for sg in (0, 1):
        for h in range(24):
            for mi in (0, 1, 30, 59):
                text = "%s%02d:%02d" % ("-" if sg else "+", h, mi)
                try:
                    real = int(dataframe.tz_to_dt_tz(text).utcoffset(None).total_seconds())
                except Exception as ex:
                    real = "raises %s" % type(ex).__name__
                sub = [(neg, z3.BoolVal(bool(sg))), (hh, z3.IntVal(h)), (mm, z3.IntVal(mi))]
                enc = None
                for cond, value in paths:
                    if all(z3.is_true(z3.simplify(z3.substitute(c, *sub))) for c in cond):
                        enc = z3.simplify(z3.substitute(value, *sub)).as_long() if isinstance(value, z3.ExprRef) \
                            else value
                        break
                if enc != real:
                    bad.append((text, real, enc))
    res["validation"] = dict(texts=2 * 24 * 4, mismatches=len(bad))
    if bad:
        res["status"] = "error"
        res["error"] = "encoding disagrees with the real function on %r" % (bad[:3],)
        return res
    want = z3.If(neg, -1, 1) * (hh * 3600 + mm * 60)
    s = z3.Solver()
    s.set("timeout", 30000)
    s.add(hh >= 0, hh <= 23, mm >= 0, mm <= 59)
    reached = 0
    for cond, value in paths:
        s.push()
        s.add(*cond)
        r = _check(res, s)
        if r == "sat":
            reached += 1
            if not isinstance(value, (int, z3.ExprRef)):
                res["status"] = "inconclusive"
                res["inconclusive"].append("a path returns %r, not an offset" % (type(value).__name__,))
                s.pop()
                continue
            r2 = _check(res, s, value != want)
            if r2 == "sat":
                m = s.model()
                sg = 1 if z3.is_true(m.eval(neg, model_completion=True)) else 0
                h = m.eval(hh, model_completion=True).as_long()
                mi = m.eval(mm, model_completion=True).as_long()
                got = m.eval(value, model_completion=True)
                text = "%s%02d:%02d" % ("-" if sg else "+", h, mi)
                res["status"] = "violation"
                res["findings"].append(dict(
                    kind="contract", function="dataframe.tz_to_dt_tz", obligation="offset text parses to its offset",
                    detail="time zone text %r parses to %s seconds, the text denotes %d" % (
                        text, got, (-1 if sg else 1) * (h * 3600 + mi * 60)),
                    shape=dict(harness="lemma.tz_offset_text", sign=sg, hh=h, mm=mi), cls="lemma:tz_offset_text",
                    witness=dict(driver="py:vf.pyshim.lemma_tz:replay_tz_offset_text", args=dict(s=sg, h=h, m=mi))))
            elif r2 != "unsat":
                res["status"] = "inconclusive"
                res["inconclusive"].append("solver answered %s" % r2)
        elif r != "unsat":
            res["status"] = "inconclusive"
        s.pop()
    res["reached"] = reached
    if reached == 0 and res["status"] == "holds":
        res["status"] = "inconclusive"
        res["inconclusive"].append("no feasible path: vacuous")
    return res


def replay_tz_offset_text(s, h, m):
    import os, shutil, tempfile
    import pandas as pd
    import fastparquet
    minutes = (h * 60 + m) * (-1 if s == 1 else 1)
    if minutes == 0:
        return None, "offset zero is stored as 'UTC', not as offset text"
    tz = datetime.timezone(datetime.timedelta(minutes=minutes))
    df = pd.DataFrame({"t": pd.to_datetime(["2020-01-01 12:00", "2021-06-01 01:30"]).tz_localize("UTC").tz_convert(tz)})
    d = tempfile.mkdtemp(prefix="c01-")
    try:
        fn = os.path.join(d, "t.parq")
        fastparquet.write(fn, df)
        out = fastparquet.ParquetFile(fn).to_pandas()
        got = out["t"].dt.tz.utcoffset(None) if out["t"].dt.tz is not None else None
        if got != datetime.timedelta(minutes=minutes) or list(out["t"]) != list(df["t"]):
            return True, "a column in time zone %s comes back with utc offset %s" % (tz, got)
        return False, "time zone preserved"
    finally:
        shutil.rmtree(d, ignore_errors=True)
