"""C01 framing obligations that do not need write_column:
L1 row-group split: real writer.iter_dataframe over a frame shim - the yielded slices tile [0, n) in order.
L3 definition-level framing for pages without nulls: real writer.make_definitions (no-null branch, v1 and v2) with a
   pure-Python NumpyIO twin, and real core.skip_definition_bytes: the reader skips exactly the bytes the writer emits,
   and the block is the RLE run 'l copies of level 1' under the specification decoder.
L5 dictionary-index framing: real writer.encode_dict header vs the self-made fast path of core.read_data_page."""
import os
from typing import List

from vf.pyshim.kit import REPLAY, Seg

import fastparquet.writer as writer
import fastparquet.core as core


class _ILoc:
    def __init__(self, fr):
        self.fr = fr

    def __getitem__(self, s):
        n = self.fr.n
        a = 0 if s.start is None else s.start
        b = n if s.stop is None else s.stop
        if a < 0:
            a = max(n + a, 0)
        if b < 0:
            b = max(n + b, 0)
        a = min(a, n)
        b = min(max(b, a), n)
        return (a, b)


class _Frame:
    def __init__(self, n):
        self.n = n
        self.iloc = _ILoc(self)

    def __len__(self):
        return self.n


def _tiles(slices, n):
    pos = 0
    bad = 0
    for a, b in slices:
        bad += (a != pos)
        pos = b
    return bad == 0 and pos == n


def h_iter_dataframe_int(n: int, rgo: int) -> bool:
    """
    pre: 0 <= n <= 12 and 0 <= rgo <= 13
    post: __return__
    """
    out = list(writer.iter_dataframe(_Frame(n), rgo))
    nonempty = [s for s in out if s[1] > s[0]]
    return _tiles(nonempty, n) and (rgo == 0 or all(b - a <= rgo for a, b in out))


def replay_h_iter_dataframe_int(n, rgo):
    return _replay_offsets(n, rgo)


def h_iter_dataframe_list(n: int, offs: List[int]) -> bool:
    """
    pre: 0 <= n <= 12 and 1 <= len(offs) <= 3 and all(0 <= o <= 13 for o in offs)
    post: __return__
    """
    # an explicit list of row-group start offsets: every row is written exactly once, or the call raises
    out = list(writer.iter_dataframe(_Frame(n), list(offs)))
    return _tiles([s for s in out if s[1] > s[0]], n)


def replay_h_iter_dataframe_list(n, offs):
    return _replay_offsets(n, list(offs))


def h_iter_dataframe_list_rest(n: int, offs: List[int]) -> bool:
    """
    pre: 0 <= n <= 12 and 1 <= len(offs) <= 3 and all(0 <= o <= 13 for o in offs)
    pre: offs[0] == 0 and all(offs[i] < offs[i + 1] for i in range(len(offs) - 1))
    post: __return__
    """
    # offsets that start at 0 and increase (the documented use)
    out = list(writer.iter_dataframe(_Frame(n), list(offs)))
    return _tiles([s for s in out if s[1] > s[0]], n)


def replay_h_iter_dataframe_list_rest(n, offs):
    return _replay_offsets(n, list(offs))


def _replay_offsets(n, rgo):
    import shutil, tempfile
    import pandas as pd
    import fastparquet
    if n == 0:
        return None, "empty frame"
    df = pd.DataFrame({"a": list(range(n))})
    d = tempfile.mkdtemp(prefix="c01-")
    try:
        fn = os.path.join(d, "t.parq")
        try:
            fastparquet.write(fn, df, row_group_offsets=rgo)
        except Exception as ex:
            return False, "write raised %s" % type(ex).__name__
        out = fastparquet.ParquetFile(fn).to_pandas()
        if list(out["a"]) != list(df["a"]):
            return True, "write(row_group_offsets=%r) of %d rows reads back rows %r" % (rgo, n, list(out["a"]))
        return False, "round trip intact"
    finally:
        shutil.rmtree(d, ignore_errors=True)


# ------------------------------------------------------------------ L3: level framing without nulls ---
def _vlen(x):
    """number of bytes of the ULEB128 encoding of x >= 0 (comparisons only)"""
    n, lim = 1, 128
    while x >= lim:
        n += 1
        lim *= 128
    return n


class PyIO:
    """cencoding.NumpyIO twin for framing obligations: items are byte values or ('varint', value, nbytes) tokens;
    capacity is counted in bytes (write_byte is checked, as in the C)"""

    def __init__(self, buf):
        self.nbytes = len(buf)
        self.items = []
        self.loc = 0

    def write_byte(self, b):
        if self.loc >= self.nbytes:
            return
        self.items.append(b)
        self.loc += 1

    def put_varint(self, x):
        n = _vlen(x)
        if self.loc + n > self.nbytes:
            raise OverflowError("varint does not fit the 10-byte scratch buffer")
        self.items.append(("varint", x, n))
        self.loc += n

    def tell(self):
        return self.loc

    def so_far(self):
        return _Bytes(list(self.items), self.loc)


class _Bytes:
    def __init__(self, items, n):
        self.items, self.n = items, n

    def __len__(self):
        return self.n

    def __radd__(self, other):
        return _Bytes(list(other.items) + self.items, other.n + self.n)

    def __add__(self, other):
        if isinstance(other, Seg):
            return _Bytes(self.items + [other], self.n + len(other))
        return _Bytes(self.items + list(other.items), self.n + len(other))


class _StructLE:
    @staticmethod
    def pack(fmt, v):
        return _Bytes([("len32", v, 4)], 4)


class _CEnc:
    @staticmethod
    def encode_unsigned_varint(x, o):       # byte values of the kernel are a C11/E1 obligation; here: value + length
        o.put_varint(x)


class _Data:
    def __init__(self, n):
        self.n = n

    def __len__(self):
        return self.n


class _Seek:
    def __init__(self):
        self.pos = 0

    def seek(self, n, whence=0):
        assert whence == 1
        self.pos += n


class _NP:
    uint8 = "uint8"

    @staticmethod
    def empty(n, dtype=None):
        return [0] * n


def h_levels_no_nulls(l: int, v2: bool) -> bool:
    """
    pre: 0 <= l < 2147483648
    post: __return__
    """
    saved = (writer.NumpyIO, writer.cencoding, writer.struct, writer.np)
    writer.NumpyIO, writer.cencoding, writer.struct, writer.np = PyIO, _CEnc, _StructLE, _NP
    writer.bytes = lambda x: x
    try:
        block, out = writer.make_definitions(_Data(l), True, datapage_version=2 if v2 else 1)
    finally:
        writer.NumpyIO, writer.cencoding, writer.struct, writer.np = saved
        del writer.bytes
    items = list(block.items)
    if not v2:
        tag, n, w = items[0]
        if tag != "len32" or n != len(block) - 4:
            return False                     # the 4-byte length prefix announces the bytes that follow
        items = items[1:]
        # the self-made reader skips the block without decoding it: it must skip exactly these bytes
        s = _Seek()
        core.skip_definition_bytes(s, l)
        if s.pos != len(block):
            return False
    # specification decoder (hybrid, bit width 1): exactly one RLE run header (count l, low bit 0) + the value 1
    if len(items) != 2 or items[0][0] != "varint":
        return False
    header = items[0][1]
    return header == l * 2 and items[1] == 1 and out.n == l


class _NullData:
    """a page of n rows with NULLs: notnull() is the presence mask, data[mask] the present rows"""

    def __init__(self, n, present):
        self.n, self.present = n, present

    def __len__(self):
        return self.n

    def notnull(self):
        return _Mask(self.n)

    def __getitem__(self, mask):
        return _NullData(self.present, self.present)


class _Mask:
    def __init__(self, n):
        self.n = n

    def __len__(self):
        return self.n


def _s_encode_plain_bool(mask, se):
    # writer.convert (BOOLEAN): the mask is padded with 8 - (n % 8) zero bits and packed LSB-first, i.e. n // 8 + 1
    # bytes - a whole extra zero byte when n is a multiple of 8 (numpy pad/packbits, contract)
    return Seg("mask", mask.n // 8 + 1)


def h_levels_with_nulls(n: int, present: int, v2: bool) -> bool:
    """
    pre: 1 <= n <= 72 and 0 <= present < n
    post: __return__
    """
    # (row counts 1..72, one path per count: the run header is built with `<< 1 | 1`, which CrossHair does not model
    # on symbolic integers - the counts cover every residue modulo 8)
    from crosshair import realize
    n = realize(n)
    # a page holding NULLs: <len32> <varint(nbytes << 1 | 1)> <nbytes of packed presence bits>; the length prefix (v1)
    # announces exactly the bytes that follow it, the run header announces exactly the packed bytes, and these cover
    # all n rows
    saved = (writer.NumpyIO, writer.cencoding, writer.struct, writer.np, writer.encode_plain)
    writer.NumpyIO, writer.cencoding, writer.struct, writer.np = PyIO, _CEnc, _StructLE, _NP
    writer.encode_plain = _s_encode_plain_bool
    writer.bytes = lambda x: x
    try:
        block, out = writer.make_definitions(_NullData(n, present), False, datapage_version=2 if v2 else 1)
    finally:
        writer.NumpyIO, writer.cencoding, writer.struct, writer.np, writer.encode_plain = saved
        del writer.bytes
    items = list(block.items)
    if not v2:
        tag, announced, w = items[0]
        if tag != "len32" or announced != len(block) - 4:
            return False
        items = items[1:]
    if len(items) != 2 or items[0][0] != "varint" or not isinstance(items[1], Seg):
        return False
    header, nbytes = items[0][1], len(items[1])
    # bit-packed run: header = (groups << 1) | 1 with one group = 8 one-bit values = 1 byte
    return header == nbytes * 2 + 1 and nbytes * 8 >= n and out.n == present


def replay_h_levels_with_nulls(n, present, v2):
    """a real float column with NULLs written as one page, parsed the way the format text says: the values start
    right after the announced level bytes"""
    import shutil, struct, tempfile
    import numpy as np
    import pandas as pd
    import fastparquet
    from fastparquet import writer as w
    from fastparquet.cencoding import ThriftObject, NumpyIO
    if n >= 2:
        present = min(max(present, 1), n - 1)       # the level framing does not depend on how many rows are present;
    #                                                 one present value makes a misplaced value section observable
    vals = np.array([float(i + 1) if i < present else np.nan for i in range(n)])
    d = tempfile.mkdtemp(prefix="c02-")
    old = w.DATAPAGE_VERSION
    try:
        w.DATAPAGE_VERSION = 2 if v2 else 1
        fn = os.path.join(d, "t.parq")
        fastparquet.write(fn, pd.DataFrame({"x": vals}), has_nulls=True)
        pf = fastparquet.ParquetFile(fn)
        md = pf.row_groups[0].columns[0].meta_data
        raw = open(fn, "rb").read()
        io = NumpyIO(np.frombuffer(raw[md.data_page_offset:md.data_page_offset + md.total_compressed_size], "uint8"))
        ph = ThriftObject.from_buffer(io, "PageHeader")
        body = raw[md.data_page_offset + io.tell():md.data_page_offset + io.tell() + ph.compressed_page_size]
        if v2:
            lv = ph.data_page_header_v2.definition_levels_byte_length
            start = lv
        else:
            lv = struct.unpack("<I", body[:4])[0]
            start = 4 + lv
        got = np.frombuffer(body[start:start + 8 * present], dtype="<f8").tolist()
        want = [float(i + 1) for i in range(present)]
        if got != want:
            return True, "page of %d rows (%d present): the announced %d level bytes are followed by %r, the values " \
                         "written are %r" % (n, present, lv, got[:3], want[:3])
        return False, "values follow the announced level bytes"
    finally:
        w.DATAPAGE_VERSION = old
        shutil.rmtree(d, ignore_errors=True)


# -------------------------------------------------------------- L5: dictionary index framing ---
def h_dict_index_framing(n: int, wbytes: int) -> bool:
    """
    pre: 0 <= n < 2147483648 and wbytes in (1, 2, 4)
    post: __return__
    """
    # writer: encode_dict emits <width byte><varint(((n+7)//8)<<1|1)> followed by n*wbytes index bytes.
    # self-made reader (core.read_data_page): num = (varint >> 1) * 8 items, io.read(num*width//8) (clamped to what
    # is left), keeps the first n.  So the header must announce at least n items and a whole number of groups.
    class _Vals:
        class dtype:
            itemsize = wbytes

        def tobytes(self):
            return Seg("idx", n * wbytes)

    class _D:
        values = _Vals()

        def __len__(self):
            return n
    saved = (writer.NumpyIO, writer.cencoding, writer.np)
    writer.NumpyIO, writer.cencoding, writer.np = PyIO, _CEnc, _NP
    writer.bytes = lambda x: x
    try:
        out = writer.encode_dict(_D(), None)
    finally:
        writer.NumpyIO, writer.cencoding, writer.np = saved
        del writer.bytes
    items = out.items
    if len(items) != 3 or items[0] != wbytes * 8 or items[1][0] != "varint" or out.n != 1 + items[1][2] + n * wbytes:
        return False
    header = items[1][1]
    groups = (n + 7) // 8
    return header == groups * 2 + 1 and groups * 8 >= n and (groups == 0 or (groups - 1) * 8 < n)


def replay_h_dict_index_framing(n, wbytes):
    return None, "no concrete driver"
