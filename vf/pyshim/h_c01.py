"""C01 framing obligations that do not need write_column:
L1 row-group split: real writer.iter_dataframe over a frame shim - the yielded slices tile [0, n) in order.
L3 definition-level framing for pages without nulls: real writer.make_definitions (no-null branch, v1 and v2) with a
   pure-Python NumpyIO twin, and real core.skip_definition_bytes: the reader skips exactly the bytes the writer emits,
   and the block is the RLE run 'l copies of level 1' under the specification decoder.
L5 dictionary-index framing: real writer.encode_dict header vs the self-made fast path of core.read_data_page."""
import os
from typing import List

from vf.pyshim.kit import REPLAY, Seg

import fastparquet.writer as writer
import fastparquet.core as core


class _ILoc:
    def __init__(self, fr):
        self.fr = fr

    def __getitem__(self, s):
        n = self.fr.n
        a = 0 if s.start is None else s.start
        b = n if s.stop is None else s.stop
        if a < 0:
            a = max(n + a, 0)
        if b < 0:
            b = max(n + b, 0)
        a = min(a, n)
        b = min(max(b, a), n)
        return (a, b)


class _Frame:
    def __init__(self, n):
        self.n = n
        self.iloc = _ILoc(self)

    def __len__(self):
        return self.n


def _tiles(slices, n):
    pos = 0
    bad = 0
    for a, b in slices:
        bad += (a != pos)
        pos = b
    return bad == 0 and pos == n


def h_iter_dataframe_int(n: int, rgo: int) -> bool:
    """
    pre: 0 <= n <= 12 and 0 <= rgo <= 13
    post: __return__
    """
    out = list(writer.iter_dataframe(_Frame(n), rgo))
    nonempty = [s for s in out if s[1] > s[0]]
    return _tiles(nonempty, n) and (rgo == 0 or all(b - a <= rgo for a, b in out))


def replay_h_iter_dataframe_int(n, rgo):
    return _replay_offsets(n, rgo)


def h_iter_dataframe_list(n: int, offs: List[int]) -> bool:
    """
    pre: 0 <= n <= 12 and 1 <= len(offs) <= 3 and all(0 <= o <= 13 for o in offs)
    post: __return__
    """
    # an explicit list of row-group start offsets: every row is written exactly once, or the call raises
    out = list(writer.iter_dataframe(_Frame(n), list(offs)))
    return _tiles([s for s in out if s[1] > s[0]], n)


def replay_h_iter_dataframe_list(n, offs):
    return _replay_offsets(n, list(offs))


def h_iter_dataframe_list_rest(n: int, offs: List[int]) -> bool:
    """
    pre: 0 <= n <= 12 and 1 <= len(offs) <= 3 and all(0 <= o <= 13 for o in offs)
    pre: offs[0] == 0 and all(offs[i] < offs[i + 1] for i in range(len(offs) - 1))
    post: __return__
    """
    # offsets that start at 0 and increase (the documented use)
    out = list(writer.iter_dataframe(_Frame(n), list(offs)))
    return _tiles([s for s in out if s[1] > s[0]], n)


def replay_h_iter_dataframe_list_rest(n, offs):
    return _replay_offsets(n, list(offs))


def _replay_offsets(n, rgo):
    import shutil, tempfile
    import pandas as pd
    import fastparquet
    if n == 0:
        return None, "empty frame"
    df = pd.DataFrame({"a": list(range(n))})
    d = tempfile.mkdtemp(prefix="c01-")
    try:
        fn = os.path.join(d, "t.parq")
        try:
            fastparquet.write(fn, df, row_group_offsets=rgo)
        except Exception as ex:
            return False, "write raised %s" % type(ex).__name__
        out = fastparquet.ParquetFile(fn).to_pandas()
        if list(out["a"]) != list(df["a"]):
            return True, "write(row_group_offsets=%r) of %d rows reads back rows %r" % (rgo, n, list(out["a"]))
        return False, "round trip intact"
    finally:
        shutil.rmtree(d, ignore_errors=True)


# ------------------------------------------------------------------ L3: level framing without nulls ---
def _vlen(x):
    """number of bytes of the ULEB128 encoding of x >= 0 (comparisons only)"""
    n, lim = 1, 128
    while x >= lim:
        n += 1
        lim *= 128
    return n


class PyIO:
    """cencoding.NumpyIO twin for framing obligations: items are byte values or ('varint', value, nbytes) tokens;
    capacity is counted in bytes (write_byte is checked, as in the C)"""

    def __init__(self, buf):
        self.nbytes = len(buf)
        self.items = []
        self.loc = 0

    def write_byte(self, b):
        if self.loc >= self.nbytes:
            return
        self.items.append(b)
        self.loc += 1

    def put_varint(self, x):
        n = _vlen(x)
        if self.loc + n > self.nbytes:
            raise OverflowError("varint does not fit the 10-byte scratch buffer")
        self.items.append(("varint", x, n))
        self.loc += n

    def tell(self):
        return self.loc

    def so_far(self):
        return _Bytes(list(self.items), self.loc)


class _Bytes:
    def __init__(self, items, n):
        self.items, self.n = items, n

    def __len__(self):
        return self.n

    def __radd__(self, other):
        return _Bytes(list(other.items) + self.items, other.n + self.n)

    def __add__(self, other):
        if isinstance(other, Seg):
            return _Bytes(self.items + [other], self.n + len(other))
        return _Bytes(self.items + list(other.items), self.n + len(other))


class _StructLE:
    @staticmethod
    def pack(fmt, v):
        return _Bytes([("len32", v, 4)], 4)


class _CEnc:
    @staticmethod
    def encode_unsigned_varint(x, o):       # byte values of the kernel are a C11/E1 obligation; here: value + length
        o.put_varint(x)


class _Data:
    def __init__(self, n):
        self.n = n

    def __len__(self):
        return self.n


class _Seek:
    def __init__(self):
        self.pos = 0

    def seek(self, n, whence=0):
        assert whence == 1
        self.pos += n


class _NP:
    uint8 = "uint8"

    @staticmethod
    def empty(n, dtype=None):
        return [0] * n


def h_levels_no_nulls(l: int, v2: bool) -> bool:
    """
    pre: 0 <= l < 2147483648
    post: __return__
    """
    saved = (writer.NumpyIO, writer.cencoding, writer.struct, writer.np)
    writer.NumpyIO, writer.cencoding, writer.struct, writer.np = PyIO, _CEnc, _StructLE, _NP
    writer.bytes = lambda x: x
    try:
        block, out = writer.make_definitions(_Data(l), True, datapage_version=2 if v2 else 1)
    finally:
        writer.NumpyIO, writer.cencoding, writer.struct, writer.np = saved
        del writer.bytes
    items = list(block.items)
    if not v2:
        tag, n, w = items[0]
        if tag != "len32" or n != len(block) - 4:
            return False                     # the 4-byte length prefix announces the bytes that follow
        items = items[1:]
        # the self-made reader skips the block without decoding it: it must skip exactly these bytes
        s = _Seek()
        core.skip_definition_bytes(s, l)
        if s.pos != len(block):
            return False
    # specification decoder (hybrid, bit width 1): exactly one RLE run header (count l, low bit 0) + the value 1
    if len(items) != 2 or items[0][0] != "varint":
        return False
    header = items[0][1]
    return header == l * 2 and items[1] == 1 and out.n == l


# -------------------------------------------------------------- L5: dictionary index framing ---
def h_dict_index_framing(n: int, wbytes: int) -> bool:
    """
    pre: 0 <= n < 2147483648 and wbytes in (1, 2, 4)
    post: __return__
    """
    # writer: encode_dict emits <width byte><varint(((n+7)//8)<<1|1)> followed by n*wbytes index bytes.
    # self-made reader (core.read_data_page): num = (varint >> 1) * 8 items, io.read(num*width//8) (clamped to what
    # is left), keeps the first n.  So the header must announce at least n items and a whole number of groups.
    class _Vals:
        class dtype:
            itemsize = wbytes

        def tobytes(self):
            return Seg("idx", n * wbytes)

    class _D:
        values = _Vals()

        def __len__(self):
            return n
    saved = (writer.NumpyIO, writer.cencoding, writer.np)
    writer.NumpyIO, writer.cencoding, writer.np = PyIO, _CEnc, _NP
    writer.bytes = lambda x: x
    try:
        out = writer.encode_dict(_D(), None)
    finally:
        writer.NumpyIO, writer.cencoding, writer.np = saved
        del writer.bytes
    items = out.items
    if len(items) != 3 or items[0] != wbytes * 8 or items[1][0] != "varint" or out.n != 1 + items[1][2] + n * wbytes:
        return False
    header = items[1][1]
    groups = (n + 7) // 8
    return header == groups * 2 + 1 and groups * 8 >= n and (groups == 0 or (groups - 1) * 8 < n)


def replay_h_dict_index_framing(n, wbytes):
    return None, "no concrete driver"
