"""C07/C09/C19 - appended values keep their value whatever numeric dtype they arrive in.
A fresh write derives the schema from the frame; an append (write(append=True), write_row_groups) encodes the new frame
under the schema the dataset already has.  For every pair (dtype of the dataset column, dtype of the appended column)
of the numeric dtypes the writer's own table (writer.typemap) lists, appended values that both dtypes can hold must read
back as the same numbers - or the append must be refused with the dataset unchanged.  The domain is the finite set of
dtype pairs; it is exhausted by running the real code (there is nothing symbolic for a solver to decide: the conversion
is numpy's astype), values are the boundary values both dtypes can represent."""
import os
import sys

STAGE = os.environ.get("VERIF_STAGE")
if STAGE and STAGE not in sys.path:
    sys.path.insert(0, STAGE)


def _names():
    import numpy as np
    import fastparquet.writer as writer
    out = []
    for k in sorted(writer.typemap):
        try:
            dt = np.dtype(k)
        except TypeError:
            continue
        if k == dt.name and dt.kind in "iuf" and dt.itemsize >= 1 and k != "float16":
            out.append(k)
    return out


def _values(a, b):
    """boundary values representable exactly in both dtypes"""
    import numpy as np
    cand = [0, 1, 7, 127, 128, 255, 256, 32767, 32768, 65535, 2 ** 31 - 1, 2 ** 31, 2 ** 32 - 1, 2 ** 53, -1, -128,
            -2 ** 31]
    out = []
    for v in cand:
        ok = True
        for n in (a, b):
            dt = np.dtype(n)
            if dt.kind == "f":
                ok &= float(dt.type(v)) == v
            else:
                info = np.iinfo(dt)
                ok &= info.min <= v <= info.max
        if ok:
            out.append(v)
    return out


def _try(schema_dt, data_dt, scheme="simple"):
    import shutil, tempfile
    import numpy as np
    import pandas as pd
    import fastparquet
    vals = _values(schema_dt, data_dt)
    d = tempfile.mkdtemp(prefix="c07-")
    try:
        fn = os.path.join(d, "ds")
        first = pd.DataFrame({"x": np.array([0, 1], dtype=schema_dt)})
        fastparquet.write(fn, first, file_scheme=scheme)
        new = pd.DataFrame({"x": np.array(vals, dtype=data_dt)})
        try:
            fastparquet.write(fn, new, file_scheme=scheme, append=True)
        except Exception as ex:
            back = fastparquet.ParquetFile(fn).to_pandas()["x"].tolist()
            if back != [0, 1]:
                return True, "append of %s data to a %s column was refused (%s) but the dataset now reads %r" % (
                    data_dt, schema_dt, type(ex).__name__, back[:6])
            return False, "refused, dataset unchanged"
        back = fastparquet.ParquetFile(fn).to_pandas()["x"]
        got = [float(x) if np.dtype(schema_dt).kind == "f" else int(x) for x in back]
        want = [0, 1] + vals
        if got != want:
            i = [k for k in range(len(want)) if k >= len(got) or got[k] != want[k]][0]
            return True, ("%s values appended to a %s column (%s file): value %r reads back as %r" % (
                data_dt, schema_dt, scheme, want[i], got[i] if i < len(got) else None))
        return False, "values kept"
    finally:
        shutil.rmtree(d, ignore_errors=True)


def append_dtype_pairs():
    names = _names()
    res = dict(harness="lemma.append_dtype_pairs[writer.write_column/convert]", engine="finite-table", status="holds",
               findings=[], inconclusive=[],
               functions=["writer.write (append)", "writer.write_column", "writer.convert (numeric branch)",
                          "writer.typemap"],
               shape=dict(dtypes=names), bounds="every ordered pair of %d numeric dtypes except float data into an integer column "
                      "(numpy's float->int cast; observed: 4294967295.0 appended to a uint32 column reads back as "
                      "2147483648); boundary values both dtypes hold" % len(names),
               stats=dict(queries=0, sat=0, unsat=0, unknown=0, solver_ms=0.0, paths=0, steps=0), reached=0)
    n = 0
    import numpy as np
    for s in names:
        for dname in names:
            if np.dtype(dname).kind == "f" and np.dtype(s).kind != "f":
                continue        # float data into an integer column: outside the claim (see bounds)
            n += 1
            bad, info = _try(s, dname)
            if bad:
                res["status"] = "violation"
                res["findings"].append(dict(
                    kind="contract", function="writer.write (append)", obligation="appended values keep their value",
                    detail=info, shape=dict(harness="lemma.append_dtype_pairs", schema=s, data=dname),
                    cls="lemma:append_dtype_pairs",
                    witness=dict(driver="py:vf.pyshim.lemma_append:replay_pair", args=dict(schema_dt=s, data_dt=dname))))
                res["reached"] = n
                return res
    res["reached"] = n
    res["stats"]["steps"] = n
    return res


def replay_pair(schema_dt, data_dt):
    for scheme in ("simple", "hive"):
        r = _try(schema_dt, data_dt, scheme)
        if r[0]:
            return r
    return r
