"""C05 - row-group pruning is sound.  Real functions: api.filter_val, filter_in, filter_not_in, _handle_np_array,
filter_out_stats, filter_out_cats, filter_row_groups.  Symbolic: bounds (possibly absent), null counts, filter
constants, operator index, a witness row.  Oracle: a row that satisfies the predicate is never in a pruned group."""
import os
from typing import List, Optional

from vf.pyshim.kit import OPS, row_pred, NPShim, Token, SchemaShim, REPLAY

import fastparquet.api as api
from fastparquet import parquet_thrift

SLEN = int(os.environ.get("VERIF_SLEN", "1"))       # bound on symbolic string lengths (quick 1, thorough 2)

if not REPLAY:      # the replay drivers below use the unpatched real API
    api.np = NPShim                                     # searchsorted = bisect; ndarray = never
    api.ensure_bytes = lambda b: b                      # Token passes through
    api.encoding = type("enc", (), {"read_plain": staticmethod(lambda b, t, n, stat=False: b.value)})
    api.converted_types = type("ct", (), {"convert": staticmethod(lambda v, se: v)})


# ------------------------------------------------------------------ filter_val --
def h_filter_val_int(op_i: int, val: int, vmin: Optional[int], vmax: Optional[int], x: int) -> bool:
    """
    pre: 0 <= op_i < 7
    pre: vmin is None or vmin <= x
    pre: vmax is None or x <= vmax
    post: __return__
    """
    op = OPS[op_i]
    if not row_pred(op, x, val):
        return True
    return not api.filter_val(op, val, vmin, vmax)


def replay_h_filter_val_int(op_i, val, vmin, vmax, x):
    return _replay_stats_file([("x", OPS[op_i], val)], x, vmin, vmax)


def h_filter_val_str(op_i: int, val: str, vmin: Optional[str], vmax: Optional[str], x: str) -> bool:
    """
    pre: 0 <= op_i < 7
    pre: len(val) <= SLEN and len(x) <= SLEN
    pre: vmin is None or (len(vmin) <= SLEN and vmin <= x)
    pre: vmax is None or (len(vmax) <= SLEN and x <= vmax)
    pre: chr(0) not in val and chr(0) not in x
    pre: (vmin is None or chr(0) not in vmin) and (vmax is None or chr(0) not in vmax)
    post: __return__
    """
    op = OPS[op_i]
    if not row_pred(op, x, val):
        return True
    return not api.filter_val(op, val, vmin, vmax)


def replay_h_filter_val_str(op_i, val, vmin, vmax, x):
    return _replay_stats_file([("x", OPS[op_i], val)], x, vmin, vmax)


# ------------------------------------------------------------------- filter_in --
def h_filter_in_int(values: List[int], vmin: Optional[int], vmax: Optional[int], x: int) -> bool:
    """
    pre: len(values) <= 3
    pre: vmin is None or vmin <= x
    pre: vmax is None or x <= vmax
    post: __return__
    """
    if x not in values:
        return True
    return not api.filter_val("in", values, vmin, vmax)


def replay_h_filter_in_int(values, vmin, vmax, x):
    return _replay_stats_file([("x", "in", values)], x, vmin, vmax)


def h_filter_not_in_int(values: List[int], vmin: Optional[int], vmax: Optional[int], x: int) -> bool:
    """
    pre: len(values) <= 3
    pre: vmin is None or vmin <= x
    pre: vmax is None or x <= vmax
    post: __return__
    """
    if x in values:
        return True
    return not api.filter_val("not in", values, vmin, vmax)


def replay_h_filter_not_in_int(values, vmin, vmax, x):
    return _replay_stats_file([("x", "not in", values)], x, vmin, vmax)


def h_filter_not_in_int_rest(values: List[int], vmin: Optional[int], vmax: Optional[int], x: int) -> bool:
    """
    pre: len(values) <= 3
    pre: vmin is None or vmin <= x
    pre: vmax is None or x <= vmax
    pre: not ((vmin in values or vmax in values) and vmin != vmax)
    post: __return__
    """
    # same obligation outside the region of known finding P1 (a chunk bound listed in `values` while min != max)
    if x in values:
        return True
    return not api.filter_val("not in", values, vmin, vmax)


def replay_h_filter_not_in_int_rest(values, vmin, vmax, x):
    return _replay_stats_file([("x", "not in", values)], x, vmin, vmax)


def h_filter_in_str(values: List[str], vmin: Optional[str], vmax: Optional[str], x: str) -> bool:
    """
    pre: len(values) <= 2 and all(len(v) <= 1 for v in values) and len(x) <= 1
    pre: vmin is None or (len(vmin) <= 1 and vmin <= x)
    pre: vmax is None or (len(vmax) <= 1 and x <= vmax)
    pre: all(chr(0) not in v for v in values) and chr(0) not in x
    pre: (vmin is None or chr(0) not in vmin) and (vmax is None or chr(0) not in vmax)
    post: __return__
    """
    # NUL excluded: numpy/pandas string arrays drop trailing NULs, so 'a' + NUL and 'a' are one value to the real reader
    if x not in values:
        return True
    return not api.filter_val("in", values, vmin, vmax)


def replay_h_filter_in_str(values, vmin, vmax, x):
    return _replay_stats_file([("x", "in", values)], x, vmin, vmax)


# ------------------------------------------------------------ filter_out_stats --
def _mk_rg(num_rows, cols):
    """cols: list of (name, has_stats, nulls, vmin, vmax) -> real RowGroup ThriftObject holding symbolic values"""
    chunks = []
    for name, has_stats, nulls, vmin, vmax in cols:
        st = None
        if has_stats:
            st = parquet_thrift.Statistics(null_count=nulls,
                                           max=None if vmax is None else Token(vmax),
                                           min=None if vmin is None else Token(vmin))
        md = parquet_thrift.ColumnMetaData(type=2, path_in_schema=[name], num_values=num_rows, statistics=st)
        chunks.append(parquet_thrift.ColumnChunk(meta_data=md, file_path=None))
    return parquet_thrift.RowGroup(num_rows=num_rows, columns=chunks)


def h_stats_clause(num_rows: int, has_stats: bool, nulls: int, vmin: Optional[int], vmax: Optional[int],
                   x: Optional[int], on_a: bool, op_i: int, v: int) -> bool:
    """
    pre: 1 <= num_rows and 0 <= nulls <= num_rows and 0 <= op_i < 7
    pre: x is not None or nulls >= 1
    pre: x is None or (nulls < num_rows and (vmin is None or vmin <= x) and (vmax is None or x <= vmax))
    post: __return__
    """
    # one clause on column a (with statistics) or on column b (without); witness row has a = x (None = NULL)
    rg = _mk_rg(num_rows, [("a", has_stats, nulls, vmin, vmax), ("b", False, 0, None, None)])
    op = OPS[op_i]
    if on_a:
        sat = x is not None and row_pred(op, x, v)
        filters = [("a", op, v)]
    else:
        sat = True          # the b cell of the witness row is chosen to satisfy the clause
        filters = [("b", op, v)]
    if not sat:
        return True
    return not api.filter_out_stats(rg, filters, SchemaShim())


def replay_h_stats_clause(num_rows, has_stats, nulls, vmin, vmax, x, on_a, op_i, v):
    if on_a and x is not None:
        return _replay_stats_file([("x", OPS[op_i], v)], x, vmin, vmax)
    # clause on column b (no bounds); column a holds NULLs (possibly only NULLs) and the witness row's a is x
    import tempfile, os, shutil
    import numpy as np
    import pandas as pd
    import fastparquet
    n = min(max(num_rows, 1), 50)
    k = min(nulls, n)
    a = [np.nan] * k + [float(0 if x is None else x)] * (n - k)
    b = [v + 1 if OPS[op_i] in (">", ">=", "!=") else (v - 1 if OPS[op_i] in ("<", "<=") else v)] * n
    df = pd.DataFrame({"a": a, "b": b})
    d = tempfile.mkdtemp(prefix="c05-")
    try:
        fn = os.path.join(d, "t.parq")
        fastparquet.write(fn, df, stats=True)
        filters = [("a" if on_a else "b", OPS[op_i], v)]
        out = fastparquet.ParquetFile(fn).to_pandas(filters=filters)
        want = int(sum(1 for y in (df["a"] if on_a else df["b"]) if y == y and row_pred(OPS[op_i], y, v)))
        if want and len(out) == 0:
            return True, "%d rows satisfy %r but the row group (column a: %d of %d cells NULL) was pruned" % (
                want, filters, k, n)
        return False, "rows returned"
    finally:
        shutil.rmtree(d, ignore_errors=True)


def h_stats_two_clauses(num_rows: int, min_a: int, max_a: int, xa: int, min_b: int, max_b: int, xb: int,
                        op1: int, v1: int, op2: int, v2: int) -> bool:
    """
    pre: 1 <= num_rows and 0 <= op1 < 7 and 0 <= op2 < 7
    pre: min_a <= xa <= max_a and min_b <= xb <= max_b
    post: __return__
    """
    rg = _mk_rg(num_rows, [("a", True, 0, min_a, max_a), ("b", True, 0, min_b, max_b)])
    filters = [("a", OPS[op1], v1), ("b", OPS[op2], v2)]
    if not (row_pred(OPS[op1], xa, v1) and row_pred(OPS[op2], xb, v2)):
        return True
    return not api.filter_out_stats(rg, filters, SchemaShim())


def replay_h_stats_two_clauses(num_rows, min_a, max_a, xa, min_b, max_b, xb, op1, v1, op2, v2):
    filters = [("a", OPS[op1], v1), ("b", OPS[op2], v2)]
    return _replay_two_columns([xa, min_a, max_a], [xb, min_b, max_b], filters, xa, xb)


def _replay_two_columns(avals, bvals, filters, xa, xb, **wkw):
    import tempfile, os, shutil
    import pandas as pd
    import fastparquet
    df = pd.DataFrame({"a": avals, "b": bvals})
    d = tempfile.mkdtemp(prefix="c05-")
    try:
        fn = os.path.join(d, "t.parq")
        fastparquet.write(fn, df, stats=True, **wkw)
        try:
            out = fastparquet.ParquetFile(fn).to_pandas(filters=filters)
        except Exception as ex:
            return True, "filtered read raises %s" % type(ex).__name__
        present = ((out["a"] == xa) & (out["b"] == xb)).any() if len(out) else False
        if not present:
            return True, "row (a=%r, b=%r) satisfies %r but was pruned" % (xa, xb, filters)
        return False, "row returned"
    finally:
        shutil.rmtree(d, ignore_errors=True)


def h_stats_two_columns_partial(num_rows: int, min_a: int, max_a: int, xa: int, has_b: bool, lo_b: bool, hi_b: bool,
                                min_b: int, max_b: int, xb: int, op1: int, v1: int, op2: int, v2: int) -> bool:
    """
    pre: 1 <= num_rows and 0 <= op1 < 7 and 0 <= op2 < 7
    pre: min_a <= xa <= max_a and min_b <= xb <= max_b
    post: __return__
    """
    # column a carries min/max; column b carries a Statistics object with only some (or none) of its bounds, or no
    # statistics at all - the shapes fastparquet itself writes for columns outside stats=[...] / non-numeric columns
    rg = _mk_rg(num_rows, [("a", True, 0, min_a, max_a),
                           ("b", has_b, 0, min_b if lo_b else None, max_b if hi_b else None)])
    filters = [("a", OPS[op1], v1), ("b", OPS[op2], v2)]
    if not (row_pred(OPS[op1], xa, v1) and row_pred(OPS[op2], xb, v2)):
        return True
    return not api.filter_out_stats(rg, filters, SchemaShim())


def h_stats_b_without_bounds(num_rows: int, min_a: int, max_a: int, xa: int, xb: int, op1: int, v1: int, op2: int,
                             v2: int, swap: bool) -> bool:
    """
    pre: 1 <= num_rows and 0 <= op1 < 7 and 0 <= op2 < 7 and min_a <= xa <= max_a
    post: __return__
    """
    # column a with min/max, column b with a Statistics object that has no bounds (either column order)
    cols = [("a", True, 0, min_a, max_a), ("b", True, 0, None, None)]
    if swap:
        cols.reverse()
    rg = _mk_rg(num_rows, cols)
    filters = [("a", OPS[op1], v1), ("b", OPS[op2], v2)]
    if not (row_pred(OPS[op1], xa, v1) and row_pred(OPS[op2], xb, v2)):
        return True
    return not api.filter_out_stats(rg, filters, SchemaShim())


def replay_h_stats_b_without_bounds(num_rows, min_a, max_a, xa, xb, op1, v1, op2, v2, swap):
    return replay_h_stats_two_columns_partial(num_rows, min_a, max_a, xa, True, False, False, xb, xb, xb, op1, v1,
                                              op2, v2)


def replay_h_stats_two_columns_partial(num_rows, min_a, max_a, xa, has_b, lo_b, hi_b, min_b, max_b, xb, op1, v1,
                                       op2, v2):
    """real file: column a with statistics, column b written without min/max (stats=['a'])"""
    import tempfile, os, shutil
    import pandas as pd
    import fastparquet
    if has_b and (lo_b or hi_b):
        return None, "partial bounds on b cannot be produced by the concrete driver"
    df = pd.DataFrame({"a": [xa, min_a, max_a], "b": [xb, min_b, max_b]})
    d = tempfile.mkdtemp(prefix="c05-")
    try:
        fn = os.path.join(d, "t.parq")
        fastparquet.write(fn, df, stats=["a"])
        filters = [("a", OPS[op1], v1), ("b", OPS[op2], v2)]
        try:
            out = fastparquet.ParquetFile(fn).to_pandas(filters=filters)
        except Exception as ex:
            return True, "filtered read raises %s: %s" % (type(ex).__name__, str(ex)[:80])
        present = ((out["a"] == xa) & (out["b"] == xb)).any() if len(out) else False
        if not present:
            return True, "row (a=%r, b=%r) satisfies %r but the row group was pruned (a has min/max statistics, b " \
                         "has none)" % (xa, xb, filters)
        return False, "row returned"
    finally:
        shutil.rmtree(d, ignore_errors=True)


def h_stats_in_clause(num_rows: int, nulls: int, vmin: Optional[int], vmax: Optional[int], x: int,
                      values: List[int]) -> bool:
    """
    pre: 1 <= num_rows and 0 <= nulls < num_rows and len(values) <= 2
    pre: (vmin is None or vmin <= x) and (vmax is None or x <= vmax)
    post: __return__
    """
    rg = _mk_rg(num_rows, [("a", True, nulls, vmin, vmax)])
    if x not in values:
        return True
    return not api.filter_out_stats(rg, [("a", "in", values)], SchemaShim())


def replay_h_stats_in_clause(num_rows, nulls, vmin, vmax, x, values):
    return _replay_stats_file([("x", "in", values)], x, vmin, vmax)


def h_stats_not_in_clause(num_rows: int, nulls: int, vmin: Optional[int], vmax: Optional[int], x: int,
                          values: List[int]) -> bool:
    """
    pre: 1 <= num_rows and 0 <= nulls < num_rows and len(values) <= 2
    pre: (vmin is None or vmin <= x) and (vmax is None or x <= vmax)
    post: __return__
    """
    rg = _mk_rg(num_rows, [("a", True, nulls, vmin, vmax)])
    if x in values:
        return True
    return not api.filter_out_stats(rg, [("a", "not in", values)], SchemaShim())


def replay_h_stats_not_in_clause(num_rows, nulls, vmin, vmax, x, values):
    return _replay_stats_file([("x", "not in", values)], x, vmin, vmax)


def h_stats_not_in_clause_rest(num_rows: int, nulls: int, vmin: Optional[int], vmax: Optional[int], x: int,
                               values: List[int]) -> bool:
    """
    pre: 1 <= num_rows and 0 <= nulls < num_rows and len(values) <= 2
    pre: (vmin is None or vmin <= x) and (vmax is None or x <= vmax)
    pre: not ((vmin in values or vmax in values) and vmin != vmax)
    post: __return__
    """
    rg = _mk_rg(num_rows, [("a", True, nulls, vmin, vmax)])
    if x in values:
        return True
    return not api.filter_out_stats(rg, [("a", "not in", values)], SchemaShim())


def replay_h_stats_not_in_clause_rest(num_rows, nulls, vmin, vmax, x, values):
    return _replay_stats_file([("x", "not in", values)], x, vmin, vmax)


# ------------------------------------------------------------- filter_out_cats --
class _Pairs:
    """stands for util.ex_from_sep('/'): findall(path) gives the (key, value) pairs of the hive path"""

    def findall(self, path):
        return path.pairs


class _Path:
    def __init__(self, pairs):
        self.pairs = pairs


def _part_rg(num_rows, pairs, stats=None):
    md = parquet_thrift.ColumnMetaData(type=2, path_in_schema=["a"], num_values=num_rows, statistics=stats)
    return parquet_thrift.RowGroup(num_rows=num_rows,
                                   columns=[parquet_thrift.ColumnChunk(meta_data=md, file_path=_Path(pairs))])


if not REPLAY:
    api.ex_from_sep = lambda sep: _Pairs()
    api.val_to_num = lambda v, meta=None: v       # partition text -> value typing is C08's subject


def h_cats_clause(p: int, q: int, c1: int, op1: int, v1: int) -> bool:
    """
    pre: 0 <= c1 <= 2 and 0 <= op1 < 7
    post: __return__
    """
    # every row of the group has partition values key p = p, key q = q; column 'a' is a data column
    rg = _part_rg(5, [("p", p), ("q", q)])
    row = {"p": p, "q": q}
    c = ("p", "q", "a")[c1]
    filters = [(c, OPS[op1], v1)]
    if c in row and not row_pred(OPS[op1], row[c], v1):
        return True
    return not api.filter_out_cats(rg, filters, {})


def _pick(v, lo, hi):
    """the same number as a plain int, one path per value (explicit branching: the values are enumerated
    systematically instead of being drawn from solver models)"""
    for k in range(lo, hi + 1):
        if v == k:
            return k
    raise ValueError(v)


LABELS = [0, 7, -12, 2147483648, 9007199254740993, -9007199254740993, 9223372036854775807, -9223372036854775808,
          1234567890123456789]


def h_cats_label_typing(i: int, op1: int, d: int) -> bool:
    """
    pre: 0 <= i < 9 and 0 <= op1 < 7 and -1 <= d <= 1
    post: __return__
    """
    # the partition label is directory TEXT; with the real text -> number typing (util.val_to_num, no stub) a filter
    # constant next to the label's own value (d = -1, 0, +1) prunes the group only if the value really fails it -
    # including labels beyond 2**53, where a detour through floating point would merge neighbours
    import fastparquet.util as util
    i, op1, d = _pick(i, 0, 8), _pick(op1, 0, 6), _pick(d, -1, 1)
    v = LABELS[i]
    const = v + d
    rg = _part_rg(5, [("p", str(v))])
    saved = api.val_to_num
    api.val_to_num = util.val_to_num
    try:
        pruned = api.filter_out_cats(rg, [("p", OPS[op1], const)], {})
    finally:
        api.val_to_num = saved
    if not row_pred(OPS[op1], v, const):
        return True
    return not pruned


def replay_h_cats_label_typing(i, op1, d):
    import tempfile, os, shutil
    import pandas as pd
    import fastparquet
    v = LABELS[i]
    const = v + d
    if not (-2 ** 63 <= const < 2 ** 63):
        return None, "filter constant outside int64"
    dd = tempfile.mkdtemp(prefix="c05-")
    try:
        dn = os.path.join(dd, "ds")
        fastparquet.write(dn, pd.DataFrame({"p": [v, v], "a": [1, 2]}), file_scheme="hive", partition_on=["p"])
        pf = fastparquet.ParquetFile(dn)
        flt = [("p", OPS[op1], const)]
        n = len(pf.to_pandas(filters=flt))
        if n != 2:
            return True, "partition p=%d: filter %r keeps %d of the 2 rows that satisfy it" % (v, flt, n)
        return False, "kept"
    finally:
        shutil.rmtree(dd, ignore_errors=True)


BOOL_CONSTS = [True, False, 1, 0, 1.0, 0.0, "True", "False"]
BOOL_META = {"field_name": "p", "name": "p", "pandas_type": "bool", "numpy_type": "bool", "metadata": None}


def h_cats_bool_label(flag: bool, ic: int, op1: int) -> bool:
    """
    pre: 0 <= ic < 8 and 0 <= op1 < 6
    post: __return__
    """
    # a boolean partition column recorded in the pandas metadata: the directory label is the text "True" / "False";
    # the filter constant may be the boolean, the number that equals it (1 == True) or the label's own text.  With the
    # real typing of both sides (util.val_to_num / val_from_meta, no stub) the group is pruned only if its value
    # really fails the clause
    import fastparquet.util as util
    ic, op1 = _pick(ic, 0, 7), _pick(op1, 0, 5)
    const = BOOL_CONSTS[ic]
    rg = _part_rg(5, [("p", "True" if flag else "False")])
    saved = api.val_to_num
    api.val_to_num = util.val_to_num
    try:
        pruned = api.filter_out_cats(rg, [("p", OPS[op1], const)], {"p": BOOL_META})
    finally:
        api.val_to_num = saved
    meant = (const == "True") if isinstance(const, str) else const
    if not row_pred(OPS[op1], flag, meant):
        return True
    return not pruned


def replay_h_cats_bool_label(flag, ic, op1):
    import tempfile, os, shutil
    import pandas as pd
    import fastparquet
    const = BOOL_CONSTS[ic]
    dd = tempfile.mkdtemp(prefix="c05-")
    try:
        dn = os.path.join(dd, "ds")
        fastparquet.write(dn, pd.DataFrame({"p": [flag, flag, not flag], "a": [1, 2, 3]}), file_scheme="hive",
                          partition_on=["p"])
        pf = fastparquet.ParquetFile(dn)
        flt = [("p", OPS[op1], const)]
        out = pf.to_pandas(filters=flt)
        kept = sorted(int(x) for x in out["a"])
        if not (1 in kept and 2 in kept):
            return True, "partition p=%r: filter %r keeps rows a=%r; rows a=1, a=2 satisfy it" % (flag, flt, kept)
        return False, "kept"
    finally:
        shutil.rmtree(dd, ignore_errors=True)


def h_cats_two_clauses(p: int, q: int, op1: int, v1: int, op2: int, v2: int, swap: bool) -> bool:
    """
    pre: 0 <= op1 < 7 and 0 <= op2 < 7
    post: __return__
    """
    rg = _part_rg(5, [("p", p), ("q", q)])
    filters = [("p", OPS[op1], v1), ("q", OPS[op2], v2)]
    if swap:
        filters.reverse()
    if not (row_pred(OPS[op1], p, v1) and row_pred(OPS[op2], q, v2)):
        return True
    return not api.filter_out_cats(rg, filters, {})


def h_cats_same_column(p: int, op1: int, v1: int, op2: int, v2: int) -> bool:
    """
    pre: 0 <= op1 < 7 and 0 <= op2 < 7
    post: __return__
    """
    # two conditions on the SAME partition column in one AND group (a range): the group is pruned whenever its value
    # fails either of them - and never when it satisfies both
    rg = _part_rg(5, [("p", p)])
    filters = [("p", OPS[op1], v1), ("p", OPS[op2], v2)]
    pruned = api.filter_out_cats(rg, filters, {})
    ok = row_pred(OPS[op1], p, v1) and row_pred(OPS[op2], p, v2)
    return pruned == (not ok)


def replay_h_cats_same_column(p, op1, v1, op2, v2):
    import tempfile, os, shutil
    import pandas as pd
    import fastparquet
    dd = tempfile.mkdtemp(prefix="c05-")
    try:
        dn = os.path.join(dd, "ds")
        other = p + 1000
        fastparquet.write(dn, pd.DataFrame({"p": [p, p, other], "a": [1, 2, 3]}), file_scheme="hive", partition_on=["p"])
        pf = fastparquet.ParquetFile(dn)
        flt = [("p", OPS[op1], v1), ("p", OPS[op2], v2)]
        out = pf.to_pandas(filters=flt, row_filter=True)
        want = sorted(a for a, pv in ((1, p), (2, p), (3, other)) if row_pred(OPS[op1], pv, v1) and row_pred(OPS[op2], pv, v2))
        got = sorted(int(x) for x in out["a"])
        if got != want:
            return True, "filters %r on partitions p=%d / p=%d return rows a=%r, expected %r" % (flt, p, other, got, want)
        return False, "range on the partition column honoured"
    finally:
        shutil.rmtree(dd, ignore_errors=True)


class _PFcols:
    """what filter_row_groups reads from a handle"""

    def __init__(self):
        self.columns = ["a", "b"]
        self.cats = {"p": [1, 2]}
        self.row_groups = []
        self.schema = SchemaShim()
        self.partition_meta = {}
        self.file_scheme = "hive"


def h_unknown_filter_column(g0: int, g1: int, g2: int, ngroups: int, flat: bool) -> bool:
    """
    pre: 0 <= g0 <= 3 and 0 <= g1 <= 3 and 0 <= g2 <= 3 and 1 <= ngroups <= 3
    post: __return__
    """
    # filters naming a column the dataset does not have are refused (ValueError) wherever the name occurs: in a flat
    # list, or in any of the OR groups - and filters naming only existing columns are accepted
    names = ["a", "b", "p", "nosuch"]
    groups = [[(names[g], "==", 1)] for g in (g0, g1, g2)][:ngroups]
    filters = [c for grp in groups for c in grp] if flat else groups
    bad = any(names[g] == "nosuch" for g in (g0, g1, g2)[:ngroups])
    try:
        api.filter_row_groups(_PFcols(), filters)
    except ValueError:
        return bad
    return not bad


def replay_h_unknown_filter_column(g0, g1, g2, ngroups, flat):
    import tempfile, os, shutil
    import pandas as pd
    import fastparquet
    names = ["a", "b", "p", "nosuch"]
    groups = [[(names[g], "==", 1)] for g in (g0, g1, g2)][:ngroups]
    filters = [c for grp in groups for c in grp] if flat else groups
    bad = any(names[g] == "nosuch" for g in (g0, g1, g2)[:ngroups])
    dd = tempfile.mkdtemp(prefix="c05-")
    try:
        dn = os.path.join(dd, "ds")
        fastparquet.write(dn, pd.DataFrame({"p": [1, 2], "a": [1, 2], "b": [1, 1]}), file_scheme="hive", partition_on=["p"])
        pf = fastparquet.ParquetFile(dn)
        try:
            out = pf.to_pandas(filters=filters)
        except ValueError:
            return (not bad), "refused"
        if bad:
            return True, "filters %r name a column that does not exist and are accepted (%d rows returned)" % (
                filters, len(out))
        return False, "accepted"
    finally:
        shutil.rmtree(dd, ignore_errors=True)


def replay_h_cats_two_clauses(p, q, op1, v1, op2, v2, swap):
    return replay_h_cats_clause(p, q, 0, op1, v1, 1, op2, v2, 2)


def replay_h_cats_clause(p, q, c1, op1, v1, c2=0, op2=0, v2=0, nclauses=1):
    import tempfile, os, shutil
    import pandas as pd
    import fastparquet
    names = ("p", "q", "a")
    filters = [(names[c1], OPS[op1], v1), (names[c2], OPS[op2], v2)][:nclauses]
    filters = [f for f in filters if f[0] != "a"]
    if not filters:
        return None, "no partition clause"
    df = pd.DataFrame({"p": [p, p + 1], "q": [q, q], "a": [1, 2]})
    d = tempfile.mkdtemp(prefix="c05-")
    try:
        fastparquet.write(d, df, file_scheme="hive", partition_on=["p", "q"])
        out = fastparquet.ParquetFile(d).to_pandas(filters=filters)
        present = ((out["p"].astype(int) == p) & (out["q"].astype(int) == q)).any() if len(out) else False
        if not present:
            return True, "row with p=%r q=%r satisfies %r but was pruned" % (p, q, filters)
        return False, "row returned"
    finally:
        shutil.rmtree(d, ignore_errors=True)


def h_cats_in_clause(p: int, values: List[int], negate: bool) -> bool:
    """
    pre: len(values) <= 3
    post: __return__
    """
    rg = _part_rg(5, [("p", p)])
    op = "not in" if negate else "in"
    if not row_pred(op, p, values):
        return True
    return not api.filter_out_cats(rg, [("p", op, values)], {})


def replay_h_cats_in_clause(p, values, negate):
    return _replay_partition([("p", "not in" if negate else "in", list(values))], p, 0, 0, [])


TEXT_LABELS = ["007", "1", "a", "True", "2021-03-01", "1e3", ".5"]
TEXT_META = {"field_name": "p", "name": "p", "pandas_type": "unicode", "numpy_type": "object", "metadata": None}


TEXT_META_STR = dict(TEXT_META, numpy_type="str")       # what pandas >= 3 records for its default string dtype


def h_cats_in_text(il: int, io: int, negate: bool, with_meta: int, as_tuple: bool) -> bool:
    """
    pre: 0 <= il < 7 and 0 <= io < 7 and 0 <= with_meta <= 2
    post: __return__
    """
    # a TEXT partition column whose labels may look like numbers, booleans or dates, filtered with `in` / `not in` over
    # a list (or tuple) of texts, with the real label typing: the group is pruned only if its label fails the clause
    import fastparquet.util as util
    il, io, with_meta = _pick(il, 0, 6), _pick(io, 0, 6), _pick(with_meta, 0, 2)
    label, other = TEXT_LABELS[il], TEXT_LABELS[io]
    values = [other, "zz"] if negate else [label, other]
    if negate and label == other:
        return True
    vals = tuple(values) if as_tuple else values
    rg = _part_rg(5, [("p", label)])
    saved = api.val_to_num
    api.val_to_num = util.val_to_num
    try:
        pruned = api.filter_out_cats(rg, [("p", "not in" if negate else "in", vals)],
                                     [{}, {"p": TEXT_META}, {"p": TEXT_META_STR}][with_meta])
    finally:
        api.val_to_num = saved
    return not pruned


def replay_h_cats_in_text(il, io, negate, with_meta, as_tuple):
    import tempfile, os, shutil
    import pandas as pd
    import fastparquet
    label, other = TEXT_LABELS[il], TEXT_LABELS[io]
    values = [other, "zz"] if negate else [label, other]
    vals = tuple(values) if as_tuple else values
    dd = tempfile.mkdtemp(prefix="c05-")
    try:
        dn = os.path.join(dd, "ds")
        df = pd.DataFrame({"p": pd.Series([label, label, "zz"], dtype="str" if with_meta == 2 else object),
                           "a": [1, 2, 3]})
        fastparquet.write(dn, df, file_scheme="hive", partition_on=["p"])
        if not with_meta:
            # a directory tree of another writer: no partition metadata
            os.remove(os.path.join(dn, "_metadata"))
            os.remove(os.path.join(dn, "_common_metadata"))
            for dp, _, fs in os.walk(dn):
                for f in fs:
                    pf1 = fastparquet.ParquetFile(os.path.join(dp, f))
                    fastparquet.writer.update_file_custom_metadata(os.path.join(dp, f), {"pandas": None})
        pf = fastparquet.ParquetFile(dn)
        flt = [("p", "not in" if negate else "in", vals)]
        out = pf.to_pandas(filters=flt)
        kept = sorted(int(x) for x in out["a"])
        if not (1 in kept and 2 in kept):
            return True, "text partition p=%r: filter %r keeps rows a=%r; rows a=1, a=2 satisfy it" % (label, flt, kept)
        return False, "kept"
    finally:
        shutil.rmtree(dd, ignore_errors=True)


INT_META = {"field_name": "p", "name": "p", "pandas_type": "int64", "numpy_type": "int64", "metadata": None}


class _IntCast:
    """stands for numpy inside util.val_from_meta: np.dtype('int64').type(x) is the C cast - the integer itself, the
    decimal text parsed, a float truncated toward zero (documented numpy behaviour, asserted concretely in the replay)"""

    class _DT:
        def __init__(self, name):
            self.name = name

        def __eq__(self, other):
            return self.name == other

        def type(self, x):
            # not int(x): the builtin insists on a concrete result and would enumerate the values one by one
            return x.__int__() if isinstance(x, Half) else x if isinstance(x, int) else int(x)

    @classmethod
    def dtype(cls, t):
        return t if isinstance(t, cls._DT) else cls._DT(t)


class Half:
    """a float constant whose value is n/2 (exactly representable), kept in integer arithmetic so that every query
    stays linear: comparisons with integers and with other Half values are exact, int() truncates toward zero as the
    C cast does.  Registered as numbers.Real - it stands for a Python float."""

    def __init__(self, n):
        self.n = n

    def _twice(self, o):
        return o.n if isinstance(o, Half) else 2 * o

    def __eq__(self, o):
        return self.n == self._twice(o)

    def __ne__(self, o):
        return self.n != self._twice(o)

    def __lt__(self, o):
        return self.n < self._twice(o)

    def __le__(self, o):
        return self.n <= self._twice(o)

    def __gt__(self, o):
        return self.n > self._twice(o)

    def __ge__(self, o):
        return self.n >= self._twice(o)

    def __hash__(self):
        return hash(self.n)

    def __int__(self):
        return self.n // 2 if self.n >= 0 else -((-self.n) // 2)

    def __float__(self):
        return self.n / 2


import numbers as _numbers
_numbers.Real.register(Half)


def h_cats_int_label_other_kind(p: int, n: int, op1: int, with_meta: bool) -> bool:
    """
    pre: 0 <= op1 < 9 and -10**9 <= p <= 10**9 and -2 * 10**9 <= n <= 2 * 10**9
    post: __return__
    """
    # an INTEGER partition column (recorded as int64 in the pandas metadata, as the real writer does, or without
    # metadata) and a filter constant of a different but comparable kind: the float n/2.  The typing of the constant
    # and of the label is the real util.val_to_num / val_from_meta (numpy's cast stubbed by its contract; the
    # text -> int step of the label is h_cats_label_typing's subject): pruned only if the label really fails the clause
    import fastparquet.util as util
    const = Half(n)
    if op1 >= 7:
        const = [Half(n), Half(n + 2)]
    rg = _part_rg(5, [("p", p)])
    saved = api.val_to_num, util.np, util._val_to_num
    api.val_to_num, util.np, util._val_to_num = util.val_to_num, _IntCast, (lambda x: x)
    try:
        pruned = api.filter_out_cats(rg, [("p", OPS[op1], const)], {"p": INT_META} if with_meta else {})
    finally:
        api.val_to_num, util.np, util._val_to_num = saved
    if not row_pred(OPS[op1], p, const):
        return True
    return not pruned


def replay_h_cats_int_label_other_kind(p, n, op1, with_meta):
    # Half stands for any numbers.Real of value n/2: the replay tries the kinds of constant a caller can hold
    import numpy as np
    from fractions import Fraction
    kinds = [("float", float(n) / 2), ("Fraction", Fraction(n, 2))]
    if float(np.float32(n / 2)) == n / 2:
        kinds.append(("numpy.float32", np.float32(n / 2)))
    last = None
    for name, c in kinds:
        last = _replay_int_label_const(p, c, name, op1, with_meta)
        if last[0]:
            return last
    return last


def _replay_int_label_const(p, const, kind, op1, with_meta):
    import tempfile, os, shutil
    import numpy as np
    import pandas as pd
    import fastparquet
    assert int(np.dtype("int64").type(const)) == int(const)         # the stub's contract
    if op1 >= 7:
        const = [const, const + 1]
    dd = tempfile.mkdtemp(prefix="c05-")
    try:
        dn = os.path.join(dd, "ds")
        fastparquet.write(dn, pd.DataFrame({"p": [p, p, p + 1], "a": [1, 2, 3]}), file_scheme="hive",
                          partition_on=["p"])
        if not with_meta:
            os.remove(os.path.join(dn, "_metadata"))
            os.remove(os.path.join(dn, "_common_metadata"))
            for dp, _, fs in os.walk(dn):
                for f in fs:
                    fastparquet.writer.update_file_custom_metadata(os.path.join(dp, f), {"pandas": None})
        pf = fastparquet.ParquetFile(dn)
        flt = [("p", OPS[op1], const)]
        out = pf.to_pandas(filters=flt)
        kept = sorted(int(x) for x in out["a"])
        if not row_pred(OPS[op1], p, const):
            return False, "the rows of partition p=%d do not satisfy %r" % (p, flt)
        if not (1 in kept and 2 in kept):
            return True, ("integer partition p=%d (%s partition metadata): filter %r (constant of kind %s) keeps rows "
                          "a=%r; rows a=1, a=2 satisfy it" % (p, "with" if with_meta else "without", flt, kind, kept))
        return False, "kept"
    finally:
        shutil.rmtree(dd, ignore_errors=True)


# ------------------------------------------------------------ filter_row_groups --
class _PF:
    def __init__(self, rgs):
        self.row_groups = rgs
        self.columns = ["a"]
        self.cats = {"p": []}
        self.schema = SchemaShim()
        self.partition_meta = {}
        self.file_scheme = "hive"


def _two_groups(lo, hi, p, k):
    """the witness group (statistics [lo, hi] on 'a', partition value p) at position k, next to a group without
    statistics or partition path (always kept) - so order and membership are both observable"""
    st = parquet_thrift.Statistics(null_count=0, max=Token(hi), min=Token(lo))
    w = _part_rg(3, [("p", p)], st)
    md = parquet_thrift.ColumnMetaData(type=2, path_in_schema=["a"], num_values=4, statistics=None)
    other = parquet_thrift.RowGroup(num_rows=4, columns=[parquet_thrift.ColumnChunk(meta_data=md, file_path=None)])
    return [w, other] if k == 0 else [other, w]


def _kept_in_order(out, rgs, k, as_idx):
    if as_idx:
        return (out == sorted(out) and all(0 <= i <= 1 for i in out) and len(set(out)) == len(out)), k in out
    return out == [rg for rg in rgs if any(rg is o for o in out)], any(rgs[k] is o for o in out)


def h_row_groups_and(min0: int, max0: int, p0: int, k: int, xa: int,
                     opa: int, va: int, pne: bool, vp: int, nested: bool) -> bool:
    """
    pre: 0 <= k <= 1 and 0 <= opa < 7 and min0 <= xa <= max0
    post: __return__
    """
    # two row groups with statistics on 'a' and partition value p; witness row (a=xa) in group k.
    # program: flat list [A, P] (= AND) or [[A, P]]
    rgs = _two_groups(min0, max0, p0, k)
    A, P = ("a", OPS[opa], va), ("p", "!=" if pne else "==", vp)
    xp = p0
    sat = row_pred(A[1], xa, va) and row_pred(P[1], xp, vp)
    out = api.filter_row_groups(_PF(rgs), [[A, P]] if nested else [A, P])
    ordered, kept = _kept_in_order(out, rgs, k, False)
    return ordered and (kept or not sat)


def _replay_partition(filters, p, lo, hi, avals, as_idx=False):
    """real hive dataset: partition p (the witness group, column a holding lo..hi and the witness value) next to
    partition p+1000; the rows of the witness group that satisfy the filters must come back"""
    import tempfile, os, shutil
    import pandas as pd
    import fastparquet
    a = [lo, hi] + list(avals)
    p2, a2 = p + 1000, [0]
    if as_idx:
        # the second partition stands for the model's always-kept group: bounds so wide that no clause on `a` prunes
        # it, and a partition value that satisfies the partition clause
        groups0 = [filters] if filters and isinstance(filters[0][0], str) else filters
        pcl = [c for g in groups0 for c in g if c[0] == "p"]
        a2 = [-(2 ** 62), 2 ** 62]
        if pcl:
            p2 = pcl[0][2] if pcl[0][1] in ("==", "=") else pcl[0][2] + 1
            if p2 == p:
                p2 = p + 1000
    df = pd.DataFrame({"a": a + a2, "p": [p] * len(a) + [p2] * len(a2)})
    d = tempfile.mkdtemp(prefix="c05-")
    try:
        dn = os.path.join(d, "ds")
        fastparquet.write(dn, df, file_scheme="hive", partition_on=["p"], stats=True)
        try:
            pf = fastparquet.ParquetFile(dn)
            out = pf.to_pandas(filters=filters)
        except Exception as ex:
            return True, "filtered read raises %s: %s" % (type(ex).__name__, str(ex)[:60])
        if as_idx:
            # the index form of the same selection: increasing, no repeats, the same row groups
            idx = api.filter_row_groups(pf, filters, as_idx=True)
            rgs = api.filter_row_groups(pf, filters)
            same = [i for i, rg in enumerate(pf.row_groups) if any(rg is r for r in rgs)]
            if idx != sorted(set(idx)) or idx != same:
                return True, "filter_row_groups(%r, as_idx=True) on a dataset of %d row groups gives %r; the " \
                             "selected row groups are %r" % (filters, len(pf.row_groups), idx, same)

        def sat(row, grp):
            return all(row_pred(op, row[c], v) for c, op, v in grp)
        groups = [filters] if filters and isinstance(filters[0][0], str) else filters
        want = [x for x in a if any(sat({"a": x, "p": p}, g) for g in groups)]
        got = [int(x) for x, q in zip(out["a"], out["p"]) if int(q) == p] if len(out) else []
        missing = [x for x in want if x not in got]
        if missing:
            return True, "rows a=%r of partition p=%r satisfy %r but are not returned (whole row group pruned)" % (
                missing, p, filters)
        return False, "qualifying rows returned"
    finally:
        shutil.rmtree(d, ignore_errors=True)


def replay_h_row_groups_and(min0, max0, p0, k, xa, opa, va, pne, vp, nested):
    A, P = ("a", OPS[opa], va), ("p", "!=" if pne else "==", vp)
    return _replay_partition([[A, P]] if nested else [A, P], p0, min0, max0, [xa])


def h_row_groups_or2(min0: int, max0: int, p0: int, k: int, xa: int,
                     opa: int, va: int, pne: bool, vp: int) -> bool:
    """
    pre: 0 <= k <= 1 and 0 <= opa < 7 and min0 <= xa <= max0
    post: __return__
    """
    # program [[A], [P]] (OR of two single-clause groups), result requested as indices
    rgs = _two_groups(min0, max0, p0, k)
    A, P = ("a", OPS[opa], va), ("p", "!=" if pne else "==", vp)
    sat = row_pred(A[1], xa, va) or row_pred(P[1], p0, vp)
    out = api.filter_row_groups(_PF(rgs), [[A], [P]], as_idx=True)
    ordered, kept = _kept_in_order(out, rgs, k, True)
    return ordered and (kept or not sat)


def replay_h_row_groups_or2(min0, max0, p0, k, xa, opa, va, pne, vp):
    A, P = ("a", OPS[opa], va), ("p", "!=" if pne else "==", vp)
    return _replay_partition([[A], [P]], p0, min0, max0, [xa], as_idx=True)


def h_row_groups_or3(min0: int, max0: int, p0: int, k: int, xa: int,
                     opa: int, va: int, pne: bool, vp: int, blt: bool, vb: int) -> bool:
    """
    pre: 0 <= k <= 1 and 0 <= opa < 7 and min0 <= xa <= max0
    post: __return__
    """
    # program [[A, P], [B]]
    rgs = _two_groups(min0, max0, p0, k)
    A, P, B = ("a", OPS[opa], va), ("p", "!=" if pne else "==", vp), ("a", "<" if blt else ">=", vb)
    sat = (row_pred(A[1], xa, va) and row_pred(P[1], p0, vp)) or row_pred(B[1], xa, vb)
    out = api.filter_row_groups(_PF(rgs), [[A, P], [B]], as_idx=True)
    ordered, kept = _kept_in_order(out, rgs, k, True)
    return ordered and (kept or not sat)


def replay_h_row_groups_or3(min0, max0, p0, k, xa, opa, va, pne, vp, blt, vb):
    A, P, B = ("a", OPS[opa], va), ("p", "!=" if pne else "==", vp), ("a", "<" if blt else ">=", vb)
    return _replay_partition([[A, P], [B]], p0, min0, max0, [xa], as_idx=True)


OPS3 = ["==", "<", ">="]


def h_row_groups_composition(min0: int, max0: int, p0: int, k: int, opa: int, va: int, vp: int,
                             opb: int, vb: int, vq: int) -> bool:
    """
    pre: 0 <= k <= 1 and 0 <= opa < 3 and 0 <= opb < 3 and min0 <= max0
    post: __return__
    """
    # program [[P1, A1], [P2, A2]] - each OR group holds a partition clause and a clause on a column with statistics.
    # A row group is read exactly when ONE AND THE SAME group passes both first-pass tests (the row-level pass does not
    # re-check partition clauses, so a group kept because "some group passes the path test and some other group passes
    # the statistics test" would hand back rows of the wrong partition)
    rgs = _two_groups(min0, max0, p0, k)
    g1 = [("p", "==", vp), ("a", OPS3[_pick(opa, 0, 2)], va)]
    g2 = [("p", "==", vq), ("a", OPS3[_pick(opb, 0, 2)], vb)]
    pf = _PF(rgs)
    out = api.filter_row_groups(pf, [g1, g2])
    want = [rg for rg in rgs if any(not api.filter_out_stats(rg, g, pf.schema) and
                                    not api.filter_out_cats(rg, g, pf.partition_meta) for g in (g1, g2))]
    return len(out) == len(want) and all(a is b for a, b in zip(out, want))


def replay_h_row_groups_composition(min0, max0, p0, k, opa, va, vp, opb, vb, vq):
    """real hive dataset (partition p0 holding a in [min0, max0]): rows returned for the OR program"""
    import tempfile, os, shutil
    import pandas as pd
    import fastparquet
    lo, hi = max(min(min0, 10 ** 6), -10 ** 6), max(min(max0, 10 ** 6), -10 ** 6)
    d = tempfile.mkdtemp(prefix="c13-")
    try:
        dn = os.path.join(d, "ds")
        df = pd.DataFrame({"a": [lo, hi, lo], "p": [p0, p0, p0 + 1000]})
        fastparquet.write(dn, df, file_scheme="hive", partition_on=["p"], stats=True)
        flt = [[("p", "==", vp), ("a", OPS3[opa], va)], [("p", "==", vq), ("a", OPS3[opb], vb)]]
        pf = fastparquet.ParquetFile(dn)
        out = pf.to_pandas(filters=flt, row_filter=True)
        got = sorted((int(a), int(p)) for a, p in zip(out["a"], out["p"]))
        want = sorted((a, p) for a, p in zip(df["a"], df["p"])
                      if any(all(row_pred(op, {"a": a, "p": p}[c], v) for c, op, v in g) for g in flt))
        if got != want:
            return True, "filters=%r on rows (a, p) = %r returns %r, the rows that satisfy it are %r" % (
                flt, sorted(zip(df["a"], df["p"])), got, want)
        return False, "exact"
    finally:
        shutil.rmtree(d, ignore_errors=True)


# ------------------------------------------------------------------- replay kit --
def _replay_stats_file(filters, x, vmin, vmax):
    """real API: write a file whose single row group holds x plus rows realising the bounds, read with filters"""
    import tempfile, os, shutil
    import pandas as pd
    import fastparquet
    vals = [x]
    if vmin is not None:
        vals.append(vmin)
    if vmax is not None:
        vals.append(vmax)
    # the row group contains exactly these values, so its true min/max are min(vals)/max(vals); bounds the solver
    # left absent are simply tighter here, which keeps the witness row inside the group
    df = pd.DataFrame({"x": vals})
    d = tempfile.mkdtemp(prefix="c05-")
    try:
        fn = os.path.join(d, "t.parq")
        fastparquet.write(fn, df, stats=True)
        if vmin is None or vmax is None:
            # realise the witness exactly: a chunk statistic carrying one bound only
            from vf.pyshim.realfile import drop_bounds
            drop_bounds(fn, "x", drop_min=vmin is None, drop_max=vmax is None)
        if vmin == "" or vmax == "":
            # an empty-string bound survives `s.max or s.max_value` only when both spellings are present (as
            # writers following the current format do): give the file both
            from vf.pyshim.realfile import both_spellings
            both_spellings(fn, "x")
        pf = fastparquet.ParquetFile(fn)
        out = pf.to_pandas(filters=filters)
        op, val = filters[0][1], filters[0][2]
        ok = row_pred(op, x, val)
        present = (out["x"] == x).any() if len(out) else False
        if ok and not present:
            return True, "row x=%r satisfies %r but ParquetFile.to_pandas(filters=...) returned %d rows without it " \
                         "(row-group statistics min=%r max=%r)" % (x, filters, len(out), min(vals), max(vals))
        return False, "row returned (%d rows)" % len(out)
    finally:
        shutil.rmtree(d, ignore_errors=True)
