"""C14: opening a directory without summary metadata.  The real ParquetFile.__init__ (directory branch) runs against a
filesystem shim holding a symbolic selection of files; util.analyse_paths is real; reading the footers
(metadata_from_many's job, checked in h_c14) is replaced by a stub that builds one row group per file.  The partition
columns must be inferred relative to the directory that was opened."""
from typing import List

import fsspec

from vf.pyshim.kit import REPLAY

import fastparquet.api as api
import fastparquet.util as util
from fastparquet import parquet_thrift

POOL = ["root/k=1/a.parquet", "root/k=1/b.parq", "root/k=2/a.parquet", "root/k=2/notes.txt", "root/k=1/_SUCCESS"]


class _FS(fsspec.AbstractFileSystem):
    cachable = False

    def __init__(self, files):
        self.files = list(files)

    def isfile(self, p):
        return p in self.files

    def isdir(self, p):
        return any(f.startswith(p.rstrip("/") + "/") for f in self.files)

    def exists(self, p):
        return self.isfile(p) or self.isdir(p)

    def find(self, p, **kw):
        return sorted(f for f in self.files if f.startswith(p.rstrip("/") + "/"))

    def _strip_protocol(self, p):
        return p.rstrip("/")

    def open(self, p, mode="rb", **kw):
        raise IOError("footers are not read in this harness")


def _many(file_list, verify_schema=False, open_with=None, root=False, fs=None):
    basepath, rel = util.analyse_paths(list(file_list), root=root)
    rgs = []
    for i, r in enumerate(rel):
        md = parquet_thrift.ColumnMetaData(type=2, path_in_schema=["x"], num_values=1)
        rgs.append(parquet_thrift.RowGroup(columns=[parquet_thrift.ColumnChunk(meta_data=md, file_path=r)], num_rows=1,
                                           total_byte_size=i))
    schema = [parquet_thrift.SchemaElement(name="schema", num_children=1),
              parquet_thrift.SchemaElement(name="x", type=2, repetition_type=0)]
    return basepath, parquet_thrift.FileMetaData(version=1, schema=schema, row_groups=rgs, num_rows=len(rgs),
                                                 created_by=b"other")


def h_open_directory(s0: bool, s1: bool, s2: bool, s3: bool, s4: bool, give_root: bool) -> bool:
    """
    pre: s0 or s1 or s2
    post: __return__
    """
    # the directory `root` holds the flagged files; ParquetFile("root") (optionally with root="root") sees every
    # parquet file, in sorted order, relative to `root`, and infers the partition column k from the sub-directories
    files = [f for f, s in zip(POOL, (s0, s1, s2, s3, s4)) if s]
    saved = (api.metadata_from_many, api.writer.consolidate_categories)
    api.metadata_from_many = _many
    api.writer.consolidate_categories = lambda fmd: None
    try:
        pf = api.ParquetFile("root", fs=_FS(files), root="root" if give_root else False)
    finally:
        api.metadata_from_many, api.writer.consolidate_categories = saved
    want = sorted(f[len("root/"):] for f in files if f.endswith((".parquet", ".parq")))
    got = [rg.columns[0].file_path for rg in pf.row_groups]
    labels = sorted(set(int(w.split("/")[0][2:]) for w in want))
    return got == want and pf.file_scheme == "hive" and list(pf.cats) == ["k"] and sorted(pf.cats["k"]) == labels \
        and pf.fn == "root/_metadata"


def replay_h_open_directory(s0, s1, s2, s3, s4, give_root):
    import os, shutil, tempfile
    import pandas as pd
    import fastparquet
    files = [f for f, s in zip(POOL, (s0, s1, s2, s3, s4)) if s]
    d = tempfile.mkdtemp(prefix="c14-")
    try:
        want = []
        for f in files:
            fn = os.path.join(d, f)
            os.makedirs(os.path.dirname(fn), exist_ok=True)
            if f.endswith((".parquet", ".parq")):
                k = int(f.split("/")[1][2:])
                fastparquet.write(fn, pd.DataFrame({"x": [len(want)]}))
                want.append((len(want), k))
            else:
                open(fn, "w").write("not a data file")
        top = os.path.join(d, "root")
        try:
            pf = fastparquet.ParquetFile(top, root=top) if give_root else fastparquet.ParquetFile(top)
            out = pf.to_pandas()
        except Exception as ex:
            return True, "directory holding %r cannot be opened: %s: %s" % (files, type(ex).__name__, str(ex)[:80])
        if "k" not in out.columns:
            return True, "directory holding %r: partition column k is missing (columns %r)" % (files, list(out.columns))
        got = sorted((int(x), int(k)) for x, k in zip(out["x"], out["k"]))
        if got != sorted(want):
            return True, "directory holding %r reads as %r, the files hold %r" % (files, got, sorted(want))
        return False, "directory read as the concatenation of its files"
    finally:
        shutil.rmtree(d, ignore_errors=True)


# --------------------------------------------------------------------- locating the footer of a file ---
class _Magic:
    def __eq__(self, other):
        return other == b"PAR1"

    def __ne__(self, other):
        return not self.__eq__(other)

    __hash__ = None


class _LenField:
    def __init__(self, value):
        self.value = value


class _Bytes:
    """an extent [lo, hi) of the file; slicing follows bytes semantics"""

    def __init__(self, lo, hi):
        self.lo, self.hi = lo, hi

    def __len__(self):
        return self.hi - self.lo

    def __getitem__(self, k):
        n = self.hi - self.lo
        a = 0 if k.start is None else (k.start if k.start >= 0 else n + k.start)
        b = n if k.stop is None else (k.stop if k.stop >= 0 else n + k.stop)
        a = min(max(a, 0), n)
        b = min(max(b, a), n)
        return _Bytes(self.lo + a, self.lo + b)


class _HFile:
    """a parquet file of `size` bytes: magic at both ends, the 4-byte footer length before the last magic"""

    def __init__(self, size, footer, good_magic):
        self.size, self.footer, self.pos, self.good = size, footer, 0, good_magic

    def seek(self, off, whence=0):
        self.pos = off if whence == 0 else (self.pos + off if whence == 1 else self.size + off)
        if self.pos < 0:
            raise OSError("negative seek")
        return self.pos

    def read(self, n=-1):
        lo = self.pos
        hi = self.size if n is None or n < 0 else min(self.size, lo + n)
        hi = max(hi, lo)
        self.pos = hi
        if (lo, hi) in ((0, 4), (self.size - 4, self.size)):
            return _Magic() if self.good else b"XXXX"
        if (lo, hi) == (self.size - 8, self.size - 4):
            return _LenField(self.footer)
        return _Bytes(lo, hi)


class _Struct:
    error = ValueError

    @staticmethod
    def unpack(fmt, b):
        if isinstance(b, _LenField):
            return (b.value,)
        raise ValueError("length field read from the wrong place")


def h_parse_header(data_len: int, footer: int, is_md: bool, verify: bool, good_magic: bool) -> bool:
    """
    pre: 0 <= data_len <= 1 << 40 and 1 <= footer <= 1 << 31
    post: __return__
    """
    # a file `PAR1 <data> <footer> <len32> PAR1` (for a _metadata file the data part is empty): the bytes handed to the
    # thrift parser are exactly the footer; with verify=True bad magic bytes are refused
    size = 4 + (0 if is_md else data_len) + footer + 8
    f = _HFile(size, footer, good_magic)
    pf = object.__new__(api.ParquetFile)
    pf.__dict__.update(fn="d/_metadata" if is_md else "d/part.0.parquet", pandas_nulls=True, _base_dtype=None, tz=None,
                       _columns_dtype=None)
    seen = []

    def from_buffer(data, name):
        seen.append((data.lo, data.hi))
        schema = [parquet_thrift.SchemaElement(name="schema", num_children=1),
                  parquet_thrift.SchemaElement(name="x", type=2, repetition_type=0)]
        return parquet_thrift.FileMetaData(version=1, schema=schema, row_groups=[], num_rows=0, created_by=b"other")
    saved = (api.from_buffer, api.struct)
    api.from_buffer, api.struct = from_buffer, _Struct
    try:
        try:
            pf._parse_header(f, verify)
        except api.ParquetException:
            # refusing is right only for a data file whose magic bytes are wrong and verification was requested
            return verify and not good_magic and not is_md
    finally:
        api.from_buffer, api.struct = saved
    if verify and not good_magic and not is_md:
        return False
    return seen == [(size - 8 - footer, size - 8)] and pf._head_size == footer


def replay_h_parse_header(data_len, footer, is_md, verify, good_magic):
    import io
    import pandas as pd
    import fastparquet
    buf = io.BytesIO()
    df = pd.DataFrame({"x": list(range(min(max(data_len, 1), 50)))})

    class _Keep(io.BytesIO):
        def close(self):
            pass
    mem = _Keep()
    fastparquet.write(mem, df)
    raw = bytearray(mem.getvalue())
    if not good_magic:
        raw[:4] = b"XXXX"
    try:
        pf = fastparquet.ParquetFile(io.BytesIO(bytes(raw)), verify=verify)
        out = pf.to_pandas()
    except fastparquet.util.ParquetException:
        if verify and not good_magic:
            return False, "refused"
        return True, "a well-formed file is refused (verify=%r)" % verify
    except Exception as ex:
        return True, "file cannot be opened: %s: %s" % (type(ex).__name__, str(ex)[:80])
    if verify and not good_magic:
        return True, "a file with wrong magic bytes is accepted although verify=True"
    if list(out["x"]) != list(df["x"]):
        return True, "footer located wrongly: data differs"
    return False, "footer located"


# ------------------------------------------------------------------ two opens of one summary file ---
class _MemoModel:
    """functools caches are keyed by argument equality: CrossHair executes the undecorated function, so memoisation a
    decorator adds to a module-level helper is modelled explicitly"""

    def __init__(self, fn):
        self.fn, self.seen = fn, {}

    def __call__(self, *args):
        if args not in self.seen:
            self.seen[args] = self.fn(*args)
        return self.seen[args]


def _summary_bytes(n_rg):
    import struct
    rgs = []
    for i in range(n_rg):
        md = parquet_thrift.ColumnMetaData(type=2, encodings=[0], path_in_schema=["a"], codec=0, num_values=2,
                                           total_uncompressed_size=8, total_compressed_size=8, data_page_offset=4,
                                           i32list=[1, 4])
        rgs.append(parquet_thrift.RowGroup(num_rows=2, total_byte_size=8, columns=[
            parquet_thrift.ColumnChunk(file_offset=4, meta_data=md, file_path="part.%d.parquet" % i)]))
    fmd = parquet_thrift.FileMetaData(version=1, num_rows=2 * n_rg, row_groups=rgs, created_by="fastparquet-python",
                                      schema=[parquet_thrift.SchemaElement(name="schema", num_children=1, i32=True),
                                              parquet_thrift.SchemaElement(name="a", type=2, repetition_type=0,
                                                                           i32=True)], i32list=[1])
    foot = bytes(fmd.to_bytes())
    return b"PAR1" + foot + struct.pack("<I", len(foot)) + b"PAR1"


def h_reopen_independent(n_rg: int, extra: int) -> bool:
    """
    pre: 1 <= n_rg <= 3 and 1 <= extra <= 2
    post: __return__
    """
    # a dataset's _metadata is opened, the handle's metadata is extended in memory (what an append does before it
    # rewrites the summary - and all it does when it fails before that), and the SAME unchanged file is opened again:
    # the second handle shows what is on disk
    import io
    n_rg, extra = _pick3(n_rg), _pick3(extra)
    raw = _summary_bytes(n_rg)
    saved = {}
    for name, obj in list(vars(api).items()):
        if callable(obj) and hasattr(obj, "cache_info") and hasattr(obj, "__wrapped__"):
            saved[name] = obj
            setattr(api, name, _MemoModel(obj.__wrapped__))
    try:
        def open_with(fn, mode="rb"):
            return io.BytesIO(raw)
        pf1 = api.ParquetFile("ds/_metadata", open_with=open_with)
        rg_list = pf1.fmd.row_groups
        for k in range(extra):
            rg_list.append(parquet_thrift.RowGroup(num_rows=5, total_byte_size=8, columns=[
                parquet_thrift.ColumnChunk(file_offset=4, file_path="part.%d.parquet" % (n_rg + k))]))
        pf1.fmd.row_groups = rg_list
        pf2 = api.ParquetFile("ds/_metadata", open_with=open_with)
    finally:
        for name, obj in saved.items():
            setattr(api, name, obj)
    return (len(pf2.row_groups) == n_rg and pf2.count() == 2 * n_rg and
            [rg.columns[0].file_path for rg in pf2.row_groups] == ["part.%d.parquet" % i for i in range(n_rg)])


def _pick3(v):
    for k in (1, 2, 3):
        if v == k:
            return k
    raise ValueError(v)


def replay_h_reopen_independent(n_rg, extra):
    """a real hive dataset; an append through write() that fails after its new part files were written (the open of
    _metadata for writing is refused); the dataset re-opened in the same process"""
    import os, shutil, tempfile
    import pandas as pd
    import fastparquet
    d = tempfile.mkdtemp(prefix="c19-")
    try:
        dn = os.path.join(d, "ds")
        fastparquet.write(dn, pd.DataFrame({"a": list(range(2 * n_rg))}), file_scheme="hive",
                          row_group_offsets=list(range(0, 2 * n_rg, 2)))
        fastparquet.ParquetFile(dn).to_pandas()

        def failing_open(path, mode="rb"):
            if "w" in mode and path.endswith("_metadata"):
                raise OSError("injected: cannot open %s" % path)
            return open(path, mode)
        try:
            fastparquet.write(dn, pd.DataFrame({"a": [100 + i for i in range(2 * extra)]}), file_scheme="hive",
                              append=True, open_with=failing_open, row_group_offsets=list(range(0, 2 * extra, 2)))
        except OSError:
            pass
        try:
            out = [int(x) for x in fastparquet.ParquetFile(dn).to_pandas()["a"]]
        except Exception as ex:
            return True, "after a failed append the dataset cannot be read in the same process: %s: %s" % (
                type(ex).__name__, str(ex)[:80])
        if out != list(range(2 * n_rg)):
            return True, "after an append that failed before _metadata was rewritten, re-opening the dataset in the " \
                         "same process reads %d rows (it holds %d)" % (len(out), 2 * n_rg)
        return False, "the second open shows what is on disk"
    finally:
        shutil.rmtree(d, ignore_errors=True)
