"""C18: a column label the writer refuses is refused before the target is touched.
writer.make_row_group refuses labels that are not text - but it runs after the target has been opened for writing
(write_simple: 'wb' truncates an existing file; write_multi: part files).  The up-front pass over the columns,
make_metadata -> util.get_column_metadata, therefore has to refuse every label make_row_group would refuse."""
from typing import List

from vf.pyshim.kit import REPLAY

import pandas as pd
import fastparquet.util as util
import fastparquet.writer as writer
from fastparquet import parquet_thrift

LABELS = ["a", 1, 0, -3, 2.5, None, True, b"x"]


def _pick(v, lo, hi):
    for k in range(lo, hi + 1):
        if v == k:
            return k
    raise ValueError(v)


class _Frame:
    def __init__(self, label):
        self.columns = [label]

    def __len__(self):
        return 2

    def __iter__(self):
        return iter(self.columns)

    def __getitem__(self, k):
        return pd.Series([1, 2])


class _F:
    def tell(self):
        return 0


def _late_refusal(label):
    """does make_row_group (running after the target was opened) refuse this label?"""
    se = [parquet_thrift.SchemaElement(name="schema", num_children=1),
          parquet_thrift.SchemaElement(name=str(label), type=2, repetition_type=0)]
    saved = writer.write_column
    writer.write_column = lambda f, data, se_, compression=None, stats=True, **kw: parquet_thrift.ColumnChunk(
        meta_data=parquet_thrift.ColumnMetaData(type=2, path_in_schema=[se_.name], num_values=2,
                                                total_uncompressed_size=1, total_compressed_size=1))
    try:
        try:
            writer.make_row_group(_F(), _Frame(label), se)
        except (ValueError, TypeError, KeyError):
            return True
        return False
    finally:
        writer.write_column = saved


def _early_refusal(label):
    try:
        util.get_column_metadata(pd.Series([1, 2]), label)
    except (TypeError, ValueError):
        return True
    return False


def h_label_refused_early(i: int) -> bool:
    """
    pre: 0 <= i < 8
    post: __return__
    """
    label = LABELS[_pick(i, 0, 7)]
    return _early_refusal(label) or not _late_refusal(label)


def replay_h_label_refused_early(i):
    """an existing single file, then write() of a frame with this column label to the same path"""
    import os, shutil, tempfile
    import fastparquet
    label = LABELS[i]
    d = tempfile.mkdtemp(prefix="c18-")
    try:
        for scheme in ("simple", "hive"):
            fn = os.path.join(d, "ds-" + scheme)
            fastparquet.write(fn, pd.DataFrame({"a": [1, 2, 3]}), file_scheme=scheme)
            try:
                fastparquet.write(fn, pd.DataFrame({label: [7, 8]}), file_scheme=scheme)
                continue                      # accepted: nothing was refused
            except Exception as ex:
                refused = "%s: %s" % (type(ex).__name__, str(ex)[:60])
            try:
                out = [int(x) for x in fastparquet.ParquetFile(fn).to_pandas()["a"]]
            except Exception as ex:
                return True, "write() of a frame with column label %r to an existing %s dataset is refused (%s) and the " \
                             "dataset can no longer be read: %s: %s" % (label, scheme, refused, type(ex).__name__,
                                                                        str(ex)[:60])
            if out != [1, 2, 3]:
                return True, "write() with column label %r refused (%s), the existing %s dataset now holds %r" % (
                    label, refused, scheme, out)
        return False, "refused before anything was touched"
    finally:
        shutil.rmtree(d, ignore_errors=True)


# ------------------------------------------------------------------ column types the writer cannot store ---
import numpy as np


def _series(kind):
    if kind == 0:
        return pd.Series(pd.period_range("2020-01-01", periods=2, freq="D"))
    if kind == 1:
        return pd.Series(pd.interval_range(0, 2))
    if kind == 2:
        return pd.Series(pd.cut([0.5, 1.5], [0, 1, 2]))
    if kind == 3:
        return pd.Series(np.array([1 + 2j, 3j]))
    if kind == 4:
        return pd.Series(["a", "b"])
    if kind == 5:
        return pd.Series([1, 2])
    return pd.Series(pd.Categorical(["a", "b"]))


def _type_outcome(kind):
    """(refused by find_type - the pass that runs before the target is opened -, refused by convert - which runs once
    the target is open)"""
    ser = _series(kind)
    if isinstance(ser.dtype, pd.CategoricalDtype):
        # make_metadata types a categorical column by its labels; write_column stores the labels through convert
        ser = pd.Series(ser.cat.categories)
    try:
        se, _ = writer.find_type(ser)
    except (ValueError, TypeError):
        return True, None
    data = ser
    try:
        writer.convert(data, se)
    except (ValueError, TypeError, AttributeError):
        return False, True
    return False, False


def h_type_refused_early(kind: int) -> bool:
    """
    pre: 0 <= kind <= 6
    post: __return__
    """
    # a column whose values the writer cannot convert (periods, intervals - also as category labels -, complex numbers)
    # is refused by find_type, i.e. while the metadata is being built and before the target is opened; text, integers
    # and ordinary categoricals are accepted by both passes
    kind = _pick(kind, 0, 6)
    try:
        from crosshair.tracers import NoTracing
    except ImportError:
        early, late = _type_outcome(kind)
    else:
        with NoTracing():
            early, late = _type_outcome(kind)
    if kind >= 4:
        return early is False and late is False
    return early or late is False


def replay_h_type_refused_early(kind):
    import os, shutil, tempfile
    import fastparquet
    d = tempfile.mkdtemp(prefix="c18-")
    try:
        for scheme in ("simple", "hive"):
            fn = os.path.join(d, "ds-" + scheme)
            fastparquet.write(fn, pd.DataFrame({"a": [1, 2, 3]}), file_scheme=scheme)
            try:
                fastparquet.write(fn, pd.DataFrame({"a": [7, 8], "x": _series(kind)}), file_scheme=scheme)
                continue
            except Exception as ex:
                refused = "%s: %s" % (type(ex).__name__, str(ex)[:60])
            try:
                out = [int(x) for x in fastparquet.ParquetFile(fn).to_pandas()["a"]]
            except Exception as ex:
                return True, "write() of a frame with a %s column over an existing %s dataset is refused (%s) and the " \
                             "dataset can no longer be read: %s" % (_series(kind).dtype, scheme, refused,
                                                                    type(ex).__name__)
            if out != [1, 2, 3]:
                return True, "write() with a %s column refused (%s), the existing %s dataset now holds %r" % (
                    _series(kind).dtype, refused, scheme, out)
        return False, "refused before anything was touched"
    finally:
        shutil.rmtree(d, ignore_errors=True)


# ------------------------------------------------------------------------------------------------------
# a NULL in a column declared free of NULLs (has_nulls=False / a has_nulls list that does not name it): encodings that
# have no value for "missing" refuse the frame; none of them stores some other value in its place
NULL_ENCODINGS = ["bool", "bytes", "utf8", "int"]


def _null_cells(enc):
    return {"bool": [True, None, False], "bytes": [b"a", None, b"c"], "utf8": ["a", None, "c"],
            "int": [1, None, 3]}[enc]


def _required_null_outcome(ienc):
    enc = NULL_ENCODINGS[ienc]
    ser = pd.Series(_null_cells(enc), dtype=object, name="x")
    se, _ = writer.find_type(ser, object_encoding=enc)
    se.repetition_type = 0          # REQUIRED: write_column hands the column to the encoder with its NULLs in place
    try:
        writer.encode_plain(ser, se)
    except Exception:
        return True
    return False


def h_required_null_refused(ienc: int) -> bool:
    """
    pre: 0 <= ienc <= 3
    post: __return__
    """
    ienc = _pick(ienc, 0, 3)
    from crosshair.tracers import NoTracing
    with NoTracing():
        return _required_null_outcome(ienc)


def replay_h_required_null_refused(ienc):
    import os, shutil, tempfile
    import fastparquet
    enc = NULL_ENCODINGS[ienc]
    d = tempfile.mkdtemp(prefix="c18-")
    try:
        for scheme in ("simple", "hive"):
            fn = os.path.join(d, "ds-" + scheme)
            first = pd.DataFrame({"x": pd.Series([c for c in _null_cells(enc) if c is not None], dtype=object)})
            fastparquet.write(fn, first, file_scheme=scheme, has_nulls=False, object_encoding=enc)
            new = pd.DataFrame({"x": pd.Series(_null_cells(enc), dtype=object)})
            try:
                fastparquet.write(fn, new, file_scheme=scheme, has_nulls=False, object_encoding=enc, append=True)
            except Exception:
                continue
            out = fastparquet.ParquetFile(fn).to_pandas()["x"].tolist()
            return True, ("a frame with a missing value in a %s column declared free of NULLs is accepted by an append to "
                          "a %s dataset; the column now reads %r" % (enc, scheme, out))
        return False, "refused"
    finally:
        shutil.rmtree(d, ignore_errors=True)
