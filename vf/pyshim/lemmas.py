"""Direct SMT lemmas (z3, LIA) over arithmetic lines extracted from the real source at run time.
Each function returns a result dict in the format of vf.core (status holds|violation|inconclusive|error)."""
import os
import sys
import time

import z3

STAGE = os.environ.get("VERIF_STAGE")
if STAGE and STAGE not in sys.path:
    sys.path.insert(0, STAGE)

from vf.pyshim import astz3


def _res(name, functions, shape):
    return dict(harness=name, engine="E2-smt-lemma", status="holds", findings=[], inconclusive=[],
                functions=functions, shape=shape,
                stats=dict(queries=0, sat=0, unsat=0, unknown=0, solver_ms=0.0, paths=0, steps=0))


def _check(res, s, *extra):
    t = time.time()
    r = str(s.check(*extra))
    res["stats"]["solver_ms"] += (time.time() - t) * 1000
    res["stats"]["queries"] += 1
    res["stats"][r] += 1
    return r


def range_index(max_step=6):
    """api.ParquetFile.pre_allocate: RangeIndex(start=S, stop=<expr>, step=T)[:size] has exactly `size` labels.
    The stop expression is read from the function's AST; for each concrete step in -max..max (non-zero) z3 decides,
    over all integer start and all size >= 0, that the range holds at least `size` labels (the slice then trims)."""
    import fastparquet.api as api
    res = _res("lemma.range_index[pre_allocate]", ["api.ParquetFile.pre_allocate"], dict(max_step=max_step))
    tree = astz3.func_ast(api.ParquetFile.pre_allocate)
    calls = astz3.find_calls(tree, "RangeIndex")
    if len(calls) != 1:
        res["status"] = "error"
        res["error"] = "expected one RangeIndex(...) call in pre_allocate, found %d" % len(calls)
        return res
    call = calls[0]
    start, size = z3.Int("start"), z3.Int("size")
    reached = 0
    for step in [s for s in range(-max_step, max_step + 1) if s != 0]:
        env = {"ic.start": start, "ic.step": z3.IntVal(step), "size": size}
        try:
            e_start = astz3.tr(astz3.kw(call, "start"), env)
            e_stop = astz3.tr(astz3.kw(call, "stop"), env)
            e_step = astz3.tr(astz3.kw(call, "step"), env)
        except astz3.Untranslatable as ex:
            res["status"] = "error"
            res["error"] = "cannot translate RangeIndex arguments: %s" % ex
            return res
        s = z3.Solver()
        s.set("timeout", 20000)
        s.add(size >= 0)
        # number of labels of range(a, b, t)
        a, b, t = e_start, e_stop, e_step
        if step > 0:
            n = z3.If(b > a, (b - a + (step - 1)) / step, 0)
        else:
            n = z3.If(a > b, (a - b + (-step - 1)) / (-step), 0)
        if _check(res, s) == "sat":
            reached += 1
        # violation: fewer labels than rows, or first label / stride differ
        bad = z3.Or(n < size, a != start, t != step)
        r = _check(res, s, bad)
        if r == "sat":
            m = s.model()
            w = dict(start=m.eval(start, model_completion=True).as_long(), step=step,
                     size=m.eval(size, model_completion=True).as_long())
            res["status"] = "violation"
            res["findings"].append(dict(
                kind="contract", function="pre_allocate", obligation="range index has `size` labels",
                detail="RangeIndex(start=%(start)d, step=%(step)d) for %(size)d rows is rebuilt with too few "
                       "labels" % w, shape=dict(res["shape"], harness="lemma.range_index"),
                cls="lemma:range_index",
                witness=dict(driver="py:vf.pyshim.h_c06:replay_h_range_index", args=w)))
            return res
        if r == "unknown":
            res["status"] = "inconclusive"
            res["inconclusive"].append("solver unknown for step %d" % step)
    if not reached:
        res["status"] = "inconclusive"
        res["inconclusive"].append("vacuous")
    res["reached"] = reached
    return res
