"""Direct SMT lemmas (z3, LIA) over arithmetic lines extracted from the real source at run time.
Each function returns a result dict in the format of vf.core (status holds|violation|inconclusive|error)."""
import os
import sys
import time

import z3

STAGE = os.environ.get("VERIF_STAGE")
if STAGE and STAGE not in sys.path:
    sys.path.insert(0, STAGE)

from vf.pyshim import astz3


def _res(name, functions, shape):
    return dict(harness=name, engine="E2-smt-lemma", status="holds", findings=[], inconclusive=[],
                functions=functions, shape=shape,
                stats=dict(queries=0, sat=0, unsat=0, unknown=0, solver_ms=0.0, paths=0, steps=0))


def _check(res, s, *extra):
    t = time.time()
    r = str(s.check(*extra))
    res["stats"]["solver_ms"] += (time.time() - t) * 1000
    res["stats"]["queries"] += 1
    res["stats"][r] += 1
    return r


def range_index(max_step=6):
    """api.ParquetFile.pre_allocate: RangeIndex(start=S, stop=<expr>, step=T)[:size] has exactly `size` labels.
    The stop expression is read from the function's AST; for each concrete step in -max..max (non-zero) z3 decides,
    over all integer start and all size >= 0, that the range holds at least `size` labels (the slice then trims)."""
    import fastparquet.api as api
    res = _res("lemma.range_index[pre_allocate]", ["api.ParquetFile.pre_allocate"], dict(max_step=max_step))
    tree = astz3.func_ast(api.ParquetFile.pre_allocate)
    calls = astz3.find_calls(tree, "RangeIndex")
    if len(calls) != 1:
        res["status"] = "error"
        res["error"] = "expected one RangeIndex(...) call in pre_allocate, found %d" % len(calls)
        return res
    call = calls[0]
    start, size = z3.Int("start"), z3.Int("size")
    reached = 0
    for step in [s for s in range(-max_step, max_step + 1) if s != 0]:
        env = {"ic.start": start, "ic.step": z3.IntVal(step), "size": size}
        try:
            e_start = astz3.tr(astz3.kw(call, "start"), env)
            e_stop = astz3.tr(astz3.kw(call, "stop"), env)
            e_step = astz3.tr(astz3.kw(call, "step"), env)
        except astz3.Untranslatable as ex:
            res["status"] = "error"
            res["error"] = "cannot translate RangeIndex arguments: %s" % ex
            return res
        s = z3.Solver()
        s.set("timeout", 20000)
        s.add(size >= 0)
        # number of labels of range(a, b, t)
        a, b, t = e_start, e_stop, e_step
        if step > 0:
            n = z3.If(b > a, (b - a + (step - 1)) / step, 0)
        else:
            n = z3.If(a > b, (a - b + (-step - 1)) / (-step), 0)
        if _check(res, s) == "sat":
            reached += 1
        # violation: fewer labels than rows, or first label / stride differ
        bad = z3.Or(n < size, a != start, t != step)
        r = _check(res, s, bad)
        if r == "sat":
            m = s.model()
            w = dict(start=m.eval(start, model_completion=True).as_long(), step=step,
                     size=m.eval(size, model_completion=True).as_long())
            res["status"] = "violation"
            res["findings"].append(dict(
                kind="contract", function="pre_allocate", obligation="range index has `size` labels",
                detail="RangeIndex(start=%(start)d, step=%(step)d) for %(size)d rows is rebuilt with too few "
                       "labels" % w, shape=dict(res["shape"], harness="lemma.range_index"),
                cls="lemma:range_index",
                witness=dict(driver="py:vf.pyshim.h_c06:replay_h_range_index", args=w)))
            return res
        if r == "unknown":
            res["status"] = "inconclusive"
            res["inconclusive"].append("solver unknown for step %d" % step)
    if not reached:
        res["status"] = "inconclusive"
        res["inconclusive"].append("vacuous")
    res["reached"] = reached
    return res


def dict_index_framing():
    """writer.encode_dict header  vs  the self-made fast path of core.read_data_page (bit widths 8/16/32):
    writer emits varint(<expr of len(data)>) followed by len(data) items; reader takes num = (<varint> >> 1) * 8
    items and keeps the first len(data).  For every n in [0, 2^31): the header is a bit-packed header (low bit 1),
    num >= n (all indices are covered) and num - n < 8 (only padding of the last group is claimed beyond them), and
    the byte count requested, num * bit_width // 8, is a whole number of items."""
    import fastparquet.writer as writer
    import fastparquet.core as core
    res = _res("lemma.dict_index_framing[encode_dict/read_data_page]",
               ["writer.encode_dict", "core.read_data_page (selfmade fast path)"], {})
    wt = astz3.func_ast(writer.encode_dict)
    rt_ = astz3.func_ast(core.read_data_page)
    try:
        cnt = astz3.find_assign(wt, "bit_packed_count")
        calls = astz3.find_calls(wt, "encode_unsigned_varint")
        nums = astz3.find_assign(rt_, "num")
        reads = [c for c in astz3.find_calls(rt_, "read") if c.args and "num" in ast_names(c.args[0])]
        if len(cnt) != 1 or len(calls) != 1 or len(nums) != 1 or len(reads) != 1:
            raise astz3.Untranslatable("expected one bit_packed_count / encode_unsigned_varint / num / read(num..) "
                                       "site, found %d/%d/%d/%d" % (len(cnt), len(calls), len(nums), len(reads)))
        n = z3.BitVec("n", 64)
        s = z3.Solver()
        s.set("timeout", 30000)
        s.add(z3.ULT(n, z3.BitVecVal(1 << 31, 64)))
        env = {"call:len": n}
        count = astz3.tr_bv(cnt[0], env)
        header = astz3.tr_bv(calls[0].args[0], dict(env, bit_packed_count=count))
        num = astz3.tr_bv(nums[0], {"call:encoding.read_unsigned_var_int": header})
        if _check(res, s) != "sat":
            raise astz3.Untranslatable("vacuous")
        bad = [header & 1 != 1, z3.ULT(num, n), z3.UGE(num - n, 8)]
        for bw in (8, 16, 32):
            nbytes = astz3.tr_bv(reads[0].args[0], {"num": num, "bit_width": z3.BitVecVal(bw, 64)})
            bad.append(z3.URem(nbytes, bw // 8) != 0)
            bad.append(nbytes != num * (bw // 8))
        r = _check(res, s, z3.Or(*bad))
        if r == "sat":
            m = s.model()
            nv = m.eval(n, model_completion=True).as_long()
            res["status"] = "violation"
            res["findings"].append(dict(
                kind="contract", function="encode_dict/read_data_page", obligation="index framing agrees",
                detail="for %d dictionary indices the header announces %d items" % (
                    nv, m.eval(num, model_completion=True).as_long()),
                shape=dict(harness="lemma.dict_index_framing"), cls="lemma:dict_index_framing",
                witness=dict(driver="py:vf.pyshim.lemmas:replay_dict_index_framing", args=dict(n=nv))))
        elif r == "unknown":
            res["status"] = "inconclusive"
            res["inconclusive"].append("solver unknown")
        res["reached"] = 1
    except astz3.Untranslatable as ex:
        res["status"] = "error"
        res["error"] = "cannot lift the framing expressions: %s" % ex
    return res


def ast_names(node):
    import ast as _ast
    return {x.id for x in _ast.walk(node) if isinstance(x, _ast.Name)}


def replay_dict_index_framing(n):
    """categorical column with n rows written and read back by the real API (v1 pages, int8 codes)"""
    import os, shutil, tempfile
    import numpy as np
    import pandas as pd
    import fastparquet
    if n > 3000000 or n < 1:
        return None, "row count outside the concrete driver"
    df = pd.DataFrame({"c": pd.Categorical.from_codes(np.arange(n) % 3, categories=["a", "b", "c"])})
    d = tempfile.mkdtemp(prefix="c01-")
    try:
        fn = os.path.join(d, "t.parq")
        fastparquet.write(fn, df)
        try:
            out = fastparquet.ParquetFile(fn).to_pandas()
        except Exception as ex:
            return True, "categorical column of %d rows cannot be read back: %s" % (n, ex)
        if list(out["c"].astype(str)) != list(df["c"].astype(str)):
            return True, "categorical column of %d rows reads back different labels" % n
        return False, "round trip intact"
    finally:
        shutil.rmtree(d, ignore_errors=True)


def delta_callsites():
    """every call of the delta decoder in core.py must request 64-bit output exactly when the column's physical type
    is INT64 (otherwise 8-byte slots are filled with 4-byte values).  For each call site the `longval` argument
    expression is lifted from the AST (absent = False) and z3 decides  longval(type) <=> type == INT64  over the
    physical types the decoder is reachable with (INT32, INT64)."""
    import ast
    import fastparquet.core as core
    from fastparquet import parquet_thrift
    res = _res("lemma.delta_callsites[core.py]", ["core.read_data_page", "core.read_data_page_v2"], {})
    INT64 = parquet_thrift.Type.INT64
    sites = []
    for fn in (core.read_data_page, core.read_data_page_v2):
        tree = astz3.func_ast(fn)
        for call in astz3.find_calls(tree, "delta_binary_unpack"):
            sites.append((fn.__name__, call))
    if not sites:
        res["status"] = "error"
        res["error"] = "no delta_binary_unpack call site found in core.py"
        return res
    t = z3.Int("physical_type")
    for fname, call in sites:
        expr = astz3.kw(call, "longval")
        if expr is None and len(call.args) >= 3:
            expr = call.args[2]
        env = {"metadata.type": t, "cmd.type": t, "se.type": t, "parquet_thrift.Type.INT64": z3.IntVal(INT64)}
        try:
            lv = z3.BoolVal(False) if expr is None else _tr_bool(expr, env)
        except astz3.Untranslatable as ex:
            res["status"] = "error"
            res["error"] = "cannot lift longval at %s line %d: %s" % (fname, call.lineno, ex)
            return res
        s = z3.Solver()
        s.add(z3.Or(t == 1, t == 2))
        if _check(res, s) != "sat":
            res["status"] = "inconclusive"
            return res
        r = _check(res, s, lv != (t == INT64))
        if r == "sat":
            ty = s.model().eval(t, model_completion=True).as_long()
            res["status"] = "violation"
            res["findings"].append(dict(
                kind="contract", function=fname, obligation="longval <=> physical type INT64",
                detail="%s (call at line %d of the function) decodes DELTA_BINARY_PACKED of physical type %s with "
                       "longval=%s" % (fname, call.lineno, "INT64" if ty == 2 else "INT32",
                                       "absent" if expr is None else ast.unparse(expr)),
                shape=dict(harness="lemma.delta_callsites", site=fname, line=call.lineno, ptype=ty),
                cls="lemma:delta_callsites",
                witness=dict(driver="py:vf.pyshim.lemmas:replay_delta_callsite",
                             args=dict(site=fname, ptype=ty))))
            return res
    res["reached"] = len(sites)
    return res


def _tr_bool(node, env):
    import ast
    if isinstance(node, ast.Compare) and len(node.ops) == 1 and isinstance(node.ops[0], ast.Eq):
        return _tr_int(node.left, env) == _tr_int(node.comparators[0], env)
    if isinstance(node, ast.Constant) and isinstance(node.value, (bool, int)):
        return z3.BoolVal(bool(node.value))
    raise astz3.Untranslatable(ast.unparse(node))


def _tr_int(node, env):
    import ast
    key = ast.unparse(node)
    if key in env:
        return env[key]
    if isinstance(node, ast.Constant) and isinstance(node.value, int):
        return z3.IntVal(node.value)
    raise astz3.Untranslatable(key)


def replay_delta_callsite(site, ptype):
    from vf.pyshim import flat_file
    # small deltas (miniblock widths < 29: outside known findings N5/N6), 64-bit magnitudes for INT64
    base = 10 ** 12 if ptype == 2 else 0
    vals = [base + x for x in (5, 8, 8, 20, 1, 100, 7, -3)]
    ok, info = flat_file.roundtrip(vals, 64 if ptype == 2 else 32, 2 if site.endswith("v2") else 1, True)
    if not ok:
        return True, "DELTA_BINARY_PACKED %s column in a data page %s: %s" % (
            "INT64" if ptype == 2 else "INT32", "v2" if site.endswith("v2") else "v1", info)
    return False, "decodes correctly"


def type_tables():
    """writer.typemap  o  converted_types.simple/complex  ==  canonical dtype, and the (physical, converted) pairs
    follow the format's table (signed/unsigned INT_n annotate INT32 up to 32 bits, INT64 for 64).
    The live dictionaries are exported to z3 finite maps; one query asks for a dtype name whose round trip differs."""
    import numpy as np
    import fastparquet.writer as writer
    import fastparquet.converted_types as ct
    from fastparquet import parquet_thrift as pt
    res = _res("lemma.type_tables[writer.typemap/converted_types]", ["writer.typemap", "converted_types.simple",
                                                                     "converted_types.complex"], {})
    names = sorted(k for k in writer.typemap if k[0].islower() and k != "boolean")      # numpy dtype names
    dtypes = sorted({str(np.dtype(n)) for n in names} | {str(v) for v in ct.simple.values()} |
                    {str(v) for v in ct.complex.values()})
    didx = {d: i for i, d in enumerate(dtypes)}
    NONE = -1
    P = z3.Function("physical", z3.IntSort(), z3.IntSort())
    C = z3.Function("converted", z3.IntSort(), z3.IntSort())
    W = z3.Function("bits", z3.IntSort(), z3.IntSort())
    S = z3.Function("simple", z3.IntSort(), z3.IntSort())
    X = z3.Function("complex", z3.IntSort(), z3.IntSort())
    CAN = z3.Function("canonical", z3.IntSort(), z3.IntSort())
    s = z3.Solver()
    for i, n in enumerate(names):
        p, c, w = writer.typemap[n]
        s.add(P(i) == p, C(i) == (NONE if c is None else c), W(i) == w)
        canon = "float32" if n == "float16" else str(np.dtype(n))      # documented: float16 is stored as FLOAT
        s.add(CAN(i) == didx[canon])
    for k, v in ct.simple.items():
        s.add(S(k) == didx[str(v)])
    for k, v in ct.complex.items():
        s.add(X(k) == didx[str(v)])
    n = z3.Int("n")
    s.add(n >= 0, n < len(names))
    if _check(res, s) != "sat":
        res["status"] = "inconclusive"
        return res
    reader = z3.If(C(n) == NONE, S(P(n)), X(C(n)))
    # the format's table for integer annotations
    spec = []
    for name, (phys, conv) in {"int8": (pt.Type.INT32, pt.ConvertedType.INT_8),
                               "int16": (pt.Type.INT32, pt.ConvertedType.INT_16),
                               "uint8": (pt.Type.INT32, pt.ConvertedType.UINT_8),
                               "uint16": (pt.Type.INT32, pt.ConvertedType.UINT_16),
                               "uint32": (pt.Type.INT32, pt.ConvertedType.UINT_32),
                               "uint64": (pt.Type.INT64, pt.ConvertedType.UINT_64),
                               "int32": (pt.Type.INT32, NONE), "int64": (pt.Type.INT64, NONE),
                               "float32": (pt.Type.FLOAT, NONE), "float64": (pt.Type.DOUBLE, NONE),
                               "bool": (pt.Type.BOOLEAN, NONE)}.items():
        if name in names:
            i = names.index(name)
            spec.append(z3.And(n == i, z3.Or(P(n) != phys, C(n) != conv)))
    r = _check(res, s, z3.Or(reader != CAN(n), *spec))
    if r == "sat":
        i = s.model().eval(n, model_completion=True).as_long()
        res["status"] = "violation"
        res["findings"].append(dict(
            kind="contract", function="writer.typemap/converted_types", obligation="type tables round trip",
            detail="a column of dtype %s is written as %r and read back as another dtype" % (names[i],
                                                                                           writer.typemap[names[i]]),
            shape=dict(harness="lemma.type_tables", dtype=names[i]), cls="lemma:type_tables",
            witness=dict(driver="py:vf.pyshim.lemmas:replay_type_tables", args=dict(dtype=names[i]))))
    elif r == "unknown":
        res["status"] = "inconclusive"
    res["reached"] = len(names)
    return res


def replay_type_tables(dtype):
    import os, shutil, tempfile
    import numpy as np
    import pandas as pd
    import fastparquet
    d = tempfile.mkdtemp(prefix="c01-")
    try:
        vals = np.array([0, 1, 1, 0], dtype=dtype) if dtype == "bool" else np.array([1, 2, 100, 7]).astype(dtype)
        df = pd.DataFrame({"x": vals})
        fn = os.path.join(d, "t.parq")
        fastparquet.write(fn, df)
        out = fastparquet.ParquetFile(fn).to_pandas()
        want = "float32" if dtype == "float16" else dtype
        if str(out["x"].dtype) != want or not (out["x"].astype("float64") == df["x"].astype("float64")).all():
            return True, "a %s column comes back as %s with values %r" % (dtype, out["x"].dtype, list(out["x"]))
        return False, "dtype and values preserved"
    finally:
        shutil.rmtree(d, ignore_errors=True)


# ------------------------------------------------------------------------------------------------------
# The hand-maintained copy of the IDL (cencoding.pyx `specs`: structure -> field name -> field id) against
# parquet.thrift, in the source text and in the compiled module (the two can differ: the .c is generated).
def specs_match_idl():
    import ast as _ast
    import re as _re
    from vf.pyxlift import idl as IDLM
    from vf import env
    from fastparquet.cencoding import ThriftObject
    res = _res("lemma.specs_match_idl[cencoding.specs]", ["cencoding.specs (source text)",
                                                          "cencoding.ThriftObject.from_fields (compiled)"], {})
    idl = IDLM.parse()
    src = open(os.path.join(env.PKG, "cencoding.pyx")).read()
    m = _re.search(r"^cdef dict specs = (\{.*?^\})", src, flags=_re.S | _re.M)
    if not m:
        res["status"] = "inconclusive"
        res["inconclusive"].append("specs table not found in cencoding.pyx")
        return res
    specs = _ast.literal_eval(m.group(1))
    n = 0
    for sname, fields in specs.items():
        st = idl["structs"].get(sname)
        if st is None:
            continue
        want = {f["name"]: f["id"] for f in st["fields"]}
        for fname, fid in fields.items():
            n += 1
            bad = None
            if fname not in want:
                bad = "%s.%s (id %d) is not a field of parquet.thrift" % (sname, fname, fid)
            elif want[fname] != fid:
                bad = "%s.%s has id %d in the table, %d in parquet.thrift" % (sname, fname, fid, want[fname])
            if bad is None:
                # the compiled table: a structure built by name stores the value under the IDL's id
                try:
                    got = list(ThriftObject.from_fields(sname, **{fname: 1}).contents)
                except Exception as ex:
                    got = None
                if got is not None and got != [want[fname]]:
                    bad = "compiled module: %s(%s=...) is stored under id %r, parquet.thrift says %d" % (
                        sname, fname, got, want[fname])
            if bad:
                res["status"] = "violation"
                res["findings"].append(dict(
                    kind="contract", function="cencoding.specs", obligation="field ids follow parquet.thrift",
                    detail=bad, shape=dict(harness="lemma.specs_match_idl", struct=sname, field=fname),
                    cls="lemma:specs_match_idl",
                    witness=dict(driver="py:vf.pyshim.lemmas:replay_specs", args=dict(struct=sname, field=fname))))
                return res
    res["reached"] = n
    res["stats"]["steps"] = n
    return res


def replay_specs(struct, field):
    from vf.pyxlift import idl as IDLM
    from fastparquet.cencoding import ThriftObject
    idl = IDLM.parse()
    want = {f["name"]: f["id"] for f in idl["structs"][struct]["fields"]}.get(field)
    got = list(ThriftObject.from_fields(struct, **{field: 1}).contents)
    if got != [want]:
        return True, "%s built with %s=... holds the value under field id %r; parquet.thrift declares id %r" % (
            struct, field, got, want)
    return False, "field id %r as declared" % want
