"""Lemma (C01 / C17): the schema element writer.find_type chooses for a column is one the reader maps back to the
column's (canonical) dtype.

The live writer.find_type is evaluated on one Series per supported dtype (numpy and pandas-nullable integers, floats,
booleans, datetime64 in every unit - as INT64 and as INT96 -, timedelta, text, bytes); the live
converted_types.typemap gives the dtype the reader predicts for that schema element.  Both finite relations are
exported to z3 together with the canonical-form table of the property statement (float16 -> float32, text -> object,
timedelta -> microseconds, datetime units may only get finer, INT96 is decoded to nanoseconds by convert), and the
solver is asked for a dtype whose reader dtype differs in kind, width or time unit."""
import os
import sys
import time

import z3

STAGE = os.environ.get("VERIF_STAGE")
if STAGE and STAGE not in sys.path:
    sys.path.insert(0, STAGE)

from vf.pyshim.lemmas import _res, _check

KINDS = {"b": 0, "i": 1, "u": 2, "f": 3, "M": 4, "m": 5, "O": 6, "S": 7}
UNITS = {"": 0, "s": 1, "ms": 2, "us": 3, "ns": 4}


def _cases():
    import numpy as np
    import pandas as pd
    out = []
    for n in ["bool", "int8", "int16", "int32", "int64", "uint8", "uint16", "uint32", "uint64", "float16", "float32",
              "float64"]:
        out.append((n, "int64", lambda n=n: pd.Series(np.array([0, 1], dtype=n))))
    for u in ["s", "ms", "us", "ns"]:
        for times in ("int64", "int96"):
            out.append(("datetime64[%s]" % u, times, lambda u=u: pd.Series(np.array([0, 1], dtype="M8[%s]" % u))))
    out.append(("timedelta64[ns]", "int64", lambda: pd.Series(np.array([0, 1], dtype="m8[ns]"))))
    out.append(("str", "int64", lambda: pd.Series(["a", "b"], dtype=object)))
    out.append(("bytes", "int64", lambda: pd.Series([b"a", b"b"], dtype=object)))
    for n in ["Int8", "Int16", "Int32", "Int64", "UInt8", "UInt16", "UInt32", "UInt64", "boolean", "Float32", "Float64"]:
        out.append((n, "int64", lambda n=n: pd.Series(pd.array([1, 0], dtype=n))))
    return out


def _expect(name):
    """(kind, itemsize, minimal time unit) of the canonical dtype of a column written as `name`"""
    import numpy as np
    base = {"boolean": "bool", "str": "O", "bytes": "O"}.get(name, name)
    if base[0] in "IUF" and base[1:].rstrip("0123456789") in ("nt", "Int", "loat"):
        base = base.lower()
    if base == "float16":
        base = "float32"
    if base.startswith("datetime64"):
        u = base[11:-1]
        return KINDS["M"], 8, UNITS[u]
    if base.startswith("timedelta64"):
        return KINDS["m"], 8, UNITS["us"]
    dt = np.dtype(base)
    return KINDS[dt.kind], dt.itemsize, 0


def find_type_roundtrip():
    import numpy as np
    import fastparquet.writer as writer
    import fastparquet.converted_types as ct
    from fastparquet import parquet_thrift as pt
    res = _res("lemma.find_type_roundtrip[writer.find_type/converted_types.typemap]",
               ["writer.find_type", "converted_types.typemap", "converted_types.simple", "converted_types.complex"], {})
    cases = _cases()
    K, W, U = (z3.Function(n, z3.IntSort(), z3.IntSort()) for n in ("kind", "width", "unit"))
    EK, EW, EU = (z3.Function(n, z3.IntSort(), z3.IntSort()) for n in ("ekind", "ewidth", "eunit"))
    s = z3.Solver()
    s.set("timeout", 60000)
    probes = []
    for i, (name, times, mk) in enumerate(cases):
        try:
            se, _ = writer.find_type(mk(), times=times)
            dt = ct.typemap(se, md=None)
        except Exception as ex:
            res["status"] = "violation"
            res["findings"].append(dict(
                kind="contract", function="writer.find_type", obligation="supported dtype accepted",
                detail="a %s column (times=%s) is refused: %s: %s" % (name, times, type(ex).__name__, str(ex)[:80]),
                shape=dict(harness="lemma.find_type_roundtrip", dtype=name), cls="lemma:find_type_roundtrip",
                witness=dict(driver="py:vf.pyshim.lemma_types:replay_dtype", args=dict(i=i))))
            return res
        dt = np.dtype(dt)
        if se.type == pt.Type.INT96:
            # 12-byte records; converted_types.convert decodes them to datetime64[ns] (lemma_time checks the arithmetic)
            k, wd, un = (KINDS["M"], 8, UNITS["ns"]) if (dt.kind == "S" and dt.itemsize == 12) else (KINDS["S"], dt.itemsize, 0)
        else:
            un = UNITS.get(str(dt)[str(dt).index("[") + 1:-1], 0) if "[" in str(dt) else 0
            k, wd = KINDS.get(dt.kind, 9), dt.itemsize
        ek, ew, eu = _expect(name)
        s.add(K(i) == k, W(i) == wd, U(i) == un, EK(i) == ek, EW(i) == ew, EU(i) == eu)
        probes.append((name, times, str(dt)))
    n = z3.Int("n")
    s.add(n >= 0, n < len(cases))
    if _check(res, s) != "sat":
        res["status"] = "inconclusive"
        return res
    obj = z3.IntVal(KINDS["O"])
    bad = z3.Or(K(n) != EK(n),
                z3.And(EK(n) != obj, W(n) != EW(n)),
                z3.And(EK(n) == KINDS["M"], U(n) < EU(n)),         # a coarser unit would lose digits
                z3.And(EK(n) == KINDS["m"], U(n) != EU(n)))
    r = _check(res, s, bad)
    if r == "sat":
        i = s.model().eval(n, model_completion=True).as_long()
        name, times, got = probes[i]
        res["status"] = "violation"
        res["findings"].append(dict(
            kind="contract", function="writer.find_type/converted_types.typemap", obligation="dtype round trip",
            detail="a %s column (times=%s) gets a schema element the reader maps to %s" % (name, times, got),
            shape=dict(harness="lemma.find_type_roundtrip", dtype=name), cls="lemma:find_type_roundtrip",
            witness=dict(driver="py:vf.pyshim.lemma_types:replay_dtype", args=dict(i=i))))
    elif r == "unknown":
        res["status"] = "inconclusive"
    res["reached"] = len(cases)
    return res


def replay_dtype(i):
    import shutil, tempfile
    import numpy as np
    import pandas as pd
    import fastparquet
    name, times, mk = _cases()[i]
    ser = mk()
    d = tempfile.mkdtemp(prefix="c01-")
    try:
        fn = os.path.join(d, "t.parq")
        try:
            fastparquet.write(fn, pd.DataFrame({"x": ser}), times=times)
            out = fastparquet.ParquetFile(fn).to_pandas()["x"]
        except Exception as ex:
            return True, "a %s column (times=%s) cannot be written and read back: %s: %s" % (
                name, times, type(ex).__name__, str(ex)[:80])
        ek, ew, eu = _expect(name)
        od = out.dtype
        base = np.dtype(getattr(od, "numpy_dtype", od)) if not isinstance(od, np.dtype) else od
        same_vals = [str(a) for a in out.astype(object)] == [str(a) for a in ser.astype(object)] or \
            (base.kind in "Mm" and list(out.values.astype("M8[ns]" if base.kind == "M" else "m8[ns]").view("i8")) ==
             list(ser.values.astype("M8[ns]" if base.kind == "M" else "m8[ns]").view("i8")))
        if KINDS.get(base.kind) != ek or (ek != KINDS["O"] and base.itemsize != ew) or not same_vals:
            return True, "a %s column (times=%s) comes back as %s with values %r" % (name, times, od, list(out)[:2])
        return False, "dtype and values preserved"
    finally:
        shutil.rmtree(d, ignore_errors=True)
