"""Helpers for replay drivers that need real files whose footer says something fastparquet's own writer never
writes (statistics with one bound only, key/value lists in a given order, foreign type annotations)."""
import struct


def rewrite_footer(fn, mutate):
    """parse the footer of a real file, let `mutate(fmd)` edit it, write it back in place"""
    from fastparquet.cencoding import from_buffer
    with open(fn, "rb+") as f:
        f.seek(-8, 2)
        n = struct.unpack("<I", f.read(4))[0]
        f.seek(-8 - n, 2)
        start = f.tell()
        fmd = from_buffer(f.read(n), "FileMetaData")
        mutate(fmd)
        foot = bytes(fmd.to_bytes())
        f.seek(start)
        f.write(foot + struct.pack("<I", len(foot)) + b"PAR1")
        f.truncate()
    return fmd


def drop_bounds(fn, column, drop_min=False, drop_max=False):
    """remove min and/or max (both spellings) from every chunk statistic of `column`"""
    def mutate(fmd):
        for rg in fmd.row_groups:
            for c in rg.columns:
                if c.meta_data.path_in_schema[-1] != column:
                    continue
                st = c.meta_data.statistics
                if st is None:
                    continue
                if drop_min:
                    st.min = None
                    st.min_value = None
                if drop_max:
                    st.max = None
                    st.max_value = None
    return rewrite_footer(fn, mutate)


def both_spellings(fn, column):
    """statistics carry min/max under both field names (min/max and min_value/max_value), as current writers do"""
    def mutate(fmd):
        for rg in fmd.row_groups:
            for c in rg.columns:
                if c.meta_data.path_in_schema[-1] != column:
                    continue
                st = c.meta_data.statistics
                if st is None:
                    continue
                if st.max is not None and st.max_value is None:
                    st.max_value = st.max
                if st.min is not None and st.min_value is None:
                    st.min_value = st.min
    return rewrite_footer(fn, mutate)
