"""C20 (reduced), structural premise: the read path keeps no buffer at module level.
Two threads decoding pages at the same time share everything that lives in a module: a module-level array (or a name
rebound through `global`) that a decode function writes to is shared scratch space.  This is a structural check over the
AST and the imported module objects of the reader modules - there is nothing for a solver to decide here; it is listed
because the interleaving harnesses of C20 quantify over handles and schedules but not over 'which state is shared'."""
import ast
import inspect
import os
import sys

STAGE = os.environ.get("VERIF_STAGE")
if STAGE and STAGE not in sys.path:
    sys.path.insert(0, STAGE)

MODULES = ["core", "api", "schema", "converted_types", "dataframe", "encoding", "util", "compression"]
# lookup tables filled at import and only read afterwards (checked below: no function assigns into them)
TABLES = {"core": {"rev_map", "decom_into", "simple"}, "api": {"ops"}, "util": {"seps", "ops"},
          "converted_types": {"simple", "complex", "nullable", "pandas_nullable"}, "encoding": {"DECODE_TYPEMAP"},
          "schema": set(), "dataframe": set(),
          "compression": {"compressions", "decompressions", "decom_into", "rev_map"}}
# memo caches: a function stores the value it computed for a key; every thread computes the same value for the key
MEMO = {"util": {"seps"}}


def no_module_buffers():
    import importlib
    import numpy as np
    res = dict(harness="lemma.no_module_buffers[reader modules]", engine="structural", status="holds", findings=[],
               inconclusive=[], functions=["fastparquet.%s (module level)" % m for m in MODULES],
               shape=dict(modules=MODULES), bounds="module-level names and `global` statements of the reader modules",
               stats=dict(queries=0, sat=0, unsat=0, unknown=0, solver_ms=0.0, paths=0, steps=0), reached=1)
    for m in MODULES:
        mod = importlib.import_module("fastparquet." + m)
        tree = ast.parse(inspect.getsource(mod))
        bad = []
        for k, v in vars(mod).items():
            if k.startswith("__"):
                continue
            if isinstance(v, (np.ndarray, bytearray, memoryview)):
                bad.append("module-level %s %r" % (type(v).__name__, k))
            elif isinstance(v, (list, dict, set)) and k not in TABLES[m]:
                bad.append("module-level mutable %s %r outside the declared lookup tables" % (type(v).__name__, k))
        for fn in ast.walk(tree):
            if isinstance(fn, (ast.FunctionDef, ast.AsyncFunctionDef)):
                for node in ast.walk(fn):
                    if isinstance(node, ast.Global):
                        bad.append("function %s rebinds module-level name(s) %s" % (fn.name, ", ".join(node.names)))
                    if isinstance(node, (ast.Assign, ast.AugAssign)):
                        tgts = node.targets if isinstance(node, ast.Assign) else [node.target]
                        for t in tgts:
                            if isinstance(t, ast.Subscript) and isinstance(t.value, ast.Name) and \
                                    t.value.id in TABLES[m] and t.value.id not in MEMO.get(m, ()) and \
                                    t.value.id not in {a.arg for a in fn.args.args}:
                                local = any(isinstance(x, ast.Assign) and any(isinstance(y, ast.Name) and
                                            y.id == t.value.id for y in x.targets) for x in ast.walk(fn))
                                if not local:
                                    bad.append("function %s writes into the lookup table %s" % (fn.name, t.value.id))
        for b in bad:
            res["status"] = "violation"
            res["findings"].append(dict(
                kind="contract", function="fastparquet." + m, obligation="no shared scratch state in the read path",
                detail="fastparquet.%s: %s - state shared by every thread that decodes pages" % (m, b),
                shape=dict(module=m, harness="lemma.no_module_buffers"), cls="lemma:no_module_buffers",
                witness=dict(driver="py:vf.pyshim.lemma_c20:replay_shared", args=dict(module=m, what=b))))
    return res


def replay_shared(module, what):
    """shared scratch state shows in threads - or already in one thread, when a later page reuses what an earlier page
    of the same chunk still refers to (dictionary page and data page of equal uncompressed size)"""
    r = replay_sequential_pages()
    if r[0]:
        return True, "%s; %s" % (what, r[1])
    return replay_threads(module, what)


def replay_sequential_pages():
    import shutil, tempfile
    import fastparquet
    from vf.pyshim import flat_file
    d = tempfile.mkdtemp(prefix="c20-")
    try:
        fn = os.path.join(d, "t.parq")
        for version in (1, 2):
            for k in (2, 3, 4, 5, 8):
                width = max((k - 1).bit_length(), 1)
                dictionary = [1000 + 37 * i for i in range(k)]
                for groups in range(1, 40):
                    n = groups * 8
                    idx = [(i * 7 + 3) % k for i in range(n)]
                    if 1 + len(flat_file._hybrid_bitpacked(idx, width)) != 8 * k:
                        continue                    # value section as long as the dictionary page
                    flat_file.build_dict(fn, dictionary, idx, width, version=version, compress=True)
                    got = [int(x) for x in fastparquet.ParquetFile(fn).to_pandas()["x"]]
                    want = [dictionary[i] for i in idx]
                    if got != want:
                        bad = [i for i in range(n) if got[i] != want[i]]
                        return True, ("snappy file, v%d pages, dictionary of %d entries (%d bytes) followed by a data "
                                      "page of %d rows whose values take %d bytes: %d rows decode wrongly, e.g. row %d = "
                                      "%d instead of %d" % (version, k, 8 * k, n, 8 * k, len(bad), bad[0], got[bad[0]],
                                                            want[bad[0]]))
        return False, "pages of equal size decode independently"
    finally:
        shutil.rmtree(d, ignore_errors=True)


def replay_threads(module, what):
    """threads reading two OPTIONAL columns whose NULLs sit at different rows, through one handle"""
    import shutil, tempfile, threading
    import numpy as np
    import pandas as pd
    import fastparquet
    d = tempfile.mkdtemp(prefix="c20-")
    try:
        fn = os.path.join(d, "t.parq")
        n = 4000
        a = np.arange(n, dtype="float64")
        b = np.arange(n, dtype="float64") * 2
        a[::7] = np.nan
        b[3::7] = np.nan
        b[n - 1] = np.nan if np.isnan(a[::7]).sum() > np.isnan(b[3::7]).sum() else b[n - 1]
        fastparquet.write(fn, pd.DataFrame({"a": a, "b": b}), row_group_offsets=500)
        pf = fastparquet.ParquetFile(fn)
        want = {c: pf.to_pandas(columns=[c])[c].to_numpy() for c in "ab"}
        errors = []

        def reader(c):
            for _ in range(60):
                got = pf.to_pandas(columns=[c])[c].to_numpy()
                if not np.array_equal(got, want[c], equal_nan=True):
                    errors.append("column %s read while another thread reads the other column differs in %d rows" % (
                        c, int((~((got == want[c]) | (np.isnan(got) & np.isnan(want[c])))).sum())))
                    return
        old = sys.getswitchinterval()
        sys.setswitchinterval(1e-6)
        try:
            ts = [threading.Thread(target=reader, args=(c,)) for c in "abab"]
            for t in ts:
                t.start()
            for t in ts:
                t.join()
        except Exception as ex:
            errors.append("%s: %s" % (type(ex).__name__, ex))
        finally:
            sys.setswitchinterval(old)
        if errors:
            return True, "%s; %s" % (what, errors[0])
        return False, "no interference observed"
    finally:
        shutil.rmtree(d, ignore_errors=True)
