"""C20 (reduced), structural premise: the read path keeps no buffer at module level.
Two threads decoding pages at the same time share everything that lives in a module: a module-level array (or a name
rebound through `global`) that a decode function writes to is shared scratch space.  This is a structural check over the
AST and the imported module objects of the reader modules - there is nothing for a solver to decide here; it is listed
because the interleaving harnesses of C20 quantify over handles and schedules but not over 'which state is shared'."""
import ast
import inspect
import os
import sys

STAGE = os.environ.get("VERIF_STAGE")
if STAGE and STAGE not in sys.path:
    sys.path.insert(0, STAGE)

MODULES = ["core", "api", "schema", "converted_types", "dataframe", "encoding", "util", "compression"]
# lookup tables filled at import and only read afterwards (checked below: no function assigns into them)
TABLES = {"core": {"rev_map", "decom_into", "simple"}, "api": {"ops"}, "util": {"seps", "ops"},
          "converted_types": {"simple", "complex", "nullable", "pandas_nullable"}, "encoding": {"DECODE_TYPEMAP"},
          "schema": set(), "dataframe": set(),
          "compression": {"compressions", "decompressions", "decom_into", "rev_map"}}
# memo caches: a function stores the value it computed for a key; every thread computes the same value for the key
MEMO = {"util": {"seps"}}


def no_module_buffers():
    import importlib
    import numpy as np
    res = dict(harness="lemma.no_module_buffers[reader modules]", engine="structural", status="holds", findings=[],
               inconclusive=[], functions=["fastparquet.%s (module level)" % m for m in MODULES],
               shape=dict(modules=MODULES), bounds="module-level names and `global` statements of the reader modules",
               stats=dict(queries=0, sat=0, unsat=0, unknown=0, solver_ms=0.0, paths=0, steps=0), reached=1)
    for m in MODULES:
        mod = importlib.import_module("fastparquet." + m)
        tree = ast.parse(inspect.getsource(mod))
        bad = []
        for k, v in vars(mod).items():
            if k.startswith("__"):
                continue
            if isinstance(v, (np.ndarray, bytearray, memoryview)):
                bad.append("module-level %s %r" % (type(v).__name__, k))
            elif isinstance(v, (list, dict, set)) and k not in TABLES[m]:
                bad.append("module-level mutable %s %r outside the declared lookup tables" % (type(v).__name__, k))
        for fn in ast.walk(tree):
            if isinstance(fn, (ast.FunctionDef, ast.AsyncFunctionDef)):
                for node in ast.walk(fn):
                    if isinstance(node, ast.Global):
                        bad.append("function %s rebinds module-level name(s) %s" % (fn.name, ", ".join(node.names)))
                    if isinstance(node, (ast.Assign, ast.AugAssign)):
                        tgts = node.targets if isinstance(node, ast.Assign) else [node.target]
                        for t in tgts:
                            if isinstance(t, ast.Subscript) and isinstance(t.value, ast.Name) and \
                                    t.value.id in TABLES[m] and t.value.id not in MEMO.get(m, ()) and \
                                    t.value.id not in {a.arg for a in fn.args.args}:
                                local = any(isinstance(x, ast.Assign) and any(isinstance(y, ast.Name) and
                                            y.id == t.value.id for y in x.targets) for x in ast.walk(fn))
                                if not local:
                                    bad.append("function %s writes into the lookup table %s" % (fn.name, t.value.id))
        for b in bad:
            res["status"] = "violation"
            res["findings"].append(dict(
                kind="contract", function="fastparquet." + m, obligation="no shared scratch state in the read path",
                detail="fastparquet.%s: %s - state shared by every thread that decodes pages" % (m, b),
                shape=dict(module=m, harness="lemma.no_module_buffers"), cls="lemma:no_module_buffers",
                witness=dict(driver="py:vf.pyshim.lemma_c20:replay_shared", args=dict(module=m, what=b))))
    return res


def replay_shared(module, what):
    """shared scratch state shows in threads - or already in one thread, when a later page reuses what an earlier page
    of the same chunk still refers to (dictionary page and data page of equal uncompressed size)"""
    r = replay_sequential_pages()
    if r[0]:
        return True, "%s; %s" % (what, r[1])
    return replay_threads(module, what)


def replay_sequential_pages():
    import shutil, tempfile
    import fastparquet
    from vf.pyshim import flat_file
    d = tempfile.mkdtemp(prefix="c20-")
    try:
        fn = os.path.join(d, "t.parq")
        for version in (1, 2):
            for k in (2, 3, 4, 5, 8):
                width = max((k - 1).bit_length(), 1)
                dictionary = [1000 + 37 * i for i in range(k)]
                for groups in range(1, 40):
                    n = groups * 8
                    idx = [(i * 7 + 3) % k for i in range(n)]
                    if 1 + len(flat_file._hybrid_bitpacked(idx, width)) != 8 * k:
                        continue                    # value section as long as the dictionary page
                    flat_file.build_dict(fn, dictionary, idx, width, version=version, compress=True)
                    got = [int(x) for x in fastparquet.ParquetFile(fn).to_pandas()["x"]]
                    want = [dictionary[i] for i in idx]
                    if got != want:
                        bad = [i for i in range(n) if got[i] != want[i]]
                        return True, ("snappy file, v%d pages, dictionary of %d entries (%d bytes) followed by a data "
                                      "page of %d rows whose values take %d bytes: %d rows decode wrongly, e.g. row %d = "
                                      "%d instead of %d" % (version, k, 8 * k, n, 8 * k, len(bad), bad[0], got[bad[0]],
                                                            want[bad[0]]))
        return False, "pages of equal size decode independently"
    finally:
        shutil.rmtree(d, ignore_errors=True)


def replay_threads(module, what):
    """threads reading two OPTIONAL columns whose NULLs sit at different rows, through one handle"""
    import shutil, tempfile, threading
    import numpy as np
    import pandas as pd
    import fastparquet
    d = tempfile.mkdtemp(prefix="c20-")
    try:
        fn = os.path.join(d, "t.parq")
        n = 4000
        a = np.arange(n, dtype="float64")
        b = np.arange(n, dtype="float64") * 2
        a[::7] = np.nan
        b[3::7] = np.nan
        b[n - 1] = np.nan if np.isnan(a[::7]).sum() > np.isnan(b[3::7]).sum() else b[n - 1]
        fastparquet.write(fn, pd.DataFrame({"a": a, "b": b}), row_group_offsets=500)
        pf = fastparquet.ParquetFile(fn)
        want = {c: pf.to_pandas(columns=[c])[c].to_numpy() for c in "ab"}
        errors = []

        def reader(c):
            for _ in range(60):
                got = pf.to_pandas(columns=[c])[c].to_numpy()
                if not np.array_equal(got, want[c], equal_nan=True):
                    errors.append("column %s read while another thread reads the other column differs in %d rows" % (
                        c, int((~((got == want[c]) | (np.isnan(got) & np.isnan(want[c])))).sum())))
                    return
        old = sys.getswitchinterval()
        sys.setswitchinterval(1e-6)
        try:
            ts = [threading.Thread(target=reader, args=(c,)) for c in "abab"]
            for t in ts:
                t.start()
            for t in ts:
                t.join()
        except Exception as ex:
            errors.append("%s: %s" % (type(ex).__name__, ex))
        finally:
            sys.setswitchinterval(old)
        if errors:
            return True, "%s; %s" % (what, errors[0])
        return False, "no interference observed"
    finally:
        shutil.rmtree(d, ignore_errors=True)


# ------------------------------------------------------------------------------------------------------
# Memoised values on shared metadata objects (row groups, statistics, schema elements are shared by a handle, every
# handle derived from it and all their threads): a slot guarded by `if not hasattr(X, K)` is published ONCE, with its
# final value - a second store on the same path means another thread can pick up the intermediate value.
def _max_stores(stmts, base, key):
    n = 0
    for st in stmts:
        if isinstance(st, ast.If):
            n += max(_max_stores(st.body, base, key), _max_stores(st.orelse, base, key))
        elif isinstance(st, (ast.For, ast.While, ast.With, ast.Try)):
            n += _max_stores(getattr(st, "body", []), base, key)
        elif isinstance(st, (ast.Assign, ast.AugAssign)):
            tgts = st.targets if isinstance(st, ast.Assign) else [st.target]
            for t in tgts:
                if isinstance(t, ast.Subscript) and ast.unparse(t.value) == base and \
                        isinstance(t.slice, ast.Constant) and t.slice.value == key:
                    n += 1
                if isinstance(t, ast.Attribute) and ast.unparse(t.value) == base and t.attr == key:
                    n += 1
    return n


def memo_published_once():
    import importlib
    res = dict(harness="lemma.memo_published_once[reader modules]", engine="structural", status="holds", findings=[],
               inconclusive=[], functions=["fastparquet.%s (hasattr-guarded memo slots)" % m for m in MODULES],
               shape=dict(modules=MODULES), bounds="every `if not hasattr(X, 'K')` block of the reader modules",
               stats=dict(queries=0, sat=0, unsat=0, unknown=0, solver_ms=0.0, paths=0, steps=0), reached=0)
    n = 0
    for m in MODULES:
        mod = importlib.import_module("fastparquet." + m)
        tree = ast.parse(inspect.getsource(mod))
        for fn in ast.walk(tree):
            if not isinstance(fn, (ast.FunctionDef, ast.AsyncFunctionDef)):
                continue
            for node in ast.walk(fn):
                if not (isinstance(node, ast.If) and isinstance(node.test, ast.UnaryOp) and
                        isinstance(node.test.op, ast.Not) and isinstance(node.test.operand, ast.Call) and
                        ast.unparse(node.test.operand.func) == "hasattr" and len(node.test.operand.args) == 2 and
                        isinstance(node.test.operand.args[1], ast.Constant)):
                    continue
                base, key = ast.unparse(node.test.operand.args[0]), node.test.operand.args[1].value
                n += 1
                k = _max_stores(node.body, base, key)
                if k > 1:
                    res["status"] = "violation"
                    res["findings"].append(dict(
                        kind="contract", function="fastparquet.%s.%s" % (m, fn.name),
                        obligation="a memo slot on shared metadata is published once",
                        detail="fastparquet.%s.%s stores %s[%r] %d times on one path of its `if not hasattr` block: the "
                               "first value is visible to every other thread and handle until the last store" % (
                                   m, fn.name, base, key, k),
                        shape=dict(module=m, function=fn.name, harness="lemma.memo_published_once"),
                        cls="lemma:memo_published_once",
                        witness=dict(driver="py:vf.pyshim.lemma_c20:replay_memo", args=dict(module=m, function=fn.name))))
    res["reached"] = n
    res["stats"]["steps"] = n
    return res


def replay_memo(module, function):
    """one legal schedule: thread A is held on entry to converted_types.convert (between the two stores of a slot that
    is published early), thread B runs a whole filtered read through the same handle, then A resumes"""
    import shutil, tempfile, threading
    import numpy as np
    import pandas as pd
    import fastparquet
    import fastparquet.converted_types as ct
    d = tempfile.mkdtemp(prefix="c20-")
    try:
        fn = os.path.join(d, "t.parq")
        u = np.arange(3000000000, 3000000400, dtype="uint32")
        fastparquet.write(fn, pd.DataFrame({"u": u}), row_group_offsets=100, stats=True)
        flt = [("u", "==", 3000000007)]
        want = len(fastparquet.ParquetFile(fn).to_pandas(filters=flt))
        pf = fastparquet.ParquetFile(fn)
        a_in, b_done, out = threading.Event(), threading.Event(), {}
        code = ct.convert.__code__

        def tracer(frame, event, arg):
            if event == "call" and frame.f_code is code and not a_in.is_set():
                a_in.set()
                b_done.wait(20)
            return None

        def run_a():
            sys.settrace(tracer)
            try:
                out["a"] = len(pf.to_pandas(filters=flt))
            finally:
                sys.settrace(None)

        def run_b():
            if a_in.wait(20):
                try:
                    out["b"] = len(pf.to_pandas(filters=flt))
                except Exception as ex:
                    out["b"] = "%s: %s" % (type(ex).__name__, ex)
            b_done.set()
        ta, tb = threading.Thread(target=run_a), threading.Thread(target=run_b)
        ta.start(), tb.start()
        ta.join(60), tb.join(60)
        if "b" not in out:
            return False, "the schedule was not reached (convert is not called while filtering)"
        if out["b"] != want or out.get("a") != want:
            return True, ("two threads filter %r through one handle, the second running while the first is inside "
                          "converted_types.convert: they get %r and %r rows, a single thread gets %d" % (
                              flt, out.get("a"), out["b"], want))
        return False, "both threads get the sequential result"
    finally:
        shutil.rmtree(d, ignore_errors=True)
