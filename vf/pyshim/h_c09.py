"""C09 - dataset edits: one inductive step per operation from a symbolic dataset state.
Real api.ParquetFile.remove_row_groups and _sort_part_names on a shim handle (real RowGroup objects, SymFS-like
rename/remove log).  Invariant I: every referenced file exists, no unreferenced part file, num_rows = sum."""
import os
from typing import List

from vf.pyshim.kit import REPLAY

import fastparquet.api as api
from fastparquet.api import ParquetFile
from fastparquet import parquet_thrift

LIM = 1 << 40


def _rg(rows, path):
    md = parquet_thrift.ColumnMetaData(type=2, path_in_schema=["a"], num_values=rows)
    return parquet_thrift.RowGroup(num_rows=rows, total_byte_size=rows,
                                   columns=[parquet_thrift.ColumnChunk(meta_data=md, file_path=path)])


class _FSx:
    def __init__(self, files):
        self.files = set(files)
        self.log = []
        self.clobbered = False

    def rm(self, paths):
        for p in paths:
            self.log.append(("rm", p))
            self.files.discard(p)

    def rename(self, src, dst):
        self.log.append(("mv", src, dst))
        if dst in self.files or src not in self.files:
            self.clobbered = True
        self.files.discard(src)
        self.files.add(dst)


class _DS:
    """the attributes remove_row_groups / _sort_part_names touch"""
    file_scheme = "hive"
    created_by = b"fastparquet-python"
    basepath = "d"
    fn = "d/_metadata"

    def __init__(self, rgs):
        self.fmd = parquet_thrift.FileMetaData(version=1, schema=[], num_rows=sum(r.num_rows for r in rgs),
                                               row_groups=list(rgs), created_by="x")
        self.fs = _FSx(["d/" + r.columns[0].file_path for r in rgs])
        self.meta_writes = 0

    @property
    def row_groups(self):
        return self.fmd.row_groups

    def _set_attrs(self):
        pass

    def _write_common_metadata(self, open_with=None):
        self.meta_writes += 1

    remove_row_groups = ParquetFile.remove_row_groups
    _sort_part_names = ParquetFile._sort_part_names


DIRS = ["", "k=1/", "k=2/"]


def _invariant(ds):
    ref = ["d/" + rg.columns[0].file_path for rg in ds.fmd.row_groups]
    rows = 0
    for rg in ds.fmd.row_groups:
        rows += rg.num_rows
    return set(ref) == ds.fs.files and len(set(ref)) == len(ref) and ds.fmd.num_rows == rows


def h_remove_row_groups(r0: int, r1: int, r2: int, d0: int, d1: int, d2: int, x0: bool, x1: bool, x2: bool,
                        n: int) -> bool:
    """
    pre: 1 <= n <= 3 and 0 <= r0 < LIM and 0 <= r1 < LIM and 0 <= r2 < LIM
    pre: 0 <= d0 <= 2 and 0 <= d1 <= 2 and 0 <= d2 <= 2
    post: __return__
    """
    # n row groups (one part file each, in partition directories chosen by d*), remove the subset flagged by x*
    rows, dirs, flags = [r0, r1, r2][:n], [d0, d1, d2][:n], [x0, x1, x2][:n]
    rgs = [_rg(rows[i], "%spart.%d.parquet" % (DIRS[dirs[i]], i)) for i in range(n)]
    ds = _DS(rgs)
    if not _invariant(ds):
        return True
    chosen = [rg for rg, x in zip(rgs, flags) if x]
    ds.remove_row_groups(chosen, open_with=None)
    kept = [i for i in range(n) if not flags[i]]
    want_paths = ["%spart.%d.parquet" % (DIRS[dirs[i]], i) for i in kept]
    got_paths = [rg.columns[0].file_path for rg in ds.fmd.row_groups]
    removed = sorted(p for op, p in [e for e in ds.fs.log if e[0] == "rm"])
    want_removed = sorted("d/%spart.%d.parquet" % (DIRS[dirs[i]], i) for i in range(n) if flags[i])
    return (got_paths == want_paths and removed == want_removed and _invariant(ds) and ds.meta_writes == 1)


def replay_h_remove_row_groups(r0, r1, r2, d0, d1, d2, x0, x1, x2, n):
    import shutil, tempfile
    import pandas as pd
    import fastparquet
    flags = [x0, x1, x2][:n]
    d = tempfile.mkdtemp(prefix="c09-")
    try:
        dn = os.path.join(d, "ds")
        df = pd.DataFrame({"a": list(range(2 * n))})
        fastparquet.write(dn, df, file_scheme="hive", row_group_offsets=list(range(0, 2 * n, 2)))
        pf = fastparquet.ParquetFile(dn)
        pf.remove_row_groups([rg for rg, x in zip(pf.row_groups, flags) if x])
        want = [v for i in range(n) if not flags[i] for v in (2 * i, 2 * i + 1)]
        pf2 = fastparquet.ParquetFile(dn)
        got = list(pf2.to_pandas()["a"]) if want else []
        files = sorted(f for f in os.listdir(dn) if f.startswith("part."))
        ref = sorted(rg.columns[0].file_path for rg in pf2.row_groups)
        if got != want or files != ref:
            return True, "after removing row groups %r of %d: rows %r (expected %r), files %r, referenced %r" % (
                flags, n, got, want, files, ref)
        return False, "model and directory agree"
    finally:
        shutil.rmtree(d, ignore_errors=True)


PERMS = [[0, 1, 2], [0, 2, 1], [1, 0, 2], [1, 2, 0], [2, 0, 1], [2, 1, 0], [3, 1, 5], [0, 7, 1], [4, 2, 0]]


def h_sort_part_names(pi: int, d0: int, d1: int, d2: int) -> bool:
    """
    pre: 0 <= pi < 9 and 0 <= d0 <= 2 and 0 <= d1 <= 2 and 0 <= d2 <= 2
    post: __return__
    """
    # three row groups whose part-file ids are any of the listed arrangements: after renumbering, row group i lives in
    # part.i.parquet of its own partition directory, no rename ever lands on an existing file, directory == metadata
    ids, dirs = PERMS[pi], [d0, d1, d2]
    rgs = [_rg(5 + i, "%spart.%d.parquet" % (DIRS[dirs[i]], ids[i])) for i in range(3)]
    ds = _DS(rgs)
    ds._sort_part_names(write_fmd=True, open_with=None)
    want = ["%spart.%d.parquet" % (DIRS[dirs[i]], i) for i in range(3)]
    got = [rg.columns[0].file_path for rg in ds.fmd.row_groups]
    return got == want and not ds.fs.clobbered and _invariant(ds) and [rg.num_rows for rg in ds.fmd.row_groups] == [
        5, 6, 7]


def replay_h_sort_part_names(pi, d0, d1, d2):
    ids = PERMS[pi]
    return replay_h_sort_part_names_shared_ids(ids[0], ids[1], ids[2], d0, d1, d2)


def _pick(v, lo, hi):
    for k in range(lo, hi + 1):
        if v == k:
            return k
    raise ValueError(v)


def h_part_ids(i0: int, i1: int, i2: int, i3: int, d0: int, d1: int, d2: int, d3: int, n: int) -> bool:
    """
    pre: 2 <= n <= 3 and all(0 <= x <= 2 for x in (i0, i1, i2)) and all(0 <= x <= 1 for x in (d0, d1, d2))
    pre: i3 == 0 and d3 == 0
    post: __return__
    """
    # documented: {part number: (index of the FIRST row group carrying that number, its path)} - numbers repeat when a
    # file holds several row groups and when partition directories number their files independently
    n = _pick(n, 2, 3)
    ids = [_pick(x, 0, 2) for x in (i0, i1, i2)][:n]
    dirs = [_pick(x, 0, 1) for x in (d0, d1, d2)][:n]
    paths = ["%spart.%d.parquet" % (DIRS[dirs[k]], ids[k] * 5) for k in range(n)]
    got = api.part_ids([_rg(1 + k, paths[k]) for k in range(n)])
    want = {}
    for k in range(n):
        want.setdefault(ids[k] * 5, (k, paths[k]))
    return got == want


def replay_h_part_ids(i0, i1, i2, i3, d0, d1, d2, d3, n):
    ids, dirs = [i0, i1, i2, i3][:n], [d0, d1, d2, d3][:n]
    paths = ["%spart.%d.parquet" % (DIRS[dirs[k]], ids[k] * 5) for k in range(n)]
    got = api.part_ids([_rg(1 + k, paths[k]) for k in range(n)])
    want = {}
    for k in range(n):
        want.setdefault(ids[k] * 5, (k, paths[k]))
    if got != want:
        return True, "part_ids of row groups stored in %r gives %r; the first row group of each number is %r" % (
            paths, got, want)
    return False, "agrees"


def h_sort_part_names_shared_ids(i0: int, i1: int, i2: int, d0: int, d1: int, d2: int) -> bool:
    """
    pre: 0 <= i0 <= 2 and 0 <= i1 <= 2 and 0 <= i2 <= 2 and 1 <= d0 <= 2 and 1 <= d1 <= 2 and 1 <= d2 <= 2
    pre: len({(d0, i0), (d1, i1), (d2, i2)}) == 3
    post: __return__
    """
    # partitioned datasets give the same part number to files in different directories (k=1/part.0, k=2/part.0):
    # three row groups with arbitrary (directory, id) pairs, all files distinct
    ids, dirs = [i0, i1, i2], [d0, d1, d2]
    rgs = [_rg(5 + i, "%spart.%d.parquet" % (DIRS[dirs[i]], ids[i])) for i in range(3)]
    ds = _DS(rgs)
    ds._sort_part_names(write_fmd=True, open_with=None)
    # which file ends up with which number is the function's business; what must hold is that no rename lands on an
    # existing file, every row group still points at an existing file of its own directory, and nothing is orphaned
    got = [rg.columns[0].file_path for rg in ds.fmd.row_groups]
    same_dirs = all(g.startswith(DIRS[dirs[i]]) and g.count("/") == DIRS[dirs[i]].count("/") for i, g in enumerate(got))
    return same_dirs and not ds.fs.clobbered and _invariant(ds) and [rg.num_rows for rg in ds.fmd.row_groups] == [
        5, 6, 7]


def replay_h_sort_part_names_shared_ids(i0, i1, i2, d0, d1, d2):
    """the witness state built on disk (one real part file per row group, summary written by merge() in the witness
    order), then the real ParquetFile._sort_part_names"""
    import shutil, tempfile
    import pandas as pd
    import fastparquet
    from fastparquet import writer as w
    ids, dirs = [i0, i1, i2], [d0, d1, d2]
    d = tempfile.mkdtemp(prefix="c09-")
    try:
        dn = os.path.join(d, "ds")
        paths = []
        for i in range(3):
            sub = os.path.join(dn, DIRS[dirs[i]])
            os.makedirs(sub, exist_ok=True)
            fn = os.path.join(sub, "part.%d.parquet" % ids[i])
            fastparquet.write(fn, pd.DataFrame({"v": [10 * i, 10 * i + 1]}))
            paths.append(fn)
        w.merge(paths, root=dn)
        pf = fastparquet.ParquetFile(dn)
        before = [int(x) for x in pf.to_pandas()["v"]]
        try:
            pf._sort_part_names()
            pf2 = fastparquet.ParquetFile(dn)
            out = [int(x) for x in pf2.to_pandas()["v"]]
        except Exception as ex:
            return True, "renumbering the part files %r fails: %s: %s" % (
                [os.path.relpath(p, dn) for p in paths], type(ex).__name__, str(ex)[:100])
        files = sorted(os.path.relpath(os.path.join(dp, f), dn) for dp, _, fs in os.walk(dn) for f in fs
                       if f.startswith("part."))
        ref = sorted(rg.columns[0].file_path for rg in pf2.row_groups)
        if out != before or files != ref:
            return True, "renumbering the part files %r: rows %r (were %r); files on disk %r, referenced %r" % (
                [os.path.relpath(p, dn) for p in paths], out, before, files, ref)
        return False, "renumbering kept content and directory in agreement"
    finally:
        shutil.rmtree(d, ignore_errors=True)


# ------------------------------------------------------------------ overwrite of partitions ---
import fastparquet.writer as writer

PV = [1, 2]
QV = ["x", "y"]
COMBOS = [(p, q) for p in PV for q in QV]


class _ColVals:
    """one column of the selection (pandas Series contract: astype / map are elementwise)"""

    def __init__(self, vals):
        self.vals = list(vals)

    def astype(self, t):
        return _ColVals([str(v) for v in self.vals]) if t is str else self

    def map(self, fn):
        return _ColVals([fn(v) for v in self.vals])


class _Cols:
    """data.loc[:, cols]: astype(str) / apply(column function) are elementwise, agg(fn, axis=1) is row-wise"""

    def __init__(self, rows, cols):
        self.rows, self.cols = rows, cols

    def astype(self, t):
        if t is str:
            return _Cols([{c: str(r[c]) for c in self.cols} for r in self.rows], self.cols)
        return self

    def apply(self, fn):
        out = {c: fn(_ColVals([r[c] for r in self.rows])).vals for c in self.cols}
        return _Cols([{c: out[c][i] for c in self.cols} for i in range(len(self.rows))], self.cols)

    def agg(self, fn, axis=1):
        return [fn([r[c] for c in self.cols]) for r in self.rows]


class _Loc:
    def __init__(self, data):
        self.data = data

    def __getitem__(self, key):
        _, cols = key
        return _Cols(self.data.rows, list(cols))


class _NewData:
    """the frame handed to overwrite: rows with partition values, columns in a given order"""

    def __init__(self, combos, columns):
        self.rows = [{"p": p, "q": q, "v": 0} for p, q in combos]
        self.columns = columns
        self.loc = _Loc(self)


class _PDx:
    @staticmethod
    def unique(xs):
        out = []
        for x in xs:
            if x not in out:
                out.append(x)
        return out


class _OWHandle(_DS):
    cats = {"p": [1, 2], "q": ["x", "y"]}        # directory order: p then q

    def __init__(self, rgs, new_combos):
        _DS.__init__(self, rgs)
        self.new_combos = new_combos

    def _get_index(self):
        return []

    def write_row_groups(self, data, row_group_offsets=None, sort_key=None, sort_pnames=False, compression=None,
                         write_fmd=True, open_with=None, mkdirs=None, stats=True):
        # model of the append step (its own behaviour is C07's subject): one new part file per partition combination
        nxt = 50
        rgs = list(self.fmd.row_groups)
        for p, q in self.new_combos:
            path = "p=%d/q=%s/part.%d.parquet" % (p, q, nxt)
            rgs.append(_rg(1000 + nxt, path))
            self.fs.files.add("d/" + path)
            nxt += 1
        self.fmd.row_groups = sorted(rgs, key=sort_key) if sort_key else rgs
        self.fmd.num_rows = sum(r.num_rows for r in self.fmd.row_groups)


def h_overwrite(e0: bool, e1: bool, e2: bool, e3: bool, n0: bool, n1: bool, n2: bool, n3: bool, qfirst: bool) -> bool:
    """
    pre: n0 or n1 or n2 or n3
    post: __return__
    """
    # existing dataset partitioned on p, q (directories p=<1|2>/q=<x|y>) holding the combinations flagged e*; the new
    # frame holds the combinations flagged n*, with its columns ordered p,q or q,p.  After the real overwrite():
    # exactly the combinations present in the new data were replaced, all others untouched, directory == metadata.
    existing = [c for c, f in zip(COMBOS, (e0, e1, e2, e3)) if f]
    new = [c for c, f in zip(COMBOS, (n0, n1, n2, n3)) if f]
    rgs = [_rg(10 + i, "p=%d/q=%s/part.%d.parquet" % (p, q, i)) for i, (p, q) in enumerate(existing)]
    handle = _OWHandle(rgs, new)
    data = _NewData(new, ["v", "q", "p"] if qfirst else ["v", "p", "q"])
    saved = (writer.ParquetFile, writer.pd, writer.reset_row_idx)
    writer.ParquetFile = lambda *a, **k: handle
    writer.pd = _PDx
    try:
        writer.overwrite("d", data, sort_pnames=False, open_with=None)
    finally:
        writer.ParquetFile, writer.pd, writer.reset_row_idx = saved
    got = []
    for rg in handle.fmd.row_groups:
        fp = rg.columns[0].file_path
        parts = fp.split("/")
        got.append((int(parts[0][2:]), parts[1][2:], rg.num_rows >= 1000))
    want_old = [(p, q, False) for (p, q) in existing if (p, q) not in new]
    want_new = [(p, q, True) for (p, q) in new]
    return sorted(got) == sorted(want_old + want_new) and _invariant(handle)


def replay_h_overwrite(e0, e1, e2, e3, n0, n1, n2, n3, qfirst):
    import shutil, tempfile
    import pandas as pd
    import fastparquet
    existing = [c for c, f in zip(COMBOS, (e0, e1, e2, e3)) if f]
    new = [c for c, f in zip(COMBOS, (n0, n1, n2, n3)) if f]
    if not existing:
        return None, "empty existing dataset"
    d = tempfile.mkdtemp(prefix="c09-")
    try:
        dn = os.path.join(d, "ds")
        old = pd.DataFrame({"v": list(range(len(existing))), "p": [c[0] for c in existing],
                            "q": [c[1] for c in existing]})
        fastparquet.write(dn, old, file_scheme="hive", partition_on=["p", "q"])
        nd = pd.DataFrame({"v": [100 + i for i in range(len(new))], "p": [c[0] for c in new], "q": [c[1] for c in new]})
        nd = nd[["v", "q", "p"]] if qfirst else nd[["v", "p", "q"]]
        fastparquet.write(dn, nd, file_scheme="hive", partition_on=["p", "q"], append="overwrite")
        out = fastparquet.ParquetFile(dn).to_pandas()
        got = sorted((int(r.p), str(r.q), int(r.v)) for r in out.itertuples())
        want = sorted([(p, q, i) for i, (p, q) in enumerate(existing) if (p, q) not in new] +
                      [(p, q, 100 + i) for i, (p, q) in enumerate(new)])
        if got != want:
            return True, "overwrite of partitions %r (frame columns %r) over a dataset holding %r leaves rows %r, the " \
                         "model predicts %r" % (new, list(nd.columns), existing, got, want)
        return False, "model and dataset agree"
    finally:
        shutil.rmtree(d, ignore_errors=True)


# ------------------------------------------------------------------ the handle after an edit made through it ---
def _stat_handle(rows, maxes):
    import struct
    from fastparquet import parquet_thrift as pt
    rgs = []
    for i, (n, m) in enumerate(zip(rows, maxes)):
        st = pt.Statistics(null_count=0, max=struct.pack("<q", m), min=struct.pack("<q", m - 5))
        md = pt.ColumnMetaData(type=2, encodings=[0], path_in_schema=["a"], codec=0, num_values=n,
                               total_uncompressed_size=8, total_compressed_size=8, data_page_offset=4, statistics=st)
        rgs.append(pt.RowGroup(columns=[pt.ColumnChunk(file_offset=4, meta_data=md, file_path="part.%d.parquet" % i)],
                               total_byte_size=8, num_rows=n))
    fmd = pt.FileMetaData(version=1, schema=[pt.SchemaElement(name="schema", num_children=1),
                                              pt.SchemaElement(name="a", type=2, repetition_type=0)],
                          num_rows=sum(rows), row_groups=rgs, created_by=b"fastparquet-python version 1 (build 0)")
    pf = object.__new__(ParquetFile)
    pf.__setstate__({"fn": "d/_metadata", "open": None, "fmd": fmd, "pandas_nulls": True, "_base_dtype": None,
                     "tz": None, "_columns_dtype": None})
    return pf


def h_handle_after_remove(n0: int, n1: int, n2: int, drop: int, looked: bool) -> bool:
    """
    pre: 1 <= n0 <= 1000 and 1 <= n1 <= 1000 and 1 <= n2 <= 1000 and 0 <= drop <= 2
    post: __return__
    """
    # a real handle over three part files; one row group is removed THROUGH the handle (possibly after its statistics
    # were looked at): what the handle then reports - row groups, counts, per-row-group statistics - describes the two
    # row groups that are left
    drop = _pick(drop, 0, 2)
    rows, maxes = [n0, n1, n2], [10, 20, 30]
    pf = _stat_handle(rows, maxes)
    if looked:
        if [int(x) for x in pf.statistics["max"]["a"]] != maxes:
            return False
    removed = []
    pf.remove_row_groups(pf.row_groups[drop], write_fmd=False, remove_with=lambda paths: removed.extend(paths))
    keep = [i for i in range(3) if i != drop]
    st = pf.statistics
    return (removed == ["d/part.%d.parquet" % drop] and len(pf.row_groups) == 2 and
            pf.count() == rows[keep[0]] + rows[keep[1]] and pf.info["rows"] == rows[keep[0]] + rows[keep[1]] and
            [int(x) for x in st["max"]["a"]] == [maxes[i] for i in keep] and
            [int(x) for x in st["min"]["a"]] == [maxes[i] - 5 for i in keep])


def replay_h_handle_after_remove(n0, n1, n2, drop, looked):
    import shutil, tempfile
    import pandas as pd
    import fastparquet
    d = tempfile.mkdtemp(prefix="c09-")
    try:
        dn = os.path.join(d, "ds")
        fastparquet.write(dn, pd.DataFrame({"a": [1, 2, 11, 12, 21, 22]}), file_scheme="hive",
                          row_group_offsets=[0, 2, 4], stats=True)
        pf = fastparquet.ParquetFile(dn)
        if looked:
            pf.statistics
        pf.remove_row_groups(pf.row_groups[drop])
        got = [int(x) for x in pf.statistics["max"]["a"]]
        want = [int(x) for x in fastparquet.ParquetFile(dn).statistics["max"]["a"]]
        if got != want or pf.count() != 4:
            return True, "after remove_row_groups (row group %d of 3%s) the handle reports max(a) per row group = %r, " \
                         "count() = %d; a fresh handle reports %r" % (
                             drop, ", statistics read before" if looked else "", got, pf.count(), want)
        return False, "handle describes what is left"
    finally:
        shutil.rmtree(d, ignore_errors=True)


# ------------------------------------------------------------------ directory labels of partition values ---
import numpy as _np
import fastparquet.util as _util

LABEL_VALUES = [1, 1.0, True, _np.int64(1), "1", 0, 0.0, False, _np.float64(1.0), 2.5]


class _MemoModel:
    """functools caches are keyed by argument equality (and hash): CrossHair executes the undecorated function, so the
    memoisation a decorator adds is modelled explicitly"""

    def __init__(self, fn):
        self.fn, self.seen = fn, {}

    def __call__(self, arg):
        if arg not in self.seen:
            self.seen[arg] = self.fn(arg)
        return self.seen[arg]


def h_path_string_sequence(i0: int, i1: int, i2: int) -> bool:
    """
    pre: 0 <= i0 < 10 and 0 <= i1 < 10 and 0 <= i2 < 10
    post: __return__
    """
    # the directory label of a partition value is its own text, whatever values were labelled before it in this
    # process (1, 1.0, True and numpy's 1 are equal and hash alike - their labels are '1', '1.0', 'True', '1')
    vals = [LABEL_VALUES[_pick(i, 0, 9)] for i in (i0, i1, i2)]
    fn = _util.path_string
    if hasattr(fn, "cache_info"):
        fn = _MemoModel(fn.__wrapped__)
    return [fn(v) for v in vals] == [str(v) for v in vals]


def replay_h_path_string_sequence(i0, i1, i2):
    import shutil, tempfile
    import pandas as pd
    import fastparquet
    vals = [LABEL_VALUES[i] for i in (i0, i1, i2)]
    if hasattr(_util.path_string, "cache_clear"):
        _util.path_string.cache_clear()
    got = [_util.path_string(v) for v in vals]
    if got != [str(v) for v in vals]:
        return True, "path_string over %r (in this order) gives %r" % (vals, got)
    return False, "each value has its own label"


def h_readonly_leaves_statistics(n0: int, n1: int, n2: int, lo: int) -> bool:
    """
    pre: 1 <= n0 <= 1000 and 1 <= n1 <= 1000 and 1 <= n2 <= 1000 and 0 <= lo <= 40
    post: __return__
    """
    # read-only questions put to a shared handle - which columns are sorted across the row groups that a filter keeps -
    # leave what the handle reports about itself (its per-row-group statistics) as it was
    from fastparquet import api as api_mod
    rows, maxes = [n0, n1, n2], [10, 20, 30]
    pf = _stat_handle(rows, maxes)
    before = {k: {c: [int(x) for x in v] for c, v in d.items()} for k, d in pf.statistics.items() if k in ("max", "min")}
    out = api_mod.sorted_partitioned_columns(pf, filters=[("a", ">", lo)])
    after = {k: {c: [int(x) for x in v] for c, v in d.items()} for k, d in pf.statistics.items() if k in ("max", "min")}
    kept = [m for m in maxes if m > lo]
    ok = after == before and after["max"]["a"] == maxes
    if len(kept) >= 1:
        ok = ok and [int(x) for x in out.get("a", {}).get("max", [])] == kept
    return ok


def replay_h_readonly_leaves_statistics(n0, n1, n2, lo):
    import shutil, tempfile
    import pandas as pd
    import fastparquet
    from fastparquet import api as api_mod
    d = tempfile.mkdtemp(prefix="c20-")
    try:
        fn = os.path.join(d, "t.parq")
        fastparquet.write(fn, pd.DataFrame({"a": [6, 10, 16, 20, 26, 30]}), row_group_offsets=[0, 2, 4], stats=True)
        pf = fastparquet.ParquetFile(fn)
        before = [int(x) for x in pf.statistics["max"]["a"]]
        api_mod.sorted_partitioned_columns(pf, filters=[("a", ">", lo)])
        after = [int(x) for x in pf.statistics["max"]["a"]]
        if after != before:
            return True, "after sorted_partitioned_columns(pf, filters=[('a','>',%d)]) the handle's statistics report " \
                         "max(a) = %r for its 3 row groups (before: %r)" % (lo, after, before)
        return False, "statistics untouched"
    finally:
        shutil.rmtree(d, ignore_errors=True)
