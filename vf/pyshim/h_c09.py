"""C09 - dataset edits: one inductive step per operation from a symbolic dataset state.
Real api.ParquetFile.remove_row_groups and _sort_part_names on a shim handle (real RowGroup objects, SymFS-like
rename/remove log).  Invariant I: every referenced file exists, no unreferenced part file, num_rows = sum."""
import os
from typing import List

from vf.pyshim.kit import REPLAY

import fastparquet.api as api
from fastparquet.api import ParquetFile
from fastparquet import parquet_thrift

LIM = 1 << 40


def _rg(rows, path):
    md = parquet_thrift.ColumnMetaData(type=2, path_in_schema=["a"], num_values=rows)
    return parquet_thrift.RowGroup(num_rows=rows, total_byte_size=rows,
                                   columns=[parquet_thrift.ColumnChunk(meta_data=md, file_path=path)])


class _FSx:
    def __init__(self, files):
        self.files = set(files)
        self.log = []
        self.clobbered = False

    def rm(self, paths):
        for p in paths:
            self.log.append(("rm", p))
            self.files.discard(p)

    def rename(self, src, dst):
        self.log.append(("mv", src, dst))
        if dst in self.files or src not in self.files:
            self.clobbered = True
        self.files.discard(src)
        self.files.add(dst)


class _DS:
    """the attributes remove_row_groups / _sort_part_names touch"""
    file_scheme = "hive"
    created_by = b"fastparquet-python"
    basepath = "d"
    fn = "d/_metadata"

    def __init__(self, rgs):
        self.fmd = parquet_thrift.FileMetaData(version=1, schema=[], num_rows=sum(r.num_rows for r in rgs),
                                               row_groups=list(rgs), created_by="x")
        self.fs = _FSx(["d/" + r.columns[0].file_path for r in rgs])
        self.meta_writes = 0

    @property
    def row_groups(self):
        return self.fmd.row_groups

    def _set_attrs(self):
        pass

    def _write_common_metadata(self, open_with=None):
        self.meta_writes += 1

    remove_row_groups = ParquetFile.remove_row_groups
    _sort_part_names = ParquetFile._sort_part_names


DIRS = ["", "k=1/", "k=2/"]


def _invariant(ds):
    ref = ["d/" + rg.columns[0].file_path for rg in ds.fmd.row_groups]
    rows = 0
    for rg in ds.fmd.row_groups:
        rows += rg.num_rows
    return set(ref) == ds.fs.files and len(set(ref)) == len(ref) and ds.fmd.num_rows == rows


def h_remove_row_groups(r0: int, r1: int, r2: int, d0: int, d1: int, d2: int, x0: bool, x1: bool, x2: bool,
                        n: int) -> bool:
    """
    pre: 1 <= n <= 3 and 0 <= r0 < LIM and 0 <= r1 < LIM and 0 <= r2 < LIM
    pre: 0 <= d0 <= 2 and 0 <= d1 <= 2 and 0 <= d2 <= 2
    post: __return__
    """
    # n row groups (one part file each, in partition directories chosen by d*), remove the subset flagged by x*
    rows, dirs, flags = [r0, r1, r2][:n], [d0, d1, d2][:n], [x0, x1, x2][:n]
    rgs = [_rg(rows[i], "%spart.%d.parquet" % (DIRS[dirs[i]], i)) for i in range(n)]
    ds = _DS(rgs)
    if not _invariant(ds):
        return True
    chosen = [rg for rg, x in zip(rgs, flags) if x]
    ds.remove_row_groups(chosen, open_with=None)
    kept = [i for i in range(n) if not flags[i]]
    want_paths = ["%spart.%d.parquet" % (DIRS[dirs[i]], i) for i in kept]
    got_paths = [rg.columns[0].file_path for rg in ds.fmd.row_groups]
    removed = sorted(p for op, p in [e for e in ds.fs.log if e[0] == "rm"])
    want_removed = sorted("d/%spart.%d.parquet" % (DIRS[dirs[i]], i) for i in range(n) if flags[i])
    return (got_paths == want_paths and removed == want_removed and _invariant(ds) and ds.meta_writes == 1)


def replay_h_remove_row_groups(r0, r1, r2, d0, d1, d2, x0, x1, x2, n):
    import shutil, tempfile
    import pandas as pd
    import fastparquet
    flags = [x0, x1, x2][:n]
    d = tempfile.mkdtemp(prefix="c09-")
    try:
        dn = os.path.join(d, "ds")
        df = pd.DataFrame({"a": list(range(2 * n))})
        fastparquet.write(dn, df, file_scheme="hive", row_group_offsets=list(range(0, 2 * n, 2)))
        pf = fastparquet.ParquetFile(dn)
        pf.remove_row_groups([rg for rg, x in zip(pf.row_groups, flags) if x])
        want = [v for i in range(n) if not flags[i] for v in (2 * i, 2 * i + 1)]
        pf2 = fastparquet.ParquetFile(dn)
        got = list(pf2.to_pandas()["a"]) if want else []
        files = sorted(f for f in os.listdir(dn) if f.startswith("part."))
        ref = sorted(rg.columns[0].file_path for rg in pf2.row_groups)
        if got != want or files != ref:
            return True, "after removing row groups %r of %d: rows %r (expected %r), files %r, referenced %r" % (
                flags, n, got, want, files, ref)
        return False, "model and directory agree"
    finally:
        shutil.rmtree(d, ignore_errors=True)


PERMS = [[0, 1, 2], [0, 2, 1], [1, 0, 2], [1, 2, 0], [2, 0, 1], [2, 1, 0], [3, 1, 5], [0, 7, 1], [4, 2, 0]]


def h_sort_part_names(pi: int, d0: int, d1: int, d2: int) -> bool:
    """
    pre: 0 <= pi < 9 and 0 <= d0 <= 2 and 0 <= d1 <= 2 and 0 <= d2 <= 2
    post: __return__
    """
    # three row groups whose part-file ids are any of the listed arrangements: after renumbering, row group i lives in
    # part.i.parquet of its own partition directory, no rename ever lands on an existing file, directory == metadata
    ids, dirs = PERMS[pi], [d0, d1, d2]
    rgs = [_rg(5 + i, "%spart.%d.parquet" % (DIRS[dirs[i]], ids[i])) for i in range(3)]
    ds = _DS(rgs)
    ds._sort_part_names(write_fmd=True, open_with=None)
    want = ["%spart.%d.parquet" % (DIRS[dirs[i]], i) for i in range(3)]
    got = [rg.columns[0].file_path for rg in ds.fmd.row_groups]
    return got == want and not ds.fs.clobbered and _invariant(ds) and [rg.num_rows for rg in ds.fmd.row_groups] == [
        5, 6, 7]


def replay_h_sort_part_names(pi, d0, d1, d2):
    return None, "no concrete driver"
