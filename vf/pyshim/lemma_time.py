"""Lemma (C01): timestamps survive the writer's integer encoding and the reader's decoding, for every instant.

Two encodings, both lifted from the live source on every run:

A. INT96 (times='int96').  The statements of the `INT96` branch of writer.convert (Julian day / nanoseconds within the
   day of the int64 nanosecond count V) and the return expression of the INT96 branch of converted_types.convert are
   interpreted over z3 integers - numpy's elementwise semantics for the operators and functions that occur: `//` and
   `%` floor (sign of the divisor), np.fmod / C remainder truncates, np.floor_divide, np.mod/np.remainder, np.divmod;
   the `day` field is stored as int32, the result is an int64.  Query: exists V in the datetime64[ns] range with
   reader(writer(V)) != V.

B. INT64 timestamps.  For every datetime64 unit u the live writer.find_type chooses the annotation, the live
   writer.time_factors gives the factor f of writer.convert's multiplication (the expression is taken from the AST), and
   the reader's unit u' is read off the dtype that the live converted_types.convert gives an int64 array of that
   annotation.  Query: exists V with  ns(u') * (V * f) != ns(u) * V.

A model is replayed by writing and reading a real frame holding that instant."""
import ast
import inspect
import os
import sys
import textwrap
import time

import z3

STAGE = os.environ.get("VERIF_STAGE")
if STAGE and STAGE not in sys.path:
    sys.path.insert(0, STAGE)

from vf.pyshim.astz3 import Untranslatable, pyfloordiv, pymod
from vf.pyshim.lemmas import _res, _check

NS = {"s": 10 ** 9, "ms": 10 ** 6, "us": 10 ** 3, "ns": 1}


def _trunc_div(a, b):
    """C division (toward zero) for a positive constant divisor"""
    q = pyfloordiv(a, b)
    return z3.If(z3.And(a < 0, a - b * q != 0), q + 1, q)


def _wrap(v, bits):
    m, h = 2 ** bits, 2 ** (bits - 1)
    return pymod(v + h, m) - h


class _Rec(dict):
    """structured array with integer fields: assignment wraps to the field width"""
    WIDTH = {"ns": 64, "day": 32}

    def store(self, key, v):
        self[key] = _wrap(v, self.WIDTH.get(key, 64))


class _Ev:
    def __init__(self, env, consts):
        self.env, self.consts = env, consts

    def ev(self, n):
        if isinstance(n, ast.Constant):
            if isinstance(n.value, (int, str)) and not isinstance(n.value, bool):
                return n.value
            raise Untranslatable("constant %r" % (n.value,))
        if isinstance(n, ast.Name):
            if n.id in self.env:
                return self.env[n.id]
            if n.id in self.consts:
                return self.consts[n.id]
            raise Untranslatable("free name " + n.id)
        if isinstance(n, ast.BinOp):
            a, b = self.ev(n.left), self.ev(n.right)
            if isinstance(n.op, ast.Add):
                return a + b
            if isinstance(n.op, ast.Sub):
                return a - b
            if isinstance(n.op, ast.Mult):
                return a * b
            if isinstance(n.op, ast.FloorDiv) and isinstance(b, int) and b > 0:
                return pyfloordiv(a, b) if z3.is_expr(a) else a // b
            if isinstance(n.op, ast.Mod) and isinstance(b, int) and b > 0:
                return pymod(a, b) if z3.is_expr(a) else a % b
            raise Untranslatable("operator %s" % type(n.op).__name__)
        if isinstance(n, ast.UnaryOp) and isinstance(n.op, ast.USub):
            return -self.ev(n.operand)
        if isinstance(n, ast.Tuple):
            return tuple(self.ev(e) for e in n.elts)
        if isinstance(n, ast.Dict):
            return {self.ev(k): self.ev(v) for k, v in zip(n.keys, n.values)}
        if "UNIT" in self.env and ast.unparse(n).replace('"', "'") == "str(dtype).split('[')[1][:-1].split(',')[0]":
            return self.env["UNIT"]             # the unit text of the column's datetime64[unit(, tz)] dtype
        if isinstance(n, ast.Subscript):
            base = self.ev(n.value)
            if isinstance(base, dict):
                key = self.ev(n.slice)
                if key in base:
                    return base[key]
                raise Untranslatable("no entry %r in %s" % (key, ast.unparse(n.value)[:40]))
            key = self.ev(n.slice)
            if isinstance(base, _Rec) and key in base:
                return base[key]
            if isinstance(base, tuple) and isinstance(key, int):
                return base[key]
            raise Untranslatable("subscript " + ast.unparse(n))
        if isinstance(n, ast.Attribute):
            txt = ast.unparse(n)
            if txt in self.env:
                return self.env[txt]
            raise Untranslatable("attribute " + txt)
        if isinstance(n, ast.Call):
            f = ast.unparse(n.func)
            if f in ("data.values.view", "data.view") and len(n.args) == 1:
                a0 = n.args[0]
                if isinstance(a0, ast.Constant) and a0.value in ("int64", "i8", "<i8"):
                    return self.env["V"]
                if "REC" in self.env:
                    return self.env["REC"]          # view as the (ns, day) record
                raise Untranslatable("view " + ast.unparse(n))
            if f.endswith(".view") and len(n.args) == 1:
                return self.ev(n.func.value)        # reinterpretation of an int64 result as datetime64: same integer
            if f in ("np.int64", "np.int32", "int"):
                return self.ev(n.args[0])
            if f == "np.empty":
                return _Rec()
            if f == "len":
                return 1
            for k in n.keywords:
                if k.arg not in ("out", "casting", "dtype"):
                    raise Untranslatable("keyword %s of %s" % (k.arg, f))
            args = [self.ev(a) for a in n.args]
            if f in ("np.fmod",) and isinstance(args[1], int) and args[1] > 0:
                return args[0] - args[1] * _trunc_div(args[0], args[1])
            if f in ("np.mod", "np.remainder") and isinstance(args[1], int) and args[1] > 0:
                return pymod(args[0], args[1])
            if f in ("np.floor_divide",) and isinstance(args[1], int) and args[1] > 0:
                return pyfloordiv(args[0], args[1])
            if f in ("np.divmod", "divmod") and isinstance(args[1], int) and args[1] > 0:
                return (pyfloordiv(args[0], args[1]), pymod(args[0], args[1]))
            if f in ("np.abs", "abs"):
                return z3.If(args[0] < 0, -args[0], args[0])
            raise Untranslatable("call " + f)
        raise Untranslatable(type(n).__name__ + ": " + ast.unparse(n)[:60])

    def run(self, stmts):
        for st in stmts:
            if isinstance(st, ast.Assign) and len(st.targets) == 1:
                tgt = st.targets[0]
                val = self.ev(st.value)
                if isinstance(tgt, ast.Name):
                    self.env[tgt.id] = val
                elif isinstance(tgt, ast.Tuple) and isinstance(val, tuple):
                    for t, v in zip(tgt.elts, val):
                        self.env[t.id] = v
                elif isinstance(tgt, ast.Subscript) and isinstance(self.ev(tgt.value), _Rec):
                    self.ev(tgt.value).store(self.ev(tgt.slice), val)
                else:
                    raise Untranslatable("assignment to " + ast.unparse(tgt))
            elif isinstance(st, ast.AugAssign) and isinstance(st.target, ast.Name):
                cur = self.env[st.target.id]
                self.env[st.target.id] = self.ev(ast.BinOp(left=ast.Name(id=st.target.id, ctx=ast.Load()), op=st.op,
                                                           right=st.value))
            elif isinstance(st, ast.AugAssign) and isinstance(st.target, ast.Subscript) and \
                    isinstance(self.ev(st.target.value), _Rec):
                # field op= value (numpy in-place arithmetic on a record field: result wraps to the field width)
                load = ast.Subscript(value=st.target.value, slice=st.target.slice, ctx=ast.Load())
                val = self.ev(ast.BinOp(left=load, op=st.op, right=st.value))
                self.ev(st.target.value).store(self.ev(st.target.slice), val)
            elif isinstance(st, ast.Expr) and isinstance(st.value, ast.Call) and \
                    any(k.arg == "out" for k in st.value.keywords):
                # ufunc(..., out=<target>): the value is stored into the target
                tgt = [k.value for k in st.value.keywords if k.arg == "out"][0]
                val = self.ev(st.value)
                if isinstance(tgt, ast.Subscript) and isinstance(self.ev(tgt.value), _Rec):
                    self.ev(tgt.value).store(self.ev(tgt.slice), val)
                elif isinstance(tgt, ast.Name):
                    self.env[tgt.id] = val
                else:
                    raise Untranslatable("out= target " + ast.unparse(tgt))
            elif isinstance(st, ast.Expr) and isinstance(st.value, ast.Constant):
                continue
            elif isinstance(st, ast.Return):
                return self.ev(st.value)
            else:
                raise Untranslatable("statement " + ast.unparse(st)[:60])
        return None


def _branch(fn, predicate):
    """body of the first if/elif of `fn` whose test text satisfies predicate"""
    tree = ast.parse(textwrap.dedent(inspect.getsource(fn)))
    for node in ast.walk(tree):
        if isinstance(node, ast.If) and predicate(ast.unparse(node.test)):
            return node.body
    return None


def time_roundtrip():
    import numpy as np
    import pandas as pd
    import fastparquet.writer as writer
    import fastparquet.converted_types as ct
    from fastparquet import parquet_thrift as pt
    res = _res("lemma.time_roundtrip[writer.convert/converted_types.convert]",
               ["writer.convert (INT96 and datetime branches)", "writer.find_type", "writer.time_factors",
                "converted_types.convert (INT96 and timestamp branches)"], {})
    V = z3.Int("V")
    # ---- A: INT96, every unit of the column (V = the count in that unit) ------------------------------------------
    for unit in ("ns", "us", "ms", "s"):
        lim = (2 ** 63 - 1) // NS[unit]             # instants a datetime64[ns] can hold (the reader's dtype)
        s = z3.Solver()
        s.set("timeout", 120000)
        s.add(V >= -lim, V <= lim)
        try:
            wbody = _branch(writer.convert, lambda t: "INT96" in t and "kind" in t)
            rbody = _branch(ct.convert, lambda t: "INT96" in t)
            if wbody is None or rbody is None:
                raise Untranslatable("INT96 branches not found")
            w = _Ev({"V": V, "UNIT": unit}, {"time_factors": dict(writer.time_factors)})
            w.run(wbody)
            rec = w.env.get("out")
            if not isinstance(rec, _Rec) or set(rec) != {"ns", "day"}:
                raise Untranslatable("writer INT96 branch does not fill the (ns, day) record")
            r = _Ev({"V": None, "REC": rec}, {"DAYS_TO_NANOS": int(ct.DAYS_TO_NANOS)})
            back = r.run(rbody)
            if back is None:
                raise Untranslatable("reader INT96 branch has no return value")
            back = _wrap(back, 64)
        except Untranslatable as ex:
            res["status"] = "inconclusive"
            res["inconclusive"].append("INT96[%s]: %s" % (unit, ex))
            return res
        q = _check(res, s, back != NS[unit] * V)
        if q == "sat":
            v = s.model().eval(V, model_completion=True).as_long()
            res["status"] = "violation"
            res["findings"].append(dict(
                kind="contract", function="writer.convert/converted_types.convert", obligation="INT96 round trip",
                detail="the datetime64[%s] count %d (%s) is stored as an INT96 that decodes to another instant" % (
                    unit, v, np.datetime64(v, unit)),
                shape=dict(harness="lemma.time_roundtrip", encoding="int96", unit=unit), cls="lemma:time_roundtrip",
                witness=dict(driver="py:vf.pyshim.lemma_time:replay_time", args=dict(v=v, unit=unit, times="int96"))))
            return res
        if q == "unknown":
            res["status"] = "inconclusive"
            res["inconclusive"].append("solver unknown (INT96, %s)" % unit)
            return res
    # ---- B: INT64 timestamps, every unit ----------------------------------------------------------------
    mbody = _branch(writer.convert, lambda t: t.strip() == "dtype.kind == 'M'")
    mul = None
    for st in ast.walk(ast.Module(body=mbody or [], type_ignores=[])):
        if isinstance(st, ast.Assign) and ast.unparse(st.targets[0]) == "out" and isinstance(st.value, ast.BinOp):
            mul = st.value
    if mul is None:
        res["status"] = "inconclusive"
        res["inconclusive"].append("datetime branch of writer.convert: `out = ... * factor` not found")
        return res
    reached = 0
    for unit in ("s", "ms", "us", "ns"):
        ser = pd.Series(np.array([0], dtype="M8[%s]" % unit))
        try:
            se, _ = writer.find_type(ser, times="int64")
        except Exception as ex:
            res["status"] = "inconclusive"
            res["inconclusive"].append("find_type(M8[%s]): %s" % (unit, ex))
            return res
        if se.converted_type is not None:
            key = (se.converted_type, unit)
        else:
            lu = [k for k, v in se.logicalType.TIMESTAMP.unit._asdict().items() if v is not None][0]
            key = (lu, unit)
        if key not in writer.time_factors:
            res["status"] = "violation"
            res["findings"].append(dict(
                kind="contract", function="writer.convert", obligation="time factor defined",
                detail="no time factor for a datetime64[%s] column annotated %r" % (unit, key),
                shape=dict(harness="lemma.time_roundtrip", unit=unit), cls="lemma:time_roundtrip",
                witness=dict(driver="py:vf.pyshim.lemma_time:replay_time", args=dict(v=1, unit=unit, times="int64"))))
            return res
        f = int(writer.time_factors[key])
        try:
            stored = _Ev({"V": V, "factor": f}, {}).ev(mul)
        except Untranslatable as ex:
            res["status"] = "inconclusive"
            res["inconclusive"].append("datetime branch: " + str(ex))
            return res
        probe = ct.convert(np.array([0], dtype="int64"), se)
        ru = str(probe.dtype).split("[")[1].rstrip("]") if "[" in str(probe.dtype) else None
        if ru not in NS:
            res["status"] = "inconclusive"
            res["inconclusive"].append("reader gives dtype %s for a datetime64[%s] column" % (probe.dtype, unit))
            return res
        s2 = z3.Solver()
        s2.set("timeout", 60000)
        s2.add(V >= -(2 ** 62) // max(f, 1), V <= (2 ** 62) // max(f, 1))
        q = _check(res, s2, NS[ru] * stored != NS[unit] * V)
        if q == "sat":
            v = s2.model().eval(V, model_completion=True).as_long()
            res["status"] = "violation"
            res["findings"].append(dict(
                kind="contract", function="writer.convert/converted_types.convert", obligation="timestamp unit round trip",
                detail="datetime64[%s] value %d is multiplied by %d and read back as datetime64[%s]: another instant" % (
                    unit, v, f, ru),
                shape=dict(harness="lemma.time_roundtrip", unit=unit), cls="lemma:time_roundtrip",
                witness=dict(driver="py:vf.pyshim.lemma_time:replay_time", args=dict(v=v, unit=unit, times="int64"))))
            return res
        if q == "unknown":
            res["status"] = "inconclusive"
            res["inconclusive"].append("solver unknown (unit %s)" % unit)
            return res
        reached += 1
    res["reached"] = reached + 1
    return res


def replay_time(v, unit, times):
    import shutil, tempfile
    import numpy as np
    import pandas as pd
    import fastparquet
    d = tempfile.mkdtemp(prefix="c01-")
    try:
        lim = {"ns": 2 ** 62, "us": 2 ** 59, "ms": 2 ** 49, "s": 2 ** 39}[unit]
        v = max(min(v, lim), -lim)
        vals = np.array([v, 0, v], dtype="M8[%s]" % unit)
        df = pd.DataFrame({"t": vals})
        fn = os.path.join(d, "t.parq")
        fastparquet.write(fn, df, times=times)
        try:
            out = fastparquet.ParquetFile(fn).to_pandas()["t"]
        except Exception as ex:
            return True, "datetime64[%s] column written with times=%r cannot be read back: %s: %s" % (
                unit, times, type(ex).__name__, str(ex)[:100])
        a = out.values.astype("M8[ns]").view("int64").tolist()
        b = df["t"].values.astype("M8[ns]").view("int64").tolist()
        if a != b:
            return True, "datetime64[%s] value %s written with times=%r comes back as %s" % (
                unit, vals[0], times, out.values[0])
        return False, "instants preserved"
    finally:
        shutil.rmtree(d, ignore_errors=True)


# ------------------------------------------------------------------------------------------------------
# C. timedelta64[ns] -> TIME_MICROS: writer.time_shift must store floor(v / 1000) (NaT kept), which the reader views
#    as timedelta64[us].  Interpreted over 64-bit vectors; true division (`/`, np.divide, np.true_divide) is IEEE
#    double arithmetic (z3 floating point), storing a float into the int64 output truncates toward zero.
class _BV:
    NAT = -(2 ** 63)

    def __init__(self, src_v):
        self.V = src_v
        self.out = None                    # value of the output buffer
        self.env = {}

    @staticmethod
    def fdiv(a, k):
        kk = z3.BitVecVal(k, 64)
        q, r = a / kk, z3.SRem(a, kk)
        return z3.If(z3.And(r != 0, a < 0), q - 1, q)

    def ev(self, n):
        if isinstance(n, ast.Constant) and isinstance(n.value, int):
            return z3.BitVecVal(n.value, 64)
        if isinstance(n, ast.Constant) and isinstance(n.value, str):
            return n.value
        if isinstance(n, ast.Name):
            if n.id in self.env:
                return self.env[n.id]
            if n.id == "indata":
                return self.V
            if n.id == "outdata":
                return "OUT"
            if n.id == "nat":
                return z3.BitVecVal(self.NAT, 64)
            if n.id == "factor":
                return 1000
            raise Untranslatable("free name " + n.id)
        if isinstance(n, ast.Call):
            f = ast.unparse(n.func)
            if f.endswith(".view") and len(n.args) == 1:
                return self.ev(n.func.value)
            if f == "np.where" and len(n.args) == 3:
                c, a, b = (self.ev(x) for x in n.args)
                return z3.If(c, self.tobv(a), self.tobv(b))
            if f in ("np.divide", "np.true_divide") and len(n.args) >= 2:
                return self.truediv(self.ev(n.args[0]), self.ev(n.args[1]))
            if f == "np.floor_divide" and len(n.args) >= 2:
                k = self.ev(n.args[1])
                if isinstance(k, int) and k > 0:
                    return self.fdiv(self.tobv(self.ev(n.args[0])), k)
            if f in ("np.trunc", "np.fix"):
                return ("fp-rtz", self.ev(n.args[0]))
            if f == "np.floor":
                return ("fp-rtn", self.ev(n.args[0]))
            raise Untranslatable("call " + f)
        if isinstance(n, ast.BinOp):
            a, b = self.ev(n.left), self.ev(n.right)
            if isinstance(n.op, ast.FloorDiv) and isinstance(b, int) and b > 0:
                return self.fdiv(self.tobv(a), b)
            if isinstance(n.op, ast.Div):
                return self.truediv(a, b)
            if isinstance(n.op, ast.Mult) and isinstance(b, int):
                return self.tobv(a) * z3.BitVecVal(b, 64)
            raise Untranslatable("operator " + type(n.op).__name__)
        if isinstance(n, ast.Compare) and len(n.ops) == 1 and isinstance(n.ops[0], (ast.Eq, ast.NotEq)):
            a, b = self.tobv(self.ev(n.left)), self.tobv(self.ev(n.comparators[0]))
            return a == b if isinstance(n.ops[0], ast.Eq) else a != b
        raise Untranslatable(ast.unparse(n)[:60])

    def truediv(self, a, b):
        fa = z3.fpSignedToFP(z3.RNE(), self.tobv(a), z3.Float64())
        fb = z3.FPVal(float(b), z3.Float64()) if isinstance(b, int) else z3.fpSignedToFP(z3.RNE(), self.tobv(b),
                                                                                           z3.Float64())
        return ("fp", z3.fpDiv(z3.RNE(), fa, fb))

    def tobv(self, v):
        """value as stored into an int64 array (casting='unsafe' / plain assignment of floats truncates toward zero)"""
        if isinstance(v, tuple) and v[0] == "fp":
            return z3.fpToSBV(z3.RTZ(), v[1], z3.BitVecSort(64))
        if isinstance(v, tuple) and v[0] in ("fp-rtz", "fp-rtn"):
            inner = v[1]
            if not (isinstance(inner, tuple) and inner[0] == "fp"):
                raise Untranslatable("rounding of a non-float")
            return z3.fpToSBV(z3.RTZ() if v[0] == "fp-rtz" else z3.RTN(), inner[1], z3.BitVecSort(64))
        if isinstance(v, str) and v == "OUT":
            if self.out is None:
                raise Untranslatable("output read before it is written")
            return self.out
        if isinstance(v, int):
            return z3.BitVecVal(v, 64)
        return v

    def run(self, stmts):
        for st in stmts:
            if isinstance(st, ast.Expr) and isinstance(st.value, ast.Constant):
                continue
            if isinstance(st, ast.Assign) and len(st.targets) == 1:
                tgt = st.targets[0]
                if isinstance(tgt, ast.Name):
                    self.env[tgt.id] = self.ev(st.value)
                    continue
                if isinstance(tgt, ast.Subscript) and isinstance(self.ev(tgt.value), str) and \
                        self.ev(tgt.value) == "OUT":
                    val = self.tobv(self.ev(st.value))
                    if isinstance(tgt.slice, ast.Slice) and tgt.slice.lower is None and tgt.slice.upper is None:
                        self.out = val
                    else:
                        mask = self.ev(tgt.slice)
                        if not z3.is_bool(mask):
                            raise Untranslatable("index " + ast.unparse(tgt.slice))
                        self.out = z3.If(mask, val, self.tobv("OUT"))
                    continue
                raise Untranslatable("assignment to " + ast.unparse(tgt))
            if isinstance(st, ast.Expr) and isinstance(st.value, ast.Call) and \
                    any(k.arg == "out" for k in st.value.keywords):
                tgt = [k.value for k in st.value.keywords if k.arg == "out"][0]
                if not (isinstance(self.ev(tgt), str) and self.ev(tgt) == "OUT"):
                    raise Untranslatable("out= target " + ast.unparse(tgt))
                self.out = self.tobv(self.ev(st.value))
                continue
            raise Untranslatable("statement " + ast.unparse(st)[:60])
        return self.out


def timedelta_micros():
    import numpy as np
    import fastparquet.writer as writer
    import fastparquet.converted_types as ct
    from fastparquet import parquet_thrift as pt
    res = _res("lemma.timedelta_micros[writer.time_shift]", ["writer.time_shift", "writer.convert (TIME_MICROS branch)",
                                                             "converted_types.convert (TIME_MICROS)"], {})
    V = z3.BitVec("V", 64)
    try:
        tree = ast.parse(textwrap.dedent(inspect.getsource(writer.time_shift)))
        out = _BV(V).run(tree.body[0].body)
        if out is None:
            raise Untranslatable("time_shift does not write its output")
    except Untranslatable as ex:
        res["status"] = "inconclusive"
        res["inconclusive"].append("time_shift: " + str(ex))
        return res
    # the reader views TIME_MICROS as timedelta64[us] (live probe of the dtype)
    se = pt.SchemaElement(type=pt.Type.INT64, converted_type=pt.ConvertedType.TIME_MICROS, name="t")
    probe = ct.convert(np.array([0], dtype="int64"), se)
    if str(probe.dtype) != "timedelta64[us]":
        res["status"] = "violation"
        res["findings"].append(dict(kind="contract", function="converted_types.convert", obligation="TIME_MICROS unit",
                                    detail="TIME_MICROS is read as %s" % probe.dtype,
                                    shape=dict(harness="lemma.timedelta_micros"), cls="lemma:timedelta_micros",
                                    witness=dict(driver="py:vf.pyshim.lemma_time:replay_timedelta", args=dict(v=1500))))
        return res
    nat = z3.BitVecVal(_BV.NAT, 64)
    want = z3.If(V == nat, nat, _BV.fdiv(V, 1000))
    s = z3.Solver()
    s.set("timeout", 240000)
    q = _check(res, s, out != want)
    if q == "sat":
        v = s.model().eval(V, model_completion=True).as_signed_long()
        res["status"] = "violation"
        res["findings"].append(dict(
            kind="contract", function="writer.time_shift", obligation="nanoseconds -> whole microseconds",
            detail="a timedelta64[ns] of %d ns is not stored as floor(v / 1000) microseconds" % v,
            shape=dict(harness="lemma.timedelta_micros"), cls="lemma:timedelta_micros",
            witness=dict(driver="py:vf.pyshim.lemma_time:replay_timedelta", args=dict(v=v))))
    elif q == "unknown":
        res["status"] = "inconclusive"
        res["inconclusive"].append("solver unknown")
    res["reached"] = 1
    return res


def replay_timedelta(v):
    import shutil, tempfile
    import numpy as np
    import pandas as pd
    import fastparquet
    d = tempfile.mkdtemp(prefix="c01-")
    try:
        vals = np.array([v, 0, 1999], dtype="m8[ns]")
        df = pd.DataFrame({"t": vals})
        fn = os.path.join(d, "t.parq")
        fastparquet.write(fn, df)
        out = fastparquet.ParquetFile(fn).to_pandas()["t"]
        got = out.values.astype("m8[us]").view("int64").tolist()
        want = [(x // 1000) if x != -(2 ** 63) else -(2 ** 63) for x in (v, 0, 1999)]
        if got != want:
            return True, "timedelta64[ns] value of %d ns comes back as %d us, expected %d us" % (v, got[0], want[0])
        return False, "whole microseconds preserved"
    finally:
        shutil.rmtree(d, ignore_errors=True)
