"""Real core.read_col page loop for a flat column (C03 second part, C13-F3): definition levels, null scatter,
dictionary dereference, several pages, optional row mask.  Pages are handed over already decoded (the decoders are E1's
subject): what runs symbolically is read_col's own logic - placement offsets, null handling, mask alignment."""
import os
from typing import List

from vf.pyshim.kit import REPLAY

import fastparquet.core as core
from fastparquet import parquet_thrift
from fastparquet.schema import SchemaHelper

NAN = "NaN"
ROWS = [int(x) for x in os.environ.get("VERIF_PAGE_ROWS", "2,2").split(",")]      # rows per page (lattice)
OPTIONAL = os.environ.get("VERIF_OPTIONAL", "1") == "1"
DICT = os.environ.get("VERIF_DICT", "0") == "1"
MASKED = os.environ.get("VERIF_MASKED", "0") == "1"


class NDArr:
    """stands for numpy.ndarray in isinstance checks"""


class Vec(NDArr):
    def __init__(self, items):
        self.items = list(items)

    def __len__(self):
        return len(self.items)

    def __getitem__(self, k):
        if isinstance(k, slice):
            return type(self)(self.items[k])
        if isinstance(k, Vec):
            if len(k) != len(self.items):
                raise IndexError("boolean index did not match indexed array: %d vs %d" % (len(k), len(self.items)))
            return type(self)([x for x, m in zip(self.items, k.items) if m])
        return self.items[k]

    def __eq__(self, v):
        return Vec([x == v for x in self.items])

    def __ne__(self, v):
        return Vec([x != v for x in self.items])

    __hash__ = None

    def sum(self):
        n = 0
        for x in self.items:
            if x:
                n += 1
        return n

    def any(self):
        return self.sum() > 0

    def tolist(self):
        return list(self.items)


class _DType:
    kind = "f"

    def type(self, x):
        return x


class Arr:
    """pre-allocated output column; slices are views"""
    dtype = _DType()

    def __init__(self, store, lo=0, hi=None):
        self.store, self.lo = store, lo
        self.hi = len(store) if hi is None else hi

    def __len__(self):
        return self.hi - self.lo

    def __getitem__(self, k):
        if isinstance(k, slice):
            a = 0 if k.start is None else k.start
            b = len(self) if k.stop is None else k.stop
            a = min(max(a, 0), len(self))
            b = min(max(b, a), len(self))
            return Arr(self.store, self.lo + a, self.lo + b)
        raise IndexError(k)

    def __setitem__(self, k, v):
        if isinstance(k, slice) and k.start is None and k.stop is None:
            idx = list(range(self.lo, self.hi))
        elif isinstance(k, Vec):
            if len(k) != len(self):
                raise IndexError("boolean index did not match indexed array: %d vs %d" % (len(k), len(self)))
            idx = [self.lo + i for i, m in enumerate(k.items) if m]
        else:
            raise IndexError(k)
        if isinstance(v, Vec):
            if len(v) != len(idx):
                raise ValueError("shape mismatch: %d values for %d slots" % (len(v), len(idx)))
            for i, x in zip(idx, v.items):
                self.store[i] = x
        else:
            for i in idx:
                self.store[i] = v


class _Dic:
    def __init__(self, labels):
        self.labels = labels

    def __getitem__(self, val):
        return Vec([self.labels[i] for i in val.items])


class _NP:
    ndarray = NDArr
    nan = NAN


class _PH:
    def __init__(self, n, dict_page=False):
        self.type = parquet_thrift.PageType.DICTIONARY_PAGE if dict_page else parquet_thrift.PageType.DATA_PAGE
        enc = parquet_thrift.Encoding.PLAIN_DICTIONARY if DICT else parquet_thrift.Encoding.PLAIN
        self.data_page_header = parquet_thrift.DataPageHeader(num_values=n, encoding=enc)


class _InIO:
    def __init__(self, pages):
        self.pages, self.k, self.dict_done = pages, 0, not DICT

    def tell(self):
        return self.k


class _Raw:
    def seek(self, off):
        pass

    def read(self, n):
        return b""


PAGES = [None]
LABELS = [500, 501, 502]


class _Enc:
    @staticmethod
    def NumpyIO(buf):
        return _InIO(PAGES[0])


class _TO:
    @staticmethod
    def from_buffer(infile, name):
        if not infile.dict_done:
            return _PH(3, dict_page=True)
        d, v = infile.pages[infile.k]
        return _PH(len(d))


def _s_read_dictionary_page(infile, schema_helper, ph, cmd, utf=False):
    infile.dict_done = True
    return _Dic(LABELS)


def _s_read_data_page(infile, schema_helper, ph, cmd, skip_nulls=False, selfmade=False):
    d, v = infile.pages[infile.k]
    infile.k += 1
    if not OPTIONAL:
        return None, None, Vec(v)
    nn = 0
    for x in d:
        nn += (x == 0)
    # core.read_def hands back no levels when the page holds no nulls
    if nn == 0:
        return None, None, Vec(v)
    return Vec(d), None, Vec(v)


def _schema():
    return [parquet_thrift.SchemaElement(name="schema", num_children=1),
            parquet_thrift.SchemaElement(name="x", type=2, repetition_type=1 if OPTIONAL else 0)]


HELPER = SchemaHelper(_schema())


def run(levels, codes, mask):
    """levels: per row 1 = value present, 0 = NULL; codes: value (or dictionary index) of each present row, in order"""
    n = len(levels)
    pages, pos, vi = [], 0, 0
    for r in ROWS:
        d = levels[pos:pos + r]
        nv = 0
        for x in d:
            nv += (x == 1)
        pages.append((d, codes[vi:vi + nv]))
        vi += nv
        pos += r
    PAGES[0] = pages
    nsel = n
    if mask is not None:
        nsel = 0
        for m in mask:
            nsel += (1 if m else 0)
    store = ["unset"] * nsel
    md = parquet_thrift.ColumnMetaData(type=2, path_in_schema=["x"], num_values=n, data_page_offset=4,
                                       total_compressed_size=100)
    col = parquet_thrift.ColumnChunk(meta_data=md)
    saved = (core.encoding, core.ThriftObject, core.read_data_page, core.read_dictionary_page, core.np, core.convert)
    core.encoding, core.ThriftObject, core.read_data_page = _Enc, _TO, _s_read_data_page
    core.read_dictionary_page, core.np = _s_read_dictionary_page, _NP
    core.convert = lambda v, se, dtype=None: v
    try:
        core.read_col(col, HELPER, _Raw(), assign=Arr(store), row_filter=None if mask is None else Vec(mask))
    finally:
        (core.encoding, core.ThriftObject, core.read_data_page, core.read_dictionary_page, core.np,
         core.convert) = saved
    return store


def expected(levels, codes, mask):
    out, vi = [], 0
    for i, lv in enumerate(levels):
        if lv == 1:
            v = LABELS[codes[vi]] if DICT else codes[vi]
            vi += 1
        else:
            v = NAN
        if mask is None or mask[i]:
            out.append(v)
    return out


def _codes_ok(levels, codes):
    need = 0
    for x in levels:
        need += (x == 1)
    return need == len(codes) and (not DICT or all(0 <= c <= 2 for c in codes))


def h_read_col_flat(levels: List[int], codes: List[int]) -> bool:
    """
    pre: len(levels) == sum(ROWS) and all(0 <= x <= 1 for x in levels) and (OPTIONAL or all(x == 1 for x in levels))
    pre: _codes_ok(levels, codes)
    post: __return__
    """
    return run(levels, codes, None) == expected(levels, codes, None)


def replay_h_read_col_flat(levels, codes):
    return _replay(levels, codes, None)


def h_read_col_masked(levels: List[int], codes: List[int], mask: List[bool]) -> bool:
    """
    pre: len(levels) == sum(ROWS) and all(0 <= x <= 1 for x in levels) and (OPTIONAL or all(x == 1 for x in levels))
    pre: _codes_ok(levels, codes) and len(mask) == len(levels)
    post: __return__
    """
    return run(levels, codes, mask) == expected(levels, codes, mask)


def replay_h_read_col_masked(levels, codes, mask):
    return _replay(levels, codes, mask)


def _replay(levels, codes, mask):
    """real file (float64 column, one page per ROWS entry, dictionary via a categorical when DICT) read with/without
    a row mask through the public API"""
    import shutil, tempfile
    import numpy as np
    import pandas as pd
    import fastparquet
    from fastparquet import writer as w
    vals, vi = [], 0
    for lv in levels:
        if lv == 1:
            vals.append(float(LABELS[codes[vi]] if DICT else codes[vi]))
            vi += 1
        else:
            vals.append(np.nan)
    if len(set(ROWS)) != 1:
        return None, "pages of different sizes cannot be produced by the concrete driver"
    d = tempfile.mkdtemp(prefix="c03-")
    old = w._rows_per_page
    try:
        w._rows_per_page = lambda data, se, has_nulls=True, page_size=None: ROWS[0]
        fn = os.path.join(d, "t.parq")
        if DICT:
            ser = pd.Series(pd.Categorical(vals, categories=[float(x) for x in LABELS]))
        else:
            ser = pd.Series(vals)
        fastparquet.write(fn, pd.DataFrame({"x": ser}), has_nulls=OPTIONAL)
        pf = fastparquet.ParquetFile(fn)
        try:
            if mask is None:
                out = pf.to_pandas()["x"]
            else:
                out = pf.to_pandas(row_filter=np.array(mask, dtype=bool))["x"]
        except Exception as ex:
            return True, "column %r read with mask %r over pages of %r rows fails: %s: %s" % (
                vals, mask, ROWS, type(ex).__name__, str(ex)[:80])
        got = [None if x != x else float(x) for x in out.astype("float64")]
        want = [None if x != x else x for i, x in enumerate(vals) if mask is None or mask[i]]
        if got != want:
            return True, "column %r read with mask %r over pages of %r rows gives %r, expected %r" % (
                vals, mask, ROWS, got, want)
        return False, "agrees"
    finally:
        w._rows_per_page = old
        shutil.rmtree(d, ignore_errors=True)
