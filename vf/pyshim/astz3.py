"""Tiny Python-AST -> z3 (mathematical integers) translator for straight-line arithmetic taken from the real
source at run time (inspect.getsource on the staged module).  Supports names, int constants, subscripts with a
constant string key (ic['start'] -> variable 'ic.start'), + - * // % unary -, comparisons, and/or/not, min/max/len-free.
Python's floor division / modulo semantics are encoded exactly (z3's div/mod are Euclidean)."""
import ast
import inspect
import textwrap

import z3


class Untranslatable(Exception):
    pass


def pyfloordiv(a, b):
    """Python floor division for z3 Ints (b != 0 is the caller's obligation)"""
    q = a / b            # z3 Int division: Euclidean-ish (rounds toward -inf for positive divisor)
    # z3: a = b*q + r with 0 <= r < |b|.  Python: r has the sign of b.
    r = a - b * q
    return z3.If(z3.And(b < 0, r != 0), q + 1, q) if not isinstance(b, int) or b < 0 else q


def pymod(a, b):
    return a - b * pyfloordiv(a, b)


def tr(node, env):
    if isinstance(node, ast.Expression):
        return tr(node.body, env)
    if isinstance(node, ast.Constant):
        if isinstance(node.value, bool):
            return z3.BoolVal(node.value)
        if isinstance(node.value, int):
            return z3.IntVal(node.value)
        raise Untranslatable("constant %r" % (node.value,))
    if isinstance(node, ast.Name):
        if node.id in env:
            return env[node.id]
        raise Untranslatable("free name %s" % node.id)
    if isinstance(node, ast.Subscript):
        key = node.slice
        if isinstance(key, ast.Constant) and isinstance(key.value, str) and isinstance(node.value, ast.Name):
            name = "%s.%s" % (node.value.id, key.value)
            if name in env:
                return env[name]
        raise Untranslatable("subscript " + ast.dump(node)[:80])
    if isinstance(node, ast.Attribute) and isinstance(node.value, ast.Name):
        name = "%s.%s" % (node.value.id, node.attr)
        if name in env:
            return env[name]
        raise Untranslatable("attribute " + name)
    if isinstance(node, ast.UnaryOp):
        v = tr(node.operand, env)
        if isinstance(node.op, ast.USub):
            return -v
        if isinstance(node.op, ast.Not):
            return z3.Not(v)
    if isinstance(node, ast.BinOp):
        a, b = tr(node.left, env), tr(node.right, env)
        if isinstance(node.op, ast.Add):
            return a + b
        if isinstance(node.op, ast.Sub):
            return a - b
        if isinstance(node.op, ast.Mult):
            return a * b
        if isinstance(node.op, ast.FloorDiv):
            return pyfloordiv(a, b)
        if isinstance(node.op, ast.Mod):
            return pymod(a, b)
        if isinstance(node.op, ast.LShift) and z3.is_int_value(b):
            return a * (2 ** b.as_long())
    if isinstance(node, ast.Compare) and len(node.ops) >= 1:
        parts = []
        left = tr(node.left, env)
        for op, comp in zip(node.ops, node.comparators):
            right = tr(comp, env)
            parts.append({ast.Lt: lambda: left < right, ast.LtE: lambda: left <= right, ast.Gt: lambda: left > right,
                          ast.GtE: lambda: left >= right, ast.Eq: lambda: left == right,
                          ast.NotEq: lambda: left != right}[type(op)]())
            left = right
        return z3.And(*parts) if len(parts) > 1 else parts[0]
    if isinstance(node, ast.BoolOp):
        vs = [tr(v, env) for v in node.values]
        return z3.And(*vs) if isinstance(node.op, ast.And) else z3.Or(*vs)
    if isinstance(node, ast.IfExp):
        return z3.If(tr(node.test, env), tr(node.body, env), tr(node.orelse, env))
    raise Untranslatable(ast.dump(node)[:120])


def func_ast(fn):
    return ast.parse(textwrap.dedent(inspect.getsource(fn))).body[0]


def find_calls(tree, name):
    out = []
    for n in ast.walk(tree):
        if isinstance(n, ast.Call):
            f = n.func
            if (isinstance(f, ast.Name) and f.id == name) or (isinstance(f, ast.Attribute) and f.attr == name):
                out.append(n)
    return out


def kw(call, name):
    for k in call.keywords:
        if k.arg == name:
            return k.value
    return None


# ----------------------------------------------------------------- bit-vector mode ---
def tr_bv(node, env, w=64):
    """translate an integer expression over w-bit bit-vectors (callers bound the inputs so nothing wraps)"""
    if isinstance(node, ast.Constant) and isinstance(node.value, int) and not isinstance(node.value, bool):
        return z3.BitVecVal(node.value, w)
    if isinstance(node, ast.Name):
        if node.id in env:
            return env[node.id]
        raise Untranslatable("free name %s" % node.id)
    if isinstance(node, ast.Call):
        key = "call:" + ast.unparse(node.func)
        if key in env:
            return env[key]
        raise Untranslatable("call " + ast.unparse(node)[:60])
    if isinstance(node, ast.BinOp):
        a, b = tr_bv(node.left, env, w), tr_bv(node.right, env, w)
        op = type(node.op)
        if op is ast.Add:
            return a + b
        if op is ast.Sub:
            return a - b
        if op is ast.Mult:
            return a * b
        if op is ast.FloorDiv:
            return z3.UDiv(a, b)          # operands are non-negative in the lemmas that use this mode
        if op is ast.Mod:
            return z3.URem(a, b)
        if op is ast.LShift:
            return a << b
        if op is ast.RShift:
            return z3.LShR(a, b)
        if op is ast.BitOr:
            return a | b
        if op is ast.BitAnd:
            return a & b
        if op is ast.BitXor:
            return a ^ b
    raise Untranslatable(ast.dump(node)[:120])


def find_assign(tree, name):
    out = []
    for n in ast.walk(tree):
        if isinstance(n, ast.Assign) and len(n.targets) == 1 and isinstance(n.targets[0], ast.Name) \
                and n.targets[0].id == name:
            out.append(n.value)
    return out
