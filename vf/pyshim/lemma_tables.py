"""Finite-table lemmas (round 10): places where the property quantifies over a value domain the solver cannot enter
(the stdlib json module, C-level text->float parsing).  Each runs the real function over a fixed, deterministic table
that holds the boundary shapes of the domain; no solver query is involved and the evidence says so."""
import os
import sys

STAGE = os.environ.get("VERIF_STAGE")
if STAGE and STAGE not in sys.path:
    sys.path.insert(0, STAGE)


def _res(name, functions, bounds):
    return dict(harness=name, engine="finite-table", status="holds", findings=[], inconclusive=[], functions=functions,
                shape={}, bounds=bounds, stats=dict(queries=0, sat=0, unsat=0, unknown=0, solver_ms=0.0, paths=0, steps=0),
                reached=0)


# ---- C01: a JSON-encoded cell either survives the codec unchanged or is refused ------------------------------------
def _json_cells():
    import datetime
    import decimal
    import numpy as np
    natives = [None, True, 0, -7, 2 ** 53 + 1, 1.5, "x", "", [1, "a", None], {"k": [1, 2]}, [], {}, [[1], [2, [3]]]]
    foreign = [np.int64(1), np.int8(-5), np.float32(1.5), np.bool_(True), decimal.Decimal("1.5"),
               datetime.datetime(2020, 1, 2, 3, 4, 5), datetime.date(2020, 1, 2), b"ab", {1, 2}, 1 + 2j]
    cells = [("native", c) for c in natives]
    for f in foreign:
        cells += [("foreign", f), ("foreign", [f]), ("foreign", {"n": f})]
    return cells


def json_cells():
    from fastparquet.json import json_encoder, json_decoder
    cells = _json_cells()
    res = _res("lemma.json_cells[json.JsonImpl]", ["json.json_encoder", "json.json_decoder"],
               "%d cells: every JSON-native shape, and 10 kinds of leaf the format has no form for (bare, in a list, "
               "in a dict)" % len(cells))
    enc, dec = json_encoder(), json_decoder()
    for i, (kind, c) in enumerate(cells):
        try:
            back = dec(enc(c))
        except Exception:
            if kind == "native":
                res["status"] = "violation"
                res["findings"].append(_json_finding(i, "the JSON-native cell %r is refused" % (c,)))
                return res
            continue
        if back != c or type(back) is not type(c) and kind == "foreign":
            res["status"] = "violation"
            res["findings"].append(_json_finding(i, "the cell %r is stored as %r" % (c, back)))
            return res
    res["reached"] = len(cells)
    res["stats"]["steps"] = len(cells)
    return res


def _json_finding(i, detail):
    return dict(kind="contract", function="json.JsonImpl.dumps/loads", obligation="a cell survives the codec or is refused",
                detail=detail, shape=dict(harness="lemma.json_cells", cell=i), cls="lemma:json_cells",
                witness=dict(driver="py:vf.pyshim.lemma_tables:replay_json", args=dict(cell=i)))


def replay_json(cell):
    import shutil, tempfile
    import pandas as pd
    import fastparquet
    kind, c = _json_cells()[cell]
    d = tempfile.mkdtemp(prefix="c01-")
    try:
        fn = os.path.join(d, "t.parq")
        df = pd.DataFrame({"j": pd.Series([c, c], dtype=object)})
        try:
            fastparquet.write(fn, df, object_encoding="json")
        except Exception as ex:
            return (kind == "native"), "write refused: %s" % type(ex).__name__
        back = fastparquet.ParquetFile(fn).to_pandas()["j"].tolist()
        if back != [c, c] or type(back[0]) is not type(c):
            return True, "a column of JSON-encoded cells %r reads back as %r" % (c, back[0])
        return False, "kept"
    finally:
        shutil.rmtree(d, ignore_errors=True)


# ---- C08: the text of a float partition key types back to the same float -------------------------------------------
def _floats():
    out = [0.1 + 0.2, 1 / 3, 2 / 3, 1e22 / 3, 1.1 * 1.1, 0.1 * 3, 5e-324, 1.7976931348623157e308, 2 ** 53 + 2.0,
           123456.78901234567, 1e-7 / 3, 9007199254740993.0, 0.30000000000000004, 4.35, 0.7, 1e16 / 7]
    x = 88172645463325252
    for _ in range(300):            # xorshift64: deterministic doubles with long shortest representations
        x ^= (x << 13) & (2 ** 64 - 1)
        x ^= x >> 7
        x ^= (x << 17) & (2 ** 64 - 1)
        out.append((x >> 11) / float(2 ** 53) * 10 ** ((x % 7) - 3))
    return out


def float_labels():
    import fastparquet.util as util
    fl = _floats()
    res = _res("lemma.float_labels[util.val_to_num]", ["util.val_to_num", "util._val_to_num", "util.path_string"],
               "%d doubles (boundary values and 300 deterministic pseudo-random ones with 15-17 significant digits), "
               "positive and negative" % len(fl))
    n = 0
    for i, f in enumerate(fl):
        for sign in (1, -1):
            v = sign * f
            n += 1
            txt = util.path_string(v)
            got = util.val_to_num(txt)
            if not (isinstance(got, float) and got == v):
                res["status"] = "violation"
                res["findings"].append(dict(
                    kind="contract", function="util.val_to_num", obligation="directory text types back to the key",
                    detail="the float key %r is written as %r, which types back as %r" % (v, txt, got),
                    shape=dict(harness="lemma.float_labels", i=i, sign=sign), cls="lemma:float_labels",
                    witness=dict(driver="py:vf.pyshim.lemma_tables:replay_float", args=dict(i=i, sign=sign))))
                return res
    res["reached"] = n
    res["stats"]["steps"] = n
    return res


def replay_float(i, sign):
    import shutil, tempfile
    import pandas as pd
    import fastparquet
    v = sign * _floats()[i]
    d = tempfile.mkdtemp(prefix="c08-")
    try:
        for scheme in ("drill", "hive"):
            dn = os.path.join(d, scheme)
            fastparquet.write(dn, pd.DataFrame({"k": [v, v, 1.0], "a": [1, 2, 3]}), file_scheme=scheme,
                              partition_on=["k"])
            if scheme == "hive":        # a tree without the partition metadata (as another writer leaves it)
                os.remove(os.path.join(dn, "_metadata"))
                os.remove(os.path.join(dn, "_common_metadata"))
                for dp, _, fs in os.walk(dn):
                    for f in fs:
                        fastparquet.writer.update_file_custom_metadata(os.path.join(dp, f), {"pandas": None})
            out = fastparquet.ParquetFile(dn).to_pandas()
            col = "dir0" if scheme == "drill" else "k"
            got = sorted(float(x) for x, a in zip(out[col], out["a"]) if a in (1, 2))
            if got != [v, v]:
                return True, "%s dataset: rows written under the float key %r come back with key %r" % (scheme, v, got)
        return False, "keys kept"
    finally:
        shutil.rmtree(d, ignore_errors=True)
