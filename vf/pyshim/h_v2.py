"""C03 / C01: flat columns stored in DATA_PAGE_V2 pages.  The real core.read_col drives the real core.read_data_page_v2
(level decode only when the header reports NULLs, NULL scatter, PLAIN / dictionary / delta values, read-into-place
shortcut, nullable extension outputs with their mask) over one or two pages with symbolic NULL layouts and values.
The decoders, numpy allocation and convert() are contract shims (their behaviour is E1's / the lemmas' subject)."""
import os
from typing import List

import numpy as np
import pandas as pd

from vf.pyshim.kit import REPLAY

import fastparquet.core as core
from fastparquet import parquet_thrift
from fastparquet.schema import SchemaHelper

ENC = os.environ.get("VERIF_ENC", "plain")              # plain | dict | delta
OUT = os.environ.get("VERIF_OUT", "float")              # float (float64 output) | nullable (Int64 extension array)
#                                                         | cat (int8 category codes: the column is loaded as categorical)
WIDTH = int(os.environ.get("VERIF_WIDTH", "4"))         # bit width byte of a dictionary-index page
SELFMADE = os.environ.get("VERIF_SELFMADE", "0") == "1"  # file written by this library (index fast path)
COMPRESSED = os.environ.get("VERIF_COMPRESSED", "0") == "1"   # SNAPPY column: value bytes of a page are compressed
CLEN = 3                                                  # compressed length of a page's (non-empty) value bytes
PHYS = os.environ.get("VERIF_PHYS", "int64")            # int64 | double   (physical type of the column)
OPTIONAL = os.environ.get("VERIF_OPTIONAL", "1") == "1"
ROWS = [int(x) for x in os.environ.get("VERIF_PAGE_ROWS", "2,2").split(",")]
DEF_LEN, VAL_LEN, HDR = 7, 5, 3
NAN = "NULL"


class NDArr:
    pass


class _Items:
    """element access of a BVec view: items[i] reads/writes the shared storage"""

    def __init__(self, store, lo, hi):
        self.store, self.lo, self.hi = store, lo, hi

    def __len__(self):
        return self.hi - self.lo

    def __getitem__(self, i):
        if isinstance(i, slice):
            return list(self.store[self.lo:self.hi])[i]
        if not (0 <= i < self.hi - self.lo):
            raise IndexError(i)
        return self.store[self.lo + i]

    def __setitem__(self, i, v):
        if not (0 <= i < self.hi - self.lo):
            raise IndexError(i)
        self.store[self.lo + i] = v

    def __iter__(self):
        return iter(self.store[self.lo:self.hi])


class BVec(NDArr):
    """1-d numpy array shim: levels, indices, decoded values, boolean masks.  Slices and view() share storage with
    the array they were taken from (numpy semantics); mask indexing and comparisons give new arrays."""

    esize = 4                                            # element size in bytes (what a decoder must write)

    def __init__(self, items, lo=0, hi=None, esize=None):
        store = items if isinstance(items, list) else list(items)
        self.items = _Items(store, lo, len(store) if hi is None else hi)
        if esize is not None:
            self.esize = esize

    def __len__(self):
        return len(self.items)

    def view(self, t):
        return self

    def __getitem__(self, k):
        if k is Ellipsis:
            return self
        if isinstance(k, slice):
            n = len(self)
            a = 0 if k.start is None else k.start
            b = n if k.stop is None else k.stop
            a = min(max(a, 0), n)
            b = min(max(b, a), n)
            return BVec(self.items.store, self.items.lo + a, self.items.lo + b, esize=self.esize)
        if isinstance(k, BVec):
            if len(k) != len(self.items):
                raise IndexError("boolean index did not match indexed array: %d vs %d" % (len(k), len(self.items)))
            return BVec([x for x, m in zip(self.items, k.items) if m])
        return self.items[k]

    def __setitem__(self, k, v):
        if isinstance(k, slice):
            dst = self[k]
            if isinstance(v, BVec):
                if len(v) != len(dst):
                    raise ValueError("could not broadcast %d values into %d slots" % (len(v), len(dst)))
                for i, x in enumerate(v.items):
                    dst.items[i] = x
            else:
                for i in range(len(dst)):
                    dst.items[i] = v
            return
        if isinstance(k, BVec):
            if len(k) != len(self):
                raise IndexError("boolean index did not match indexed array: %d vs %d" % (len(k), len(self)))
            idx = [i for i, m in enumerate(k.items) if m]
            if isinstance(v, BVec):
                if len(v) != len(idx):
                    raise ValueError("shape mismatch: %d values for %d slots" % (len(v), len(idx)))
                for i, x in zip(idx, v.items):
                    self.items[i] = x
            else:
                for i in idx:
                    self.items[i] = v
            return
        self.items[k] = v

    def __mul__(self, o):
        if len(o) != len(self):
            raise ValueError("operands could not be broadcast together: %d vs %d" % (len(self), len(o)))
        return BVec([bool(a) and bool(b) for a, b in zip(self.items, o.items)])

    def __invert__(self):
        return BVec([not x for x in self.items])

    def __ne__(self, v):
        return BVec([x != v for x in self.items])

    def __eq__(self, v):
        return BVec([x == v for x in self.items])

    __hash__ = None

    def sum(self):
        n = 0
        for x in self.items:
            n += 1 if x else 0
        return n


class _FDtype:
    kind, itemsize = "f", 8

    def __eq__(self, o):
        return o in ("float64", "f8")

    def __ne__(self, o):
        return not self.__eq__(o)

    __hash__ = None

    def type(self, x):
        return x


class _IDtype(_FDtype):
    kind = "i"

    def __eq__(self, o):
        return o in ("int64", "i8")


class _I8Dtype(_FDtype):
    kind, itemsize = "i", 1

    def __eq__(self, o):
        return o in ("int8", "i1")


class _ByteView:
    def __init__(self, arr):
        self.arr = arr

    def __len__(self):
        return len(self.arr) * self.arr.dtype.itemsize

    def __setitem__(self, k, token):
        # raw page bytes copied into the output: they ARE the values when the element layouts match
        if isinstance(token, BVec):
            # bytes of single-byte indices, one per element of a single-byte output
            if self.arr.dtype.itemsize != 1:
                raise ValueError("byte-wise copy into %d-byte elements" % self.arr.dtype.itemsize)
            self.arr[k] = token
            return
        if not (isinstance(k, slice) and k.start is None and k.stop is None):
            raise IndexError(k)
        vals = token[1] if isinstance(token, tuple) and token[0] == "valbytes" else None
        if vals is None or len(vals) != len(self.arr):
            raise ValueError("could not broadcast %r into %d elements" % (token, len(self.arr)))
        for i, v in enumerate(vals):
            self.arr.store[self.arr.lo + i] = v


class Arr:
    """pre-allocated output column; slices are views on the same storage"""

    def __init__(self, store, lo=0, hi=None, dtype=None):
        self.store, self.lo = store, lo
        self.hi = len(store) if hi is None else hi
        self.dtype = dtype or _FDtype()

    def __len__(self):
        return self.hi - self.lo

    @property
    def nbytes(self):
        return self.dtype.itemsize * len(self)

    def view(self, t):
        return _ByteView(self)

    def __getitem__(self, k):
        if k is Ellipsis:
            return self
        if isinstance(k, slice):
            n = len(self)
            a = 0 if k.start is None else k.start
            b = n if k.stop is None else k.stop
            a = min(max(a, 0), n)
            b = min(max(b, a), n)
            return Arr(self.store, self.lo + a, self.lo + b, self.dtype)
        raise IndexError(k)

    def __setitem__(self, k, v):
        if isinstance(k, slice) and not (k.start is None and k.stop is None):
            self[k][:] = v
            return
        if k is Ellipsis or (isinstance(k, slice) and k.start is None and k.stop is None):
            idx = list(range(self.lo, self.hi))
        elif isinstance(k, BVec):
            if len(k) != len(self):
                raise IndexError("boolean index did not match indexed array: %d vs %d" % (len(k), len(self)))
            idx = [self.lo + i for i, m in enumerate(k.items) if m]
        else:
            raise IndexError(k)
        if isinstance(v, BVec):
            if len(v) != len(idx):
                raise ValueError("shape mismatch: %d values for %d slots" % (len(v), len(idx)))
            for i, x in zip(idx, v.items):
                self.store[i] = x
        else:
            for i in idx:
                self.store[i] = NAN if v is None else v


class Masked:
    """pandas masked extension array as read_data_page_v2 uses it: ._mask (bool per row) and ._data"""

    def __init__(self, n, mask=None, data=None):
        self.dtype = pd.Int64Dtype()
        self._mask = BVec([False] * n, esize=1) if mask is None else mask
        self._data = Arr(["unset"] * n, dtype=_IDtype()) if data is None else data

    def __len__(self):
        return len(self._mask)

    def __getitem__(self, k):
        # a slice of a masked array is a view on both of its parts
        if not isinstance(k, slice):
            raise IndexError(k)
        m = self._mask[k]
        return Masked(len(m), m, self._data[k])


class _Dic:
    def __init__(self, labels):
        self.labels = labels

    def __getitem__(self, val):
        return BVec([self.labels[i] for i in val.items])

    def __len__(self):
        return len(self.labels)

    def __ne__(self, o):
        return BVec([a != b for a, b in zip(self.labels, o.labels)] + [True] * abs(len(self.labels) - len(o.labels)))

    __hash__ = None


class Tok(tuple):
    """page bytes as handed around by the reader: ("defbytes" | "valbytes", values).  Slicing the value bytes of a
    dictionary-index page from offset 2 (width byte + one run header byte) gives the index bytes themselves when the
    indices are 8 bits wide - the layout this library writes"""

    def __getitem__(self, k):
        if isinstance(k, slice):
            if self[0] == "valbytes" and k.start == 2 and k.stop is None and WIDTH == 8:
                return BVec(list(self[1]), esize=1)
            return BVec([-9] * 3, esize=1)
        return tuple.__getitem__(self, k)


class _CatDef:
    def __init__(self):
        self.cats = None

    def _set_categories(self, idx, fastpath=False):
        self.cats = list(idx)


class _PDShim:
    core = pd.core
    NA = pd.NA

    @staticmethod
    def Index(dic, dtype=None):
        return list(dic.labels)


def _val_len(v):
    # PLAIN: 8 bytes per value (none for a page holding only NULLs); dictionary indices / delta: width byte + runs
    return 8 * len(v) if ENC == "plain" else VAL_LEN


def _stored_len(v):
    # bytes the values occupy in the file
    if COMPRESSED and _val_len(v):
        return CLEN
    return _val_len(v)


class _ColIO:
    """cencoding.NumpyIO over the column chunk: [dictionary page] then data pages laid end to end, each
    HDR + DEF_LEN + value bytes.  read(n) with n < 1 returns everything that is left (the class's contract)."""

    def __init__(self, pages):
        self.pages, self.k, self.pos, self.dict_done = pages, -1, 0, ENC != "dict"
        self.starts = []
        p = HDR if ENC == "dict" else 0
        for d, v in pages:
            self.starts.append(p)
            p += HDR + DEF_LEN + _stored_len(v)
        self.size = p

    def tell(self):
        return self.pos

    def seek(self, off, whence=0):
        self.pos = off if whence == 0 else self.pos + off

    def read(self, n=-1):
        if n < 1:
            n = self.size - self.pos
        at = self.pos
        self.pos += n
        if self.k < 0 or self.k >= len(self.pages):
            return Tok(("garbage", None))
        d, v = self.pages[self.k]
        body = self.starts[self.k] + HDR
        if (at, n) == (body, DEF_LEN):
            return Tok(("defbytes", d))
        if (at, n) == (body + DEF_LEN, _stored_len(v)):
            return Tok(("cvalbytes" if COMPRESSED and _val_len(v) else "valbytes", v))
        return Tok(("garbage", None))


class _PageIO:
    """cencoding.NumpyIO over one page part.  A dictionary-index part is [bit width byte][hybrid stream]; the hybrid
    stream starts with a one-byte run header"""

    def __init__(self, src):
        self.src, self.pos = src, 0

    def read_byte(self):
        self.pos += 1
        return WIDTH

    def tell(self):
        return self.pos

    def seek(self, n, whence=0):
        self.pos = n if whence == 0 else self.pos + n


def _fill(dst, values, n):
    tgt = dst.src
    if isinstance(tgt, _ByteView):          # decoder writing straight into (a byte view of) the output column
        arr = tgt.arr
        for i in range(min(n, len(arr), len(values))):
            arr.store[arr.lo + i] = values[i]
        return
    for i in range(min(n, len(tgt.items), len(values))):
        tgt.items[i] = values[i]


PAGES = [None]


class _Enc:
    @staticmethod
    def NumpyIO(buf):
        if isinstance(buf, (bytes, bytearray)):
            return _ColIO(PAGES[0])
        return _PageIO(buf)

    @staticmethod
    def width_from_max_int(v):
        return int(v).bit_length()

    @staticmethod
    def read_unsigned_var_int(io):
        io.pos += 1
        return 3

    @staticmethod
    def read_rle_bit_packed_hybrid(io_obj, width, length, o, itemsize=4):
        tok = io_obj.src
        # contract of the native decoder: the stream starts at the cursor; it writes 4-byte items when itemsize == 4
        # and single bytes otherwise
        start = 1 if tok[0] == "valbytes" else 0
        tgt = o.src
        esize = tgt.arr.dtype.itemsize if isinstance(tgt, _ByteView) else tgt.esize
        ok = io_obj.pos == start and (4 if itemsize == 4 else 1) == esize
        if tok[0] == "valbytes":
            # `length` bounds the input bytes the decoder may consume: the index stream follows the width byte
            ok = ok and length >= VAL_LEN - 1
        if tok[0] == "defbytes":
            # ... and so it does for a level stream: all of its DEF_LEN bytes may be needed (runs of few values)
            ok = ok and length >= DEF_LEN
        if tok[0] == "defbytes" and ok:
            _fill(o, tok[1], length)
        elif tok[0] == "valbytes" and ok:
            _fill(o, tok[1], len(tok[1]))
        else:
            _fill(o, [9] * 8, 8)

    @staticmethod
    def delta_binary_unpack(io_obj, o, longval=0):
        tok = io_obj.src
        # contract of the native decoder: it writes integers of 8 (longval) or 4 bytes; written into the storage of a
        # float64 array they are not the numbers
        tgt = o.src
        into_float = isinstance(tgt, _ByteView) and tgt.arr.dtype.kind == "f"
        if tok[0] == "valbytes" and longval and not into_float:
            _fill(o, tok[1], len(tok[1]))
        else:
            _fill(o, [-5] * 8, 8)


class _TO:
    @staticmethod
    def from_buffer(infile, name):
        infile.pos += HDR
        if not infile.dict_done:
            infile.dict_done = True
            return parquet_thrift.PageHeader(type=parquet_thrift.PageType.DICTIONARY_PAGE)
        infile.k += 1
        if infile.k >= len(infile.pages) or infile.pos != infile.starts[infile.k] + HDR:
            raise ValueError("page header parsed at a position that is not the start of a page")
        d, v = infile.pages[infile.k]
        nn = 0
        for x in d:
            nn += (x == 0)
        enc = {"plain": parquet_thrift.Encoding.PLAIN, "dict": parquet_thrift.Encoding.RLE_DICTIONARY,
               "delta": parquet_thrift.Encoding.DELTA_BINARY_PACKED}[ENC]
        size = DEF_LEN + _val_len(v)
        dph = parquet_thrift.DataPageHeaderV2(
            num_values=len(d), num_nulls=nn, num_rows=len(d), encoding=enc,
            definition_levels_byte_length=DEF_LEN, repetition_levels_byte_length=0, is_compressed=COMPRESSED)
        return parquet_thrift.PageHeader(type=parquet_thrift.PageType.DATA_PAGE_V2,
                                         compressed_page_size=DEF_LEN + _stored_len(v),
                                         uncompressed_page_size=size, data_page_header_v2=dph)


class _NP:
    ndarray = NDArr
    uint8, bool_, nan, int32 = "uint8", "bool", NAN, "int32"

    @staticmethod
    def empty(n, dtype=None):
        es = getattr(dtype, "itemsize", None) or {"uint8": 1, "bool": 1, "int8": 1}.get(dtype, 4)
        return BVec(["unset"] * n, esize=1 if es == 1 else 4)

    @staticmethod
    def iinfo(dt):
        class _I:
            max = 127 if dt.itemsize == 1 else (1 << (8 * dt.itemsize - 1)) - 1
        return _I

    @staticmethod
    def frombuffer(buf, dtype=None):
        return buf

    @staticmethod
    def not_equal(a, b, out=None):
        for i in range(len(a.items)):
            out.items[i] = (a.items[i] != b)
        return out


def _s_decompress(data, size, codec):
    # contract: the codec of the column chunk turns the stored bytes into `size` uncompressed bytes
    if isinstance(data, Tok) and data[0] == "cvalbytes":
        if codec == 1 and size == _val_len(data[1]):
            return Tok(("valbytes", data[1]))
        return Tok(("garbage", None))
    return data


def _s_decomp_into(src, dst):
    # decompress straight into the bytes of the output array: they are the values when the sizes agree
    if isinstance(src, Tok) and src[0] == "cvalbytes":
        dst[:] = Tok(("valbytes", src[1]))
    else:
        dst[:] = Tok(("garbage", None))


def _s_read_plain(raw, type_, count, width=0, utf=False, stat=False):
    if isinstance(raw, tuple) and raw[0] == "valbytes":
        return BVec(list(raw[1])[:count])
    return BVec([-777] * count)


LABELS = [500, 501, 502, 503]


def _schema():
    t = parquet_thrift.Type.DOUBLE if PHYS == "double" else parquet_thrift.Type.INT64
    return [parquet_thrift.SchemaElement(name="schema", num_children=1),
            parquet_thrift.SchemaElement(name="x", type=t, repetition_type=1 if OPTIONAL else 0)]


HELPER = SchemaHelper(_schema())


class _Raw:
    def seek(self, off):
        pass

    def read(self, n):
        return b""


DICT_NOW = [None]      # the dictionary of the chunk being read (None: LABELS)


def run(levels, codes, mask=None, into=None):
    """into: (assign view, catdef) of a frame shared by several row groups (categorical output)"""
    n = len(levels)
    pages, pos, vi = [], 0, 0
    for r in ROWS:
        d = levels[pos:pos + r]
        nv = 0
        for x in d:
            nv += (x == 1)
        pages.append((d, codes[vi:vi + nv]))
        vi += nv
        pos += r
    PAGES[0] = pages
    nsel = n
    if mask is not None:
        nsel = 0
        for m in mask:
            nsel += 1 if m else 0
    catdef = None
    if into is not None:
        assign, catdef = into
    elif OUT == "cat":
        assign, catdef = Arr(["unset"] * nsel, dtype=_I8Dtype()), _CatDef()
    else:
        assign = Masked(nsel) if OUT == "nullable" else Arr(["unset"] * nsel)
    md = parquet_thrift.ColumnMetaData(type=HELPER.schema_element(["x"]).type, path_in_schema=["x"], num_values=n,
                                       data_page_offset=4, total_compressed_size=100, codec=1 if COMPRESSED else 0)
    col = parquet_thrift.ColumnChunk(meta_data=md)
    saved = (core.encoding, core.ThriftObject, core.read_dictionary_page, core.np, core.convert, core.decompress_data,
             core.read_plain, core.pd, core.decom_into)
    core.encoding, core.ThriftObject, core.np, core.pd = _Enc, _TO, _NP, _PDShim
    core.decom_into = {"SNAPPY": _s_decomp_into}
    core.read_dictionary_page = lambda infile, sh, ph, cmd, utf=False: _Dic(DICT_NOW[0] or LABELS)
    core.convert = lambda v, se, dtype=None: v
    core.decompress_data = _s_decompress
    core.read_plain = _s_read_plain
    try:
        core.read_col(col, HELPER, _Raw(), assign=assign, row_filter=None if mask is None else BVec(list(mask)),
                      use_cat=OUT == "cat", catdef=catdef, selfmade=SELFMADE)
    finally:
        (core.encoding, core.ThriftObject, core.read_dictionary_page, core.np, core.convert, core.decompress_data,
         core.read_plain, core.pd, core.decom_into) = saved
    if into is not None:
        return None
    if OUT == "cat":
        return [NAN if c == -1 else (catdef.cats[c] if isinstance(c, int) and 0 <= c < len(catdef.cats) else ("code", c))
                for c in assign.store]
    if OUT == "nullable":
        return [NAN if m else v for m, v in zip(list(assign._mask.items), assign._data.store)]
    return list(assign.store)


def expected(levels, codes):
    out, vi = [], 0
    for lv in levels:
        if lv == 1:
            out.append(LABELS[codes[vi]] if ENC == "dict" else codes[vi])
            vi += 1
        else:
            out.append(NAN)
    return out


def h_read_col_v2_masked(levels: List[int], codes: List[int], mask: List[bool]) -> bool:
    """
    pre: len(levels) == sum(ROWS) and all(0 <= x <= 1 for x in levels) and (OPTIONAL or all(x == 1 for x in levels))
    pre: _codes_ok(levels, codes) and len(mask) == len(levels)
    post: __return__
    """
    # a boolean row mask over the chunk: exactly the selected rows, in order
    want = [v for v, m in zip(expected(levels, codes), mask) if m]
    return run(levels, codes, mask) == want


def _pages_const():
    """the concrete driver writes pages of a constant number of rows (the last one may be shorter)"""
    return len(set(ROWS[:-1])) <= 1 and ROWS[-1] <= ROWS[0]


def _series(vals):
    if OUT == "cat":
        return pd.Series(pd.Categorical(pd.Series(vals, dtype="object"), categories=LABELS))
    if PHYS == "double" or OUT != "nullable":
        ser = pd.Series([np.nan if v is None else float(v) for v in vals], dtype="float64")
    else:
        ser = pd.Series(pd.array(vals, dtype="Int64"))
    if ENC == "dict":
        ser = pd.Series(pd.Categorical(ser, categories=[float(x) if ser.dtype.kind == "f" else x for x in LABELS]))
    return ser


def _levels_probe(levels):
    """the NULL layout of the witness in a spec-built v2 file whose definition levels are RLE runs of ONE value each
    (two bytes per row: the level stream is longer than the number of values)"""
    import shutil, tempfile
    import fastparquet
    from vf.pyshim import flat_file
    d = tempfile.mkdtemp(prefix="v2-")
    try:
        fn = os.path.join(d, "lv.parq")
        lv = list(levels) + [1, 0, 1, 1, 0, 1, 1, 1]
        nulls = [x != 1 for x in lv]
        idx = [i % 4 for i in range(sum(1 for x in nulls if not x))]
        dictionary = [100, 101, 102, 103]
        flat_file.build_dict(fn, dictionary, idx, 2, nulls=nulls, optional=True, version=2, rle_levels=True)
        try:
            out = fastparquet.ParquetFile(fn).to_pandas()["x"]
        except Exception as ex:
            return True, "v2 page whose %d definition levels are %d single-value RLE runs (%d bytes): read fails: %s" % (
                len(lv), len(lv), 2 * len(lv), type(ex).__name__)
        got = [None if pd.isna(x) else int(x) for x in out.astype(object)]
        it = iter(idx)
        want = [None if n else dictionary[next(it)] for n in nulls]
        if got != want:
            return True, ("v2 page whose %d definition levels are single-value RLE runs (%d bytes of levels): rows read "
                          "%r, the page holds %r" % (len(lv), 2 * len(lv), got[:10], want[:10]))
        return False, "agrees"
    finally:
        shutil.rmtree(d, ignore_errors=True)


def _concrete(levels, codes, mask=None):
    """a real v2 file holding the witness's column, read through ParquetFile.to_pandas (with the row mask, if any).
    Files are written by this library page by page; DELTA pages, INT64 dictionary columns and every file that must
    look foreign (SELFMADE off) are built from the specification."""
    import shutil, tempfile
    import fastparquet
    from fastparquet import writer as w
    from vf.pyshim import flat_file
    rows_per_page = list(ROWS)
    if COMPRESSED:
        # a codec only shortens pages that are long enough: every page of the witness is repeated K times (same
        # layout of NULLs, values and selected rows within each page)
        K = 400
        lv2, cd2, mk2, pos, vi = [], [], [], 0, 0
        for r in ROWS:
            plv = list(levels[pos:pos + r])
            nv = sum(1 for x in plv if x == 1)
            pcd = list(codes[vi:vi + nv])
            lv2 += plv * K
            cd2 += pcd * K
            if mask is not None:
                mk2 += list(mask[pos:pos + r]) * K
            pos += r
            vi += nv
        levels, codes, mask = lv2, cd2, (mk2 if mask is not None else None)
        rows_per_page = [r * K for r in ROWS]
    vals, vi = [], 0
    for lv in levels:
        if lv == 1:
            vals.append(LABELS[codes[vi]] if ENC == "dict" else codes[vi])
            vi += 1
        else:
            vals.append(None)
    if OPTIONAL and any(lv != 1 for lv in levels) and mask is None:
        r = _levels_probe(levels)
        if r[0]:
            return r
    spec_dict = ENC == "dict" and PHYS == "int64" and not (OUT == "cat" and SELFMADE)
    if OUT == "cat" and not SELFMADE and WIDTH < 2:
        return None, "dictionary indices 0..3 need two bits"
    if ENC != "delta" and not spec_dict and not _pages_const():
        return None, "pages of these sizes cannot be produced by the concrete driver"
    d = tempfile.mkdtemp(prefix="v2-")
    old = (w._rows_per_page, w.DATAPAGE_VERSION)
    what = "v2 column %r%s (%s pages of %r rows%s%s)" % (
        vals[:8], "..." if len(vals) > 8 else "", ENC, rows_per_page, ", SNAPPY" if COMPRESSED else "",
        ", loaded as categorical" if OUT == "cat" else "")
    try:
        fn = os.path.join(d, "t.parq")
        if ENC == "delta":
            flat_file.build(fn, [int(v) for v in vals], 64, 2, True, compress=COMPRESSED)
        elif spec_dict:
            flat_file.build_dict(fn, LABELS, list(codes), WIDTH if OUT == "cat" else 2, nulls=[lv != 1 for lv in levels],
                                 optional=OPTIONAL, version=2, page_rows=rows_per_page, compress=COMPRESSED,
                                 split_runs=COMPRESSED)
        else:
            w._rows_per_page = lambda data, se, has_nulls=True, page_size=None: rows_per_page[0]
            w.DATAPAGE_VERSION = 2
            fastparquet.write(fn, pd.DataFrame({"x": _series(vals)}), has_nulls=OPTIONAL,
                              compression="SNAPPY" if COMPRESSED else None)
        cats = (["x"] if OUT == "cat" else []) if ENC == "dict" else None
        try:
            pf = fastparquet.ParquetFile(fn, pandas_nulls=(OUT == "nullable"))
            kw = {} if mask is None else dict(row_filter=np.array(mask, dtype=bool))
            out = pf.to_pandas(categories=cats, **kw)["x"]
        except Exception as ex:
            return True, "%s read%s fails: %s: %s" % (what, "" if mask is None else " with mask %r" % (mask[:8],),
                                                      type(ex).__name__, str(ex)[:80])
        got = [None if pd.isna(x) else float(x) for x in out.astype(object)]
        want = [None if v is None else float(v) for v, m in zip(vals, mask or [True] * len(vals)) if m]
        if got != want:
            return True, "%s read%s gives %r%s" % (what, "" if mask is None else " with mask %r" % (mask[:8],), got[:8],
                                                   "..." if len(got) > 8 else "")
        return False, "agrees"
    finally:
        w._rows_per_page, w.DATAPAGE_VERSION = old
        shutil.rmtree(d, ignore_errors=True)


def replay_h_read_col_v2_masked(levels, codes, mask):
    return _concrete(levels, codes, list(mask))


def _codes_ok(levels, codes):
    need = 0
    for x in levels:
        need += (x == 1)
    return need == len(codes) and (ENC != "dict" or all(0 <= c <= 3 for c in codes))


def h_read_col_v2(levels: List[int], codes: List[int]) -> bool:
    """
    pre: len(levels) == sum(ROWS) and all(0 <= x <= 1 for x in levels) and (OPTIONAL or all(x == 1 for x in levels))
    pre: _codes_ok(levels, codes)
    pre: ENC != "delta" or all(x == 1 for x in levels)
    post: __return__
    """
    return run(levels, codes) == expected(levels, codes)


def replay_h_read_col_v2(levels, codes):
    return _concrete(levels, codes)


# ------------------------------------------------------------------ categorical column over two row groups ---
DICTS = [[500, 501, 502, 503], [503, 502, 501, 500], [500, 501, 502, 503, 504], [500, 501], [600, 500, 501, 502]]


def _pick_i(v, lo, hi):
    for k in range(lo, hi + 1):
        if v == k:
            return k
    raise ValueError(v)


def _two_groups(c0, c1, d0, d1):
    """two row groups (one page of two REQUIRED rows each) of a column loaded as categorical into one frame: the real
    read_col once per row group, sharing the frame's code array and its categorical dtype (as read_row_group does)"""
    n0, n1 = len(c0), len(c1)
    store = ["unset"] * (n0 + n1)
    full = Arr(store, dtype=_I8Dtype())
    catdef = _CatDef()
    global ROWS
    saved_rows = ROWS
    try:
        for codes, dic, lo in ((c0, DICTS[d0], 0), (c1, DICTS[d1], n0)):
            ROWS = [len(codes)]
            DICT_NOW[0] = dic
            run([1] * len(codes), list(codes), into=(full[lo:lo + len(codes)], catdef))
    finally:
        ROWS = saved_rows
        DICT_NOW[0] = None
    got = [(catdef.cats[c] if isinstance(c, int) and 0 <= c < len(catdef.cats) else ("code", c)) for c in store]
    want = [DICTS[d0][c] for c in c0] + [DICTS[d1][c] for c in c1]
    return got == want


def h_cat_two_groups(a0: int, a1: int, b0: int, b1: int, d0: int, d1: int) -> bool:
    """
    pre: 0 <= a0 <= 1 and 0 <= a1 <= 1 and 0 <= b0 <= 1 and 0 <= b1 <= 1 and 0 <= d0 <= 4 and 0 <= d1 <= 4
    post: __return__
    """
    # every row keeps the label its own row group's dictionary gives to its index - whatever dictionaries the row
    # groups carry (appended batches and files written separately have their own)
    d0, d1 = _pick_i(d0, 0, 4), _pick_i(d1, 0, 4)
    return _two_groups([a0, a1], [b0, b1], d0, d1)


def h_cat_two_groups_rest(a0: int, a1: int, b0: int, b1: int, d0: int) -> bool:
    """
    pre: 0 <= a0 <= 1 and 0 <= a1 <= 1 and 0 <= b0 <= 1 and 0 <= b1 <= 1 and 0 <= d0 <= 4
    post: __return__
    """
    # outside the known finding: both row groups carry the same dictionary
    d0 = _pick_i(d0, 0, 4)
    return _two_groups([a0, a1], [b0, b1], d0, d0)


def _replay_two_groups(a0, a1, b0, b1, d0, d1):
    import shutil, tempfile
    import fastparquet
    d = tempfile.mkdtemp(prefix="c07-")
    try:
        want = [DICTS[d0][a0], DICTS[d0][a1], DICTS[d1][b0], DICTS[d1][b1]]
        for how in ("append", "list"):
            fn = os.path.join(d, "ds-" + how)
            f1 = pd.DataFrame({"x": pd.Categorical.from_codes([a0, a1], categories=DICTS[d0])})
            f2 = pd.DataFrame({"x": pd.Categorical.from_codes([b0, b1], categories=DICTS[d1])})
            try:
                if how == "append":
                    fastparquet.write(fn, f1)
                    fastparquet.write(fn, f2, append=True)
                    pf = fastparquet.ParquetFile(fn)
                else:
                    fastparquet.write(fn + "1", f1)
                    fastparquet.write(fn + "2", f2)
                    pf = fastparquet.ParquetFile([fn + "1", fn + "2"])
                got = [int(v) for v in pf.to_pandas()["x"]]
            except Exception as ex:
                return True, "two batches with category lists %r and %r (%s): %s: %s" % (
                    DICTS[d0], DICTS[d1], how, type(ex).__name__, str(ex)[:80])
            if got != want:
                return True, "two batches with category lists %r and %r (%s): rows %r read back as %r" % (
                    DICTS[d0], DICTS[d1], how, want, got)
        return False, "labels intact"
    finally:
        shutil.rmtree(d, ignore_errors=True)


def replay_h_cat_two_groups(a0, a1, b0, b1, d0, d1):
    return _replay_two_groups(a0, a1, b0, b1, d0, d1)


def replay_h_cat_two_groups_rest(a0, a1, b0, b1, d0):
    return _replay_two_groups(a0, a1, b0, b1, d0, d0)
