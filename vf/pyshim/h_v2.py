"""C03 / C01: flat columns stored in DATA_PAGE_V2 pages.  The real core.read_col drives the real core.read_data_page_v2
(level decode only when the header reports NULLs, NULL scatter, PLAIN / dictionary / delta values, read-into-place
shortcut, nullable extension outputs with their mask) over one or two pages with symbolic NULL layouts and values.
The decoders, numpy allocation and convert() are contract shims (their behaviour is E1's / the lemmas' subject)."""
import os
from typing import List

import numpy as np
import pandas as pd

from vf.pyshim.kit import REPLAY

import fastparquet.core as core
from fastparquet import parquet_thrift
from fastparquet.schema import SchemaHelper

ENC = os.environ.get("VERIF_ENC", "plain")              # plain | dict | delta
OUT = os.environ.get("VERIF_OUT", "float")              # float (float64 output) | nullable (Int64 extension array)
PHYS = os.environ.get("VERIF_PHYS", "int64")            # int64 | double   (physical type of the column)
OPTIONAL = os.environ.get("VERIF_OPTIONAL", "1") == "1"
ROWS = [int(x) for x in os.environ.get("VERIF_PAGE_ROWS", "2,2").split(",")]
DEF_LEN, VAL_LEN, HDR = 7, 5, 3
NAN = "NULL"


class NDArr:
    pass


class _Items:
    """element access of a BVec view: items[i] reads/writes the shared storage"""

    def __init__(self, store, lo, hi):
        self.store, self.lo, self.hi = store, lo, hi

    def __len__(self):
        return self.hi - self.lo

    def __getitem__(self, i):
        if isinstance(i, slice):
            return list(self.store[self.lo:self.hi])[i]
        if not (0 <= i < self.hi - self.lo):
            raise IndexError(i)
        return self.store[self.lo + i]

    def __setitem__(self, i, v):
        if not (0 <= i < self.hi - self.lo):
            raise IndexError(i)
        self.store[self.lo + i] = v

    def __iter__(self):
        return iter(self.store[self.lo:self.hi])


class BVec(NDArr):
    """1-d numpy array shim: levels, indices, decoded values, boolean masks.  Slices and view() share storage with
    the array they were taken from (numpy semantics); mask indexing and comparisons give new arrays."""

    def __init__(self, items, lo=0, hi=None):
        store = items if isinstance(items, list) else list(items)
        self.items = _Items(store, lo, len(store) if hi is None else hi)

    def __len__(self):
        return len(self.items)

    def view(self, t):
        return self

    def __getitem__(self, k):
        if k is Ellipsis:
            return self
        if isinstance(k, slice):
            n = len(self)
            a = 0 if k.start is None else k.start
            b = n if k.stop is None else k.stop
            a = min(max(a, 0), n)
            b = min(max(b, a), n)
            return BVec(self.items.store, self.items.lo + a, self.items.lo + b)
        if isinstance(k, BVec):
            if len(k) != len(self.items):
                raise IndexError("boolean index did not match indexed array: %d vs %d" % (len(k), len(self.items)))
            return BVec([x for x, m in zip(self.items, k.items) if m])
        return self.items[k]

    def __setitem__(self, k, v):
        if isinstance(k, slice):
            dst = self[k]
            if isinstance(v, BVec):
                if len(v) != len(dst):
                    raise ValueError("could not broadcast %d values into %d slots" % (len(v), len(dst)))
                for i, x in enumerate(v.items):
                    dst.items[i] = x
            else:
                for i in range(len(dst)):
                    dst.items[i] = v
            return
        self.items[k] = v

    def __invert__(self):
        return BVec([not x for x in self.items])

    def __ne__(self, v):
        return BVec([x != v for x in self.items])

    def __eq__(self, v):
        return BVec([x == v for x in self.items])

    __hash__ = None

    def sum(self):
        n = 0
        for x in self.items:
            n += 1 if x else 0
        return n


class _FDtype:
    kind, itemsize = "f", 8

    def __eq__(self, o):
        return o in ("float64", "f8")

    def __ne__(self, o):
        return not self.__eq__(o)

    __hash__ = None

    def type(self, x):
        return x


class _IDtype(_FDtype):
    kind = "i"

    def __eq__(self, o):
        return o in ("int64", "i8")


class _ByteView:
    def __init__(self, arr):
        self.arr = arr

    def __setitem__(self, k, token):
        # raw page bytes copied into the output: they ARE the values when the element layouts match
        if not (isinstance(k, slice) and k.start is None and k.stop is None):
            raise IndexError(k)
        vals = token[1] if isinstance(token, tuple) and token[0] == "valbytes" else None
        if vals is None or len(vals) != len(self.arr):
            raise ValueError("could not broadcast %r into %d elements" % (token, len(self.arr)))
        for i, v in enumerate(vals):
            self.arr.store[self.arr.lo + i] = v


class Arr:
    """pre-allocated output column; slices are views on the same storage"""

    def __init__(self, store, lo=0, hi=None, dtype=None):
        self.store, self.lo = store, lo
        self.hi = len(store) if hi is None else hi
        self.dtype = dtype or _FDtype()

    def __len__(self):
        return self.hi - self.lo

    @property
    def nbytes(self):
        return 8 * len(self)

    def view(self, t):
        return _ByteView(self)

    def __getitem__(self, k):
        if k is Ellipsis:
            return self
        if isinstance(k, slice):
            n = len(self)
            a = 0 if k.start is None else k.start
            b = n if k.stop is None else k.stop
            a = min(max(a, 0), n)
            b = min(max(b, a), n)
            return Arr(self.store, self.lo + a, self.lo + b, self.dtype)
        raise IndexError(k)

    def __setitem__(self, k, v):
        if isinstance(k, slice) and not (k.start is None and k.stop is None):
            self[k][:] = v
            return
        if k is Ellipsis or (isinstance(k, slice) and k.start is None and k.stop is None):
            idx = list(range(self.lo, self.hi))
        elif isinstance(k, BVec):
            if len(k) != len(self):
                raise IndexError("boolean index did not match indexed array: %d vs %d" % (len(k), len(self)))
            idx = [self.lo + i for i, m in enumerate(k.items) if m]
        else:
            raise IndexError(k)
        if isinstance(v, BVec):
            if len(v) != len(idx):
                raise ValueError("shape mismatch: %d values for %d slots" % (len(v), len(idx)))
            for i, x in zip(idx, v.items):
                self.store[i] = x
        else:
            for i in idx:
                self.store[i] = NAN if v is None else v


class Masked:
    """pandas masked extension array as read_data_page_v2 uses it: ._mask (bool per row) and ._data"""

    def __init__(self, n, mask=None, data=None):
        self.dtype = pd.Int64Dtype()
        self._mask = BVec([False] * n) if mask is None else mask
        self._data = Arr(["unset"] * n, dtype=_IDtype()) if data is None else data

    def __len__(self):
        return len(self._mask)

    def __getitem__(self, k):
        # a slice of a masked array is a view on both of its parts
        if not isinstance(k, slice):
            raise IndexError(k)
        m = self._mask[k]
        return Masked(len(m), m, self._data[k])


class _Dic:
    def __init__(self, labels):
        self.labels = labels

    def __getitem__(self, val):
        return BVec([self.labels[i] for i in val.items])


def _val_len(v):
    # PLAIN: 8 bytes per value (none for a page holding only NULLs); dictionary indices / delta: width byte + runs
    return 8 * len(v) if ENC == "plain" else VAL_LEN


class _ColIO:
    """cencoding.NumpyIO over the column chunk: [dictionary page] then data pages laid end to end, each
    HDR + DEF_LEN + value bytes.  read(n) with n < 1 returns everything that is left (the class's contract)."""

    def __init__(self, pages):
        self.pages, self.k, self.pos, self.dict_done = pages, -1, 0, ENC != "dict"
        self.starts = []
        p = HDR if ENC == "dict" else 0
        for d, v in pages:
            self.starts.append(p)
            p += HDR + DEF_LEN + _val_len(v)
        self.size = p

    def tell(self):
        return self.pos

    def seek(self, off, whence=0):
        self.pos = off if whence == 0 else self.pos + off

    def read(self, n=-1):
        if n < 1:
            n = self.size - self.pos
        at = self.pos
        self.pos += n
        if self.k < 0 or self.k >= len(self.pages):
            return ("garbage", None)
        d, v = self.pages[self.k]
        body = self.starts[self.k] + HDR
        if (at, n) == (body, DEF_LEN):
            return ("defbytes", d)
        if (at, n) == (body + DEF_LEN, _val_len(v)):
            return ("valbytes", v)
        return ("garbage", None)


class _PageIO:
    def __init__(self, src):
        self.src = src

    def read_byte(self):
        return 4

    def tell(self):
        return 1

    def seek(self, n, whence=0):
        pass


def _fill(dst, values, n):
    tgt = dst.src
    if isinstance(tgt, _ByteView):          # decoder writing straight into (a byte view of) the output column
        arr = tgt.arr
        for i in range(min(n, len(arr), len(values))):
            arr.store[arr.lo + i] = values[i]
        return
    for i in range(min(n, len(tgt.items), len(values))):
        tgt.items[i] = values[i]


PAGES = [None]


class _Enc:
    @staticmethod
    def NumpyIO(buf):
        if isinstance(buf, (bytes, bytearray)):
            return _ColIO(PAGES[0])
        return _PageIO(buf)

    @staticmethod
    def width_from_max_int(v):
        return int(v).bit_length()

    @staticmethod
    def read_unsigned_var_int(io):
        return 0

    @staticmethod
    def read_rle_bit_packed_hybrid(io_obj, width, length, o, itemsize=4):
        tok = io_obj.src
        if tok[0] == "defbytes":
            _fill(o, tok[1], length)
        elif tok[0] == "valbytes":
            _fill(o, tok[1], len(tok[1]))
        else:
            _fill(o, [9] * 8, 8)

    @staticmethod
    def delta_binary_unpack(io_obj, o, longval=0):
        tok = io_obj.src
        if tok[0] == "valbytes" and longval:
            _fill(o, tok[1], len(tok[1]))
        else:
            _fill(o, [-5] * 8, 8)


class _TO:
    @staticmethod
    def from_buffer(infile, name):
        infile.pos += HDR
        if not infile.dict_done:
            infile.dict_done = True
            return parquet_thrift.PageHeader(type=parquet_thrift.PageType.DICTIONARY_PAGE)
        infile.k += 1
        if infile.k >= len(infile.pages) or infile.pos != infile.starts[infile.k] + HDR:
            raise ValueError("page header parsed at a position that is not the start of a page")
        d, v = infile.pages[infile.k]
        nn = 0
        for x in d:
            nn += (x == 0)
        enc = {"plain": parquet_thrift.Encoding.PLAIN, "dict": parquet_thrift.Encoding.RLE_DICTIONARY,
               "delta": parquet_thrift.Encoding.DELTA_BINARY_PACKED}[ENC]
        size = DEF_LEN + _val_len(v)
        dph = parquet_thrift.DataPageHeaderV2(
            num_values=len(d), num_nulls=nn, num_rows=len(d), encoding=enc,
            definition_levels_byte_length=DEF_LEN, repetition_levels_byte_length=0, is_compressed=False)
        return parquet_thrift.PageHeader(type=parquet_thrift.PageType.DATA_PAGE_V2, compressed_page_size=size,
                                         uncompressed_page_size=size, data_page_header_v2=dph)


class _NP:
    ndarray = NDArr
    uint8, bool_, nan = "uint8", "bool", NAN

    @staticmethod
    def empty(n, dtype=None):
        return BVec(["unset"] * n)

    @staticmethod
    def frombuffer(buf, dtype=None):
        return buf

    @staticmethod
    def not_equal(a, b, out=None):
        for i in range(len(a.items)):
            out.items[i] = (a.items[i] != b)
        return out


def _s_read_plain(raw, type_, count, width=0, utf=False, stat=False):
    if isinstance(raw, tuple) and raw[0] == "valbytes":
        return BVec(list(raw[1])[:count])
    return BVec([-777] * count)


LABELS = [500, 501, 502, 503]


def _schema():
    t = parquet_thrift.Type.DOUBLE if PHYS == "double" else parquet_thrift.Type.INT64
    return [parquet_thrift.SchemaElement(name="schema", num_children=1),
            parquet_thrift.SchemaElement(name="x", type=t, repetition_type=1 if OPTIONAL else 0)]


HELPER = SchemaHelper(_schema())


class _Raw:
    def seek(self, off):
        pass

    def read(self, n):
        return b""


def run(levels, codes, mask=None):
    n = len(levels)
    pages, pos, vi = [], 0, 0
    for r in ROWS:
        d = levels[pos:pos + r]
        nv = 0
        for x in d:
            nv += (x == 1)
        pages.append((d, codes[vi:vi + nv]))
        vi += nv
        pos += r
    PAGES[0] = pages
    nsel = n
    if mask is not None:
        nsel = 0
        for m in mask:
            nsel += 1 if m else 0
    assign = Masked(nsel) if OUT == "nullable" else Arr(["unset"] * nsel)
    md = parquet_thrift.ColumnMetaData(type=HELPER.schema_element(["x"]).type, path_in_schema=["x"], num_values=n,
                                       data_page_offset=4, total_compressed_size=100, codec=0)
    col = parquet_thrift.ColumnChunk(meta_data=md)
    saved = (core.encoding, core.ThriftObject, core.read_dictionary_page, core.np, core.convert, core.decompress_data,
             core.read_plain)
    core.encoding, core.ThriftObject, core.np = _Enc, _TO, _NP
    core.read_dictionary_page = lambda infile, sh, ph, cmd, utf=False: _Dic(LABELS)
    core.convert = lambda v, se, dtype=None: v
    core.decompress_data = lambda data, size, codec: data
    core.read_plain = _s_read_plain
    try:
        core.read_col(col, HELPER, _Raw(), assign=assign, row_filter=None if mask is None else BVec(list(mask)))
    finally:
        (core.encoding, core.ThriftObject, core.read_dictionary_page, core.np, core.convert, core.decompress_data,
         core.read_plain) = saved
    if OUT == "nullable":
        return [NAN if m else v for m, v in zip(list(assign._mask.items), assign._data.store)]
    return list(assign.store)


def expected(levels, codes):
    out, vi = [], 0
    for lv in levels:
        if lv == 1:
            out.append(LABELS[codes[vi]] if ENC == "dict" else codes[vi])
            vi += 1
        else:
            out.append(NAN)
    return out


def h_read_col_v2_masked(levels: List[int], codes: List[int], mask: List[bool]) -> bool:
    """
    pre: len(levels) == sum(ROWS) and all(0 <= x <= 1 for x in levels) and (OPTIONAL or all(x == 1 for x in levels))
    pre: _codes_ok(levels, codes) and len(mask) == len(levels)
    post: __return__
    """
    # a boolean row mask over the chunk: exactly the selected rows, in order
    want = [v for v, m in zip(expected(levels, codes), mask) if m]
    return run(levels, codes, mask) == want


def _pages_const():
    """the concrete driver writes pages of a constant number of rows (the last one may be shorter)"""
    return len(set(ROWS[:-1])) <= 1 and ROWS[-1] <= ROWS[0]


def _series(vals):
    if PHYS == "double" or OUT != "nullable":
        ser = pd.Series([np.nan if v is None else float(v) for v in vals], dtype="float64")
    else:
        ser = pd.Series(pd.array(vals, dtype="Int64"))
    if ENC == "dict":
        ser = pd.Series(pd.Categorical(ser, categories=[float(x) if ser.dtype.kind == "f" else x for x in LABELS]))
    return ser


def replay_h_read_col_v2_masked(levels, codes, mask):
    """a real v2 file (written by this library page by page; DELTA pages built from the specification), read with the
    witness's row mask through ParquetFile.to_pandas(row_filter=...)"""
    import shutil, tempfile
    import fastparquet
    from fastparquet import writer as w
    vals, vi = [], 0
    for lv in levels:
        if lv == 1:
            vals.append(LABELS[codes[vi]] if ENC == "dict" else codes[vi])
            vi += 1
        else:
            vals.append(None)
    spec_dict = ENC == "dict" and PHYS == "int64"       # INT64 dictionary column built from the specification
    if ENC != "delta" and not spec_dict and not _pages_const():
        return None, "pages of these sizes cannot be produced by the concrete driver"
    d = tempfile.mkdtemp(prefix="c13-")
    old = (w._rows_per_page, w.DATAPAGE_VERSION)
    try:
        fn = os.path.join(d, "t.parq")
        if ENC == "delta":
            from vf.pyshim import flat_file
            flat_file.build(fn, [int(v) for v in vals], 64, 2, True)
        elif spec_dict:
            from vf.pyshim import flat_file
            flat_file.build_dict(fn, LABELS, list(codes), 2, nulls=[lv != 1 for lv in levels], optional=OPTIONAL,
                                 version=2, page_rows=ROWS)
        else:
            w._rows_per_page = lambda data, se, has_nulls=True, page_size=None: ROWS[0]
            w.DATAPAGE_VERSION = 2
            fastparquet.write(fn, pd.DataFrame({"x": _series(vals)}), has_nulls=OPTIONAL)
        try:
            pf = fastparquet.ParquetFile(fn, pandas_nulls=(OUT == "nullable"))
            out = pf.to_pandas(row_filter=np.array(mask, dtype=bool), categories=[] if ENC == "dict" else None)["x"]
        except Exception as ex:
            return True, "v2 column %r (%s pages of %r rows) read with mask %r fails: %s: %s" % (
                vals, ENC, ROWS, mask, type(ex).__name__, str(ex)[:80])
        got = [None if pd.isna(x) else float(x) for x in out.astype(object)]
        want = [None if v is None else float(v) for v, m in zip(vals, mask) if m]
        if got != want:
            return True, "v2 column %r (%s pages of %r rows) read with mask %r gives %r" % (vals, ENC, ROWS, mask, got)
        return False, "agrees"
    finally:
        w._rows_per_page, w.DATAPAGE_VERSION = old
        shutil.rmtree(d, ignore_errors=True)


def _codes_ok(levels, codes):
    need = 0
    for x in levels:
        need += (x == 1)
    return need == len(codes) and (ENC != "dict" or all(0 <= c <= 3 for c in codes))


def h_read_col_v2(levels: List[int], codes: List[int]) -> bool:
    """
    pre: len(levels) == sum(ROWS) and all(0 <= x <= 1 for x in levels) and (OPTIONAL or all(x == 1 for x in levels))
    pre: _codes_ok(levels, codes)
    pre: ENC != "delta" or all(x == 1 for x in levels)
    post: __return__
    """
    return run(levels, codes) == expected(levels, codes)


def replay_h_read_col_v2(levels, codes):
    """a real file written by this library with data page v2 (one page per ROWS entry), read back"""
    import shutil, tempfile
    import numpy as np
    import fastparquet
    from fastparquet import writer as w
    if ENC == "delta":
        from vf.pyshim import flat_file
        vals = [int(c) for c in codes]
        ok, info = flat_file.roundtrip(vals, 64, 2, True)
        return (not ok), info
    vals, vi = [], 0
    for lv in levels:
        if lv == 1:
            vals.append(LABELS[codes[vi]] if ENC == "dict" else codes[vi])
            vi += 1
        else:
            vals.append(None)
    if not _pages_const():
        return None, "pages of these sizes cannot be produced by the concrete driver"
    d = tempfile.mkdtemp(prefix="c03-")
    old = (w._rows_per_page, w.DATAPAGE_VERSION)
    try:
        w._rows_per_page = lambda data, se, has_nulls=True, page_size=None: ROWS[0]
        w.DATAPAGE_VERSION = 2
        fn = os.path.join(d, "t.parq")
        fastparquet.write(fn, pd.DataFrame({"x": _series(vals)}), has_nulls=OPTIONAL)
        try:
            out = fastparquet.ParquetFile(fn).to_pandas(categories=[] if ENC == "dict" else None)["x"]
        except Exception as ex:
            return True, "v2 column %r (pages of %r rows) cannot be read back: %s: %s" % (
                vals, ROWS, type(ex).__name__, str(ex)[:80])
        got = [None if pd.isna(x) else float(x) for x in out.astype(object)]
        want = [None if v is None else float(v) for v in vals]
        if got != want:
            return True, "v2 column %r (pages of %r rows) reads back as %r" % (vals, ROWS, got)
        return False, "agrees"
    finally:
        w._rows_per_page, w.DATAPAGE_VERSION = old
        shutil.rmtree(d, ignore_errors=True)
