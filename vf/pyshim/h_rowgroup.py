"""C02 / C01: writer.make_row_group - the row-group record describes its chunks, and the per-column options reach
writer.write_column.  The real make_row_group runs with write_column replaced by a recorder that advances the file by
a symbolic number of bytes and returns a real ColumnChunk carrying symbolic compressed / uncompressed sizes."""
from typing import List

from vf.pyshim.kit import REPLAY, Seg

import fastparquet.writer as writer
from fastparquet import parquet_thrift

T = parquet_thrift.Type
COMP = [None, "SNAPPY", {"a": "GZIP"}, {"_default": "ZSTD", "b": "SNAPPY"}, {"b": None, "_default": "GZIP"}]
# what each column (a, b) must be written with
COMP_WANT = [(None, None), ("SNAPPY", "SNAPPY"), ("GZIP", None), ("ZSTD", "SNAPPY"), ("GZIP", "GZIP")]
STATS = [True, False, "auto", ["b"], []]
STATS_WANT = [(True, True), (False, False), (True, False), (False, True), (False, False)]


def _pick(v, lo, hi):
    for k in range(lo, hi + 1):
        if v == k:
            return k
    raise ValueError(v)


class _DT:
    def __init__(self, kind):
        self.kind = kind


class _Col:
    def __init__(self, name, kind):
        self.name, self.dtype = name, _DT(kind)


class _Frame:
    """two columns: a (integers), b (text)"""

    def __init__(self, rows):
        self.rows = rows
        self.columns = ["a", "b"]
        self.cols = {"a": _Col("a", "i"), "b": _Col("b", "O")}

    def __len__(self):
        return self.rows

    def __iter__(self):
        return iter(self.columns)

    def __getitem__(self, k):
        return self.cols[k]


class _F:
    def __init__(self, pos):
        self.pos = pos

    def tell(self):
        return self.pos


def h_make_row_group(rows: int, start: int, u0: int, c0: int, u1: int, c1: int, ic: int, ist: int,
                     lmax: int = 3, lmin: int = 2) -> bool:
    """
    pre: 0 <= rows <= 1 << 31 and 0 <= start <= 1 << 40
    pre: 0 <= c0 <= u0 <= 1 << 31 and 0 <= c1 <= u1 <= 1 << 31 and 0 <= ic <= 4 and 0 <= ist <= 4
    pre: 0 <= lmax <= 1 << 20 and 0 <= lmin <= 1 << 20
    post: __return__
    """
    ic, ist = _pick(ic, 0, 4), _pick(ist, 0, 4)
    # contract of write_column: a chunk written without a codec occupies its uncompressed size
    if (COMP_WANT[ic][0] is None and c0 != u0) or (COMP_WANT[ic][1] is None and c1 != u1):
        return True
    schema = [parquet_thrift.SchemaElement(name="schema", num_children=2),
              parquet_thrift.SchemaElement(name="a", type=T.INT64, repetition_type=1),
              parquet_thrift.SchemaElement(name="b", type=T.BYTE_ARRAY, repetition_type=1, converted_type=0)]
    sizes = {"a": (u0, c0), "b": (u1, c1)}
    calls = []
    f = _F(start)

    def write_column(fobj, coldata, column, compression=None, stats=True, **kw):
        u, c = sizes[column.name]
        calls.append((column.name, coldata.name, compression, stats, fobj is f, kw))
        fobj.pos += c
        # the chunk's bounds as write_column computed them: byte strings of any length for the text column
        st = parquet_thrift.Statistics(null_count=0, max=Seg("max-" + column.name, lmax if column.name == "b" else 8),
                                       min=Seg("min-" + column.name, lmin if column.name == "b" else 8))
        md = parquet_thrift.ColumnMetaData(type=column.type, path_in_schema=[column.name], num_values=rows,
                                           total_uncompressed_size=u, total_compressed_size=c, statistics=st)
        return parquet_thrift.ColumnChunk(meta_data=md, file_offset=fobj.pos)
    saved = writer.write_column
    writer.write_column = write_column
    try:
        rg = writer.make_row_group(f, _Frame(rows), schema, compression=COMP[ic], stats=STATS[ist])
    finally:
        writer.write_column = saved
    if rows == 0:
        return rg is None and calls == []
    if rg is None or [c[0] for c in calls] != ["a", "b"] or [c[1] for c in calls] != ["a", "b"]:
        return False
    if not all(c[4] and c[5] == {} for c in calls):
        return False
    if (calls[0][2], calls[1][2]) != COMP_WANT[ic]:
        return False
    if (bool(calls[0][3]), bool(calls[1][3])) != STATS_WANT[ist]:
        return False
    cols = rg.columns
    # the bounds of each chunk are handed on as write_column computed them (exact: C04)
    for c, name in zip(cols, "ab"):
        st = c.meta_data.statistics
        if st is None or not isinstance(st.max, Seg) or not isinstance(st.min, Seg):
            return False
        if st.max.tag != "max-" + name or st.min.tag != "min-" + name:
            return False
        if len(st.max) != (lmax if name == "b" else 8) or len(st.min) != (lmin if name == "b" else 8):
            return False
    return (rg.num_rows == rows and len(cols) == 2 and cols[0].meta_data.path_in_schema == ["a"] and
            cols[1].meta_data.path_in_schema == ["b"] and
            rg.total_byte_size == u0 + u1)            # parquet.thrift: total byte size of all uncompressed column data


def replay_h_make_row_group(rows, start, u0, c0, u1, c1, ic, ist, lmax=3, lmin=2):
    """a real file with the witness's options: the row-group record vs its chunks, codec and statistics per column"""
    import os, shutil, tempfile
    import pandas as pd
    import fastparquet
    d = tempfile.mkdtemp(prefix="c02-")
    try:
        fn = os.path.join(d, "t.parq")
        n = 4000
        df = pd.DataFrame({"a": [7] * n, "b": ["text text text"] * n})
        fastparquet.write(fn, df, compression=COMP[ic], stats=STATS[ist], row_group_offsets=[0, n // 2])
        pf = fastparquet.ParquetFile(fn)
        names = parquet_thrift.CompressionCodec._VALUES_TO_NAMES
        for rg in pf.row_groups:
            want = sum(c.meta_data.total_uncompressed_size for c in rg.columns)
            if rg.total_byte_size != want:
                return True, "compression=%r: RowGroup.total_byte_size=%d, its chunks hold %d uncompressed bytes" % (
                    COMP[ic], rg.total_byte_size, want)
            if rg.num_rows != n // 2 or [c.meta_data.path_in_schema for c in rg.columns] != [["a"], ["b"]]:
                return True, "row group record: num_rows=%r columns=%r" % (
                    rg.num_rows, [c.meta_data.path_in_schema for c in rg.columns])
            for c, wc, ws in zip(rg.columns, COMP_WANT[ic], STATS_WANT[ist]):
                got = names[c.meta_data.codec]
                if got != (wc or "UNCOMPRESSED"):
                    return True, "compression=%r: column %s stored with codec %s" % (
                        COMP[ic], c.meta_data.path_in_schema[0], got)
                has = c.meta_data.statistics is not None and c.meta_data.statistics.max is not None
                if has != ws:
                    return True, "stats=%r: column %s %s min/max" % (
                        STATS[ist], c.meta_data.path_in_schema[0], "has" if has else "has no")
        # the text column's bounds for values as long as the witness's
        for ln in sorted({int(lmax), int(lmin), 3}):
            lo, hi = "a" * ln + "0", "a" * ln + "1"
            fastparquet.write(fn, pd.DataFrame({"a": [1, 2], "b": [lo, hi]}), stats=True)
            st = fastparquet.ParquetFile(fn).row_groups[0].columns[1].meta_data.statistics
            if bytes(st.max) != hi.encode() or bytes(st.min) != lo.encode():
                return True, ("stats=True, text values of %d characters: the chunk's max/min are %d/%d bytes long - not "
                              "the largest / smallest value stored" % (ln + 1, len(st.max), len(st.min)))
        return False, "agrees"
    finally:
        shutil.rmtree(d, ignore_errors=True)
