"""C13 - row-level filtering is exact.
F1: real ParquetFile._column_filter / _columns_from_filters over vector shims; documented semantics (flat list = AND,
    list of lists = OR of ANDs, partition clauses honoured).
F2: real ParquetFile.to_pandas (mask branch) and count() on a shim handle: each selected row lands at its rank among
    the selected rows; fully selected groups are read unmasked; empty groups skipped; count == popcount."""
import os
from typing import List, Optional

from vf.pyshim.kit import OPS, row_pred, BoolVec, Frame, NPVec, REPLAY

import fastparquet.api as api
from fastparquet.api import ParquetFile

if not REPLAY:
    api.np = NPVec


class _Self:
    def __init__(self, cats):
        self.cats = cats


def _clause_sat(row, c):
    name, op, v = c
    return row_pred(op, row[name], v)


def _expected(row, filters, flat):
    if flat:
        return all(_clause_sat(row, c) for c in filters)
    return any(all(_clause_sat(row, c) for c in grp) for grp in filters)


def h_column_filter_flat(a0: int, a1: int, b0: int, b1: int, op1: int, v1: int, op2: int, v2: int) -> bool:
    """
    pre: 0 <= op1 < 7 and 0 <= op2 < 7
    post: __return__
    """
    # flat list of two conditions = AND (documented in to_pandas / filter_row_groups)
    filters = [("a", OPS[op1], v1), ("b", OPS[op2], v2)]
    df = Frame({"a": [a0, a1], "b": [b0, b1]}, 2)
    out = ParquetFile._column_filter(_Self({}), df, filters)
    rows = [{"a": a0, "b": b0}, {"a": a1, "b": b1}]
    return all(bool(out[i]) == _expected(rows[i], filters, True) for i in range(2))


def replay_h_column_filter_flat(a0, a1, b0, b1, op1, v1, op2, v2):
    filters = [("a", OPS[op1], v1), ("b", OPS[op2], v2)]
    return _replay_rows([(a0, b0), (a1, b1)], filters, True)


def h_column_filter_and(a0: int, a1: int, b0: int, b1: int, op1: int, v1: int, op2: int, v2: int) -> bool:
    """
    pre: 0 <= op1 < 7 and 0 <= op2 < 7
    post: __return__
    """
    filters = [[("a", OPS[op1], v1), ("b", OPS[op2], v2)]]
    df = Frame({"a": [a0, a1], "b": [b0, b1]}, 2)
    out = ParquetFile._column_filter(_Self({}), df, filters)
    rows = [{"a": a0, "b": b0}, {"a": a1, "b": b1}]
    return all(bool(out[i]) == _expected(rows[i], filters, False) for i in range(2))


def replay_h_column_filter_and(a0, a1, b0, b1, op1, v1, op2, v2):
    return _replay_rows([(a0, b0), (a1, b1)], [[("a", OPS[op1], v1), ("b", OPS[op2], v2)]], False)


def h_column_filter_or(a0: int, a1: int, b0: int, b1: int, op1: int, v1: int, op2: int, v2: int) -> bool:
    """
    pre: 0 <= op1 < 7 and 0 <= op2 < 7
    post: __return__
    """
    filters = [[("a", OPS[op1], v1)], [("b", OPS[op2], v2)]]
    df = Frame({"a": [a0, a1], "b": [b0, b1]}, 2)
    out = ParquetFile._column_filter(_Self({}), df, filters)
    rows = [{"a": a0, "b": b0}, {"a": a1, "b": b1}]
    return all(bool(out[i]) == _expected(rows[i], filters, False) for i in range(2))


def replay_h_column_filter_or(a0, a1, b0, b1, op1, v1, op2, v2):
    return _replay_rows([(a0, b0), (a1, b1)], [[("a", OPS[op1], v1)], [("b", OPS[op2], v2)]], False)


def h_column_filter_or_of_and(a0: int, b0: int, op1: int, v1: int, op2: int, v2: int, lt3: bool, v3: int) -> bool:
    """
    pre: 0 <= op1 < 7 and 0 <= op2 < 7
    post: __return__
    """
    # [[A, B], [C]] on one row
    filters = [[("a", OPS[op1], v1), ("b", OPS[op2], v2)], [("a", "<" if lt3 else ">=", v3)]]
    df = Frame({"a": [a0], "b": [b0]}, 1)
    out = ParquetFile._column_filter(_Self({}), df, filters)
    return bool(out[0]) == _expected({"a": a0, "b": b0}, filters, False)


def replay_h_column_filter_or_of_and(a0, b0, op1, v1, op2, v2, lt3, v3):
    filters = [[("a", OPS[op1], v1), ("b", OPS[op2], v2)], [("a", "<" if lt3 else ">=", v3)]]
    return _replay_rows([(a0, b0)], filters, False)


def h_column_filter_in(a0: int, a1: int, vals: List[int], negate: bool, nested: bool) -> bool:
    """
    pre: len(vals) <= 2
    post: __return__
    """
    op = "not in" if negate else "in"
    filters = [[("a", op, vals)]] if nested else [("a", op, vals)]
    df = Frame({"a": [a0, a1]}, 2)
    out = ParquetFile._column_filter(_Self({}), df, filters)
    return all(bool(out[i]) == row_pred(op, x, vals) for i, x in enumerate((a0, a1)))


def replay_h_column_filter_in(a0, a1, vals, negate, nested):
    op = "not in" if negate else "in"
    filters = [[("a", op, vals)]] if nested else [("a", op, vals)]
    return _replay_rows([(a0, 0), (a1, 0)], filters, not nested)


def _h_column_filter_partition(a0: int, a1: int, p: int, op1: int, v1: int, pne: bool, vp: int, shape: int) -> bool:
    # (body of the harness below; kept free of a contract so that other harnesses can call it: CrossHair
    # enforces the contract of a contracted callee and drops the path when it fails)
    # rows of one row group whose partition value is p; the group was not pruned.  Programs:
    #   0: [[A, P]]   2: [[P, A]]  (AND with a partition clause, either order)    1: [[A], [P]]  (OR)
    A, P = ("a", OPS[op1], v1), ("p", "!=" if pne else "==", vp)
    filters = [[[A, P]], [[A], [P]], [[P, A]]][shape]
    # pruning keeps the group iff some AND group is not excluded by the partition value (no statistics here)
    kept = any(all(row_pred(c[1], p, c[2]) for c in grp if c[0] == "p") for grp in filters)
    if not kept:
        return True
    df = Frame({"a": [a0, a1]}, 2)
    out = ParquetFile._column_filter(_Self({"p": [p]}), df, filters)
    rows = [{"a": a0, "p": p}, {"a": a1, "p": p}]
    return all(bool(out[i]) == _expected(rows[i], filters, False) for i in range(2))


def h_column_filter_partition(a0: int, a1: int, p: int, op1: int, v1: int, pne: bool, vp: int, shape: int) -> bool:
    """
    pre: 0 <= op1 < 7 and 0 <= shape <= 2
    post: __return__
    """
    return _h_column_filter_partition(a0, a1, p, op1, v1, pne, vp, shape)


def h_column_filter_partition_and(a0: int, a1: int, p: int, op1: int, v1: int, pne: bool, vp: int,
                                  pfirst: bool) -> bool:
    """
    pre: 0 <= op1 < 7
    post: __return__
    """
    # the AND shapes alone, partition clause last or first (outside known finding P2, which concerns OR groups)
    return _h_column_filter_partition(a0, a1, p, op1, v1, pne, vp, 2 if pfirst else 0)


def replay_h_column_filter_partition_and(a0, a1, p, op1, v1, pne, vp, pfirst):
    return replay_h_column_filter_partition(a0, a1, p, op1, v1, pne, vp, 2 if pfirst else 0)


def replay_h_column_filter_partition(a0, a1, p, op1, v1, pne, vp, shape):
    import tempfile, shutil
    import pandas as pd
    import fastparquet
    A, P = ("a", OPS[op1], v1), ("p", "!=" if pne else "==", vp)
    filters = [[[A, P]], [[A], [P]], [[P, A]]][shape]
    df = pd.DataFrame({"a": [a0, a1], "p": [p, p]})
    d = tempfile.mkdtemp(prefix="c13-")
    try:
        fastparquet.write(d, df, file_scheme="hive", partition_on=["p"], stats=False)
        pf = fastparquet.ParquetFile(d)
        out = pf.to_pandas(filters=filters, row_filter=True)
        got = sorted(int(x) for x in out["a"])
        rows = [{"a": a0, "p": p}, {"a": a1, "p": p}]
        want = sorted(r["a"] for r in rows if _expected(r, filters, False))
        cnt = int(pf.count(filters=filters, row_filter=True))
        if got != want or cnt != len(want):
            return True, "filters=%r on rows a=%r p=%r: to_pandas(row_filter=True) gives a=%r (count()=%d), " \
                         "exact filtering gives %r" % (filters, [a0, a1], p, got, cnt, want)
        return False, "exact"
    finally:
        shutil.rmtree(d, ignore_errors=True)


# ------------------------------------------------------- drill-style partitions (dirN columns) ---
DRILL_LABELS = ["a", "b", "c"]


class _DrillPF:
    """what filter_row_groups reads from the handle of a drill-partitioned dataset"""

    def __init__(self, rgs, cats):
        from vf.pyshim.kit import SchemaShim
        self.row_groups, self.cats = rgs, cats
        self.columns = ["a"]
        self.schema = SchemaShim()
        self.partition_meta = {}
        self.file_scheme = "drill"


def _drill_rg(label, k):
    from fastparquet import parquet_thrift
    md = parquet_thrift.ColumnMetaData(type=2, path_in_schema=["a"], num_values=1, statistics=None)
    return parquet_thrift.RowGroup(num_rows=1, columns=[
        parquet_thrift.ColumnChunk(meta_data=md, file_path="%s/part.%d.parquet" % (label, k))])


def h_drill_partition_filter(l0: int, l1: int, ic: int, op1: int, a0: int, nested: bool) -> bool:
    """
    pre: 0 <= l0 < 3 and 0 <= l1 < 3 and 0 <= ic < 3 and 0 <= op1 < 9
    post: __return__
    """
    # a dataset partitioned drill-style (directories a/, b/, ...: column dir0) and one clause on dir0.  The rows a
    # filtered read returns are those of the row groups the real filter_row_groups keeps (real path parsing) that the
    # real _column_filter then selects; exact filtering keeps the rows of a row group iff its label satisfies the clause
    l0, l1, ic, op1 = _pick(l0, 0, 2), _pick(l1, 0, 2), _pick(ic, 0, 2), _pick(op1, 0, 8)
    labels = [DRILL_LABELS[l0], DRILL_LABELS[l1]]
    const = DRILL_LABELS[ic]
    if op1 >= 7:
        const = [const]
    clause = ("dir0", OPS[op1], const)
    filters = [[clause]] if nested else [clause]
    rgs = [_drill_rg(labels[0], 0), _drill_rg(labels[1], 1)]
    pf = _DrillPF(rgs, {"dir0": sorted(set(labels))})
    kept = api.filter_row_groups(pf, filters)
    for k in range(2):
        got = any(rgs[k] is o for o in kept)
        if got:
            out = ParquetFile._column_filter(_Self(pf.cats), Frame({"a": [a0]}, 1), filters)
            got = bool(out[0])
        if got != row_pred(OPS[op1], labels[k], const):
            return False
    return True


def _pick(v, lo, hi):
    for k in range(lo, hi + 1):
        if v == k:
            return k
    raise ValueError(v)


def replay_h_drill_partition_filter(l0, l1, ic, op1, a0, nested):
    import tempfile, shutil
    import pandas as pd
    import fastparquet
    labels = [DRILL_LABELS[l0], DRILL_LABELS[l1]]
    const = DRILL_LABELS[ic]
    if op1 >= 7:
        const = [const]
    clause = ("dir0", OPS[op1], const)
    filters = [[clause]] if nested else [clause]
    d = tempfile.mkdtemp(prefix="c13-")
    try:
        if labels[0] == labels[1]:
            df = pd.DataFrame({"p": [labels[0], labels[0]], "a": [0, 1]})
        else:
            df = pd.DataFrame({"p": labels, "a": [0, 1]})
        fastparquet.write(d, df, file_scheme="drill", partition_on=["p"], stats=False)
        pf = fastparquet.ParquetFile(d)
        out = pf.to_pandas(filters=filters, row_filter=True)
        got = sorted(int(x) for x in out["a"])
        want = sorted(k for k in range(2) if row_pred(OPS[op1], labels[k], const))
        cnt = int(pf.count(filters=filters, row_filter=True))
        if got != want or cnt != len(want):
            return True, ("drill dataset with directories %r: to_pandas(filters=%r, row_filter=True) returns the rows "
                          "a=%r (count()=%d), exact filtering gives a=%r" % (labels, filters, got, cnt, want))
        return False, "exact"
    finally:
        shutil.rmtree(d, ignore_errors=True)


def _replay_rows(rows, filters, flat):
    import tempfile, os, shutil
    import pandas as pd
    import fastparquet
    df = pd.DataFrame({"a": [r[0] for r in rows], "b": [r[1] for r in rows]})
    d = tempfile.mkdtemp(prefix="c13-")
    try:
        fn = os.path.join(d, "t.parq")
        fastparquet.write(fn, df, stats=False)
        pf = fastparquet.ParquetFile(fn)
        out = pf.to_pandas(filters=filters, row_filter=True)
        got = [(int(a), int(b)) for a, b in zip(out["a"], out["b"])]
        want = [r for r in rows if _expected({"a": r[0], "b": r[1]}, filters, flat)]
        cnt = int(pf.count(filters=filters, row_filter=True))
        if got != want or cnt != len(want):
            return True, "filters=%r on rows %r: to_pandas(row_filter=True) returns %r (count()=%d), documented " \
                         "semantics give %r" % (filters, rows, got, cnt, want)
        return False, "exact"
    finally:
        shutil.rmtree(d, ignore_errors=True)


# ----------------------------------------------------------------- count(filters, row_filter=True) ---
class _DFrame(Frame):
    """pandas contract: a frame is `empty` when either axis has length zero (rows without columns included)"""

    @property
    def empty(self):
        return self.n == 0 or len(self.cols) == 0


class _CountHandle:
    """two row groups (partition value p_i, rows a_i): what count() reads from `self`"""
    _columns_from_filters = ParquetFile._columns_from_filters
    _column_filter = ParquetFile._column_filter
    count = ParquetFile.count
    iter_row_groups = ParquetFile.iter_row_groups

    def __init__(self, groups):
        self.groups = groups                       # [(p, [a values])]
        self.row_groups = list(range(len(groups)))
        self.cats = {"p": sorted(set(g[0] for g in groups))}

    def kept(self, filters):
        # row-group level contract (C05): a group whose partition value fails every AND group is pruned
        if filters and isinstance(filters[0][0], str):
            filters = [filters]
        out = []
        for i in self.row_groups:
            p = self.groups[i][0]
            if not filters or any(all(row_pred(c[1], p, c[2]) for c in grp if c[0] == "p") for grp in filters):
                out.append(i)
        return out

    def to_pandas(self, columns=None, filters=[], row_filter=False, index=None, **kw):
        vals = []
        for i in self.kept(filters):
            vals = vals + list(self.groups[i][1])
        cols = {"a": vals} if (columns is None or "a" in columns) else {}
        return _DFrame(cols, len(vals))

    def __getitem__(self, i):
        return _CountHandle([self.groups[self.row_groups[i]]])


SHAPE = int(os.environ.get("VERIF_FSHAPE", "0"))


def h_count_row_filter(p0: int, p1: int, a0: int, a1: int, op1: int, v1: int, vp: int, pne: bool) -> bool:
    """
    pre: 0 <= op1 < 7
    post: __return__
    """
    a2, n0, shape = a1, 1, SHAPE
    # rows a0..a2 split over two row groups (n0 in the first) with partition values p0, p1; filter programs:
    #   0: [A]   1: [P]   2: [[A, P]]   3: [[P, A]]     (A on the data column, P on the partition column)
    # count(filters, row_filter=True) is the number of rows a filtered read returns
    A, P = ("a", OPS[op1], v1), ("p", "!=" if pne else "==", vp)
    filters = [[A], [P], [[A, P]], [[P, A]]][shape]
    vals = [a0, a1, a2]
    groups = [(p0, vals[:n0]), (p1, vals[n0:])]
    h = _CountHandle(groups)
    saved = api.filter_row_groups
    api.filter_row_groups = lambda pf, filters, as_idx=False: pf.kept(filters)
    try:
        got = h.count(filters=filters, row_filter=True)
    finally:
        api.filter_row_groups = saved
    want = 0
    for p, rows in groups:
        for a in rows:
            ok = True
            for c in ([filters] if isinstance(filters[0][0], str) else filters)[0]:
                ok = ok and row_pred(c[1], a if c[0] == "a" else p, c[2])
            want += (1 if ok else 0)
    return got == want


def replay_h_count_row_filter(p0, p1, a0, a1, op1, v1, vp, pne):
    a2, n0, shape = a1, 1, SHAPE
    import os, shutil, tempfile
    import pandas as pd
    import fastparquet
    if p0 == p1 and n0 not in (0, 3):
        p1 = p0 + 1 if vp != p0 + 1 else p0 + 2       # two directories need two labels
    A, P = ("a", OPS[op1], v1), ("p", "!=" if pne else "==", vp)
    filters = [[A], [P], [[A, P]], [[P, A]]][shape]
    vals = [a0, a1, a2]
    df = pd.DataFrame({"a": vals, "p": [p0] * n0 + [p1] * (3 - n0)})
    d = tempfile.mkdtemp(prefix="c13-")
    try:
        dn = os.path.join(d, "ds")
        fastparquet.write(dn, df, file_scheme="hive", partition_on=["p"])
        pf = fastparquet.ParquetFile(dn)
        cnt = int(pf.count(filters=filters, row_filter=True))
        flt = [filters] if isinstance(filters[0][0], str) else filters
        want = sum(1 for a, p in zip(df["a"], df["p"]) if all(row_pred(c[1], a if c[0] == "a" else p, c[2])
                                                              for c in flt[0]))
        if cnt != want:
            return True, "count(filters=%r, row_filter=True) = %d on rows a=%r p=%r; %d rows satisfy the filter" % (
                filters, cnt, vals, list(df["p"]), want)
        return False, "count agrees"
    finally:
        shutil.rmtree(d, ignore_errors=True)
