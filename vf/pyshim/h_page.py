"""Real core.read_data_page / read_def (data page v1) with the kernels stubbed to recording shims: how many values are
requested, with which capacities, item sizes and bit widths the native decoders are called (the call-site patterns
that the E1 harnesses assume), null counting, and what is returned."""
import os
from typing import List

from vf.pyshim.kit import REPLAY
from vf.pyshim.h_readcol import Vec, NDArr

import fastparquet.core as core
from fastparquet import parquet_thrift
from fastparquet.schema import SchemaHelper

OPTIONAL = os.environ.get("VERIF_OPTIONAL", "1") == "1"
ENC = os.environ.get("VERIF_ENC", "plain")          # plain | dict | delta | bool_rle
SELFMADE = os.environ.get("VERIF_SELFMADE", "0") == "1"


class _IO:
    def __init__(self, total):
        self.len = total
        self.pos = 0
        self.bw = None

    def tell(self):
        return self.pos

    def read(self, n=-1):
        if n is None or n < 1:
            n = self.len - self.pos
        self.pos += n
        return ("bytes", n)

    def read_byte(self):
        self.pos += 1
        return self.bw

    def seek(self, n, whence=0):
        if whence == 1:
            self.pos += n
        else:
            self.pos = n


class _Out(NDArr):
    def __init__(self, n, dtype):
        self.n, self.dtype = n, dtype
        self.data = self

    def view(self, t):
        return self

    def __getitem__(self, s):
        stop = self.n if s.stop is None else min(s.stop, self.n)
        return _Out(max(stop, 0), self.dtype)

    def __len__(self):
        return self.n


class _NPs:
    ndarray = NDArr
    uint8, int8, int32, int64 = "uint8", "int8", "int32", "int64"

    @staticmethod
    def empty(n, dtype=None):
        return _Out(n, dtype)

    @staticmethod
    def zeros(n, dtype=None):
        return _Out(n, ("zeros", dtype))

    @staticmethod
    def frombuffer(b, dtype=None):
        return _Out(b[1] // {"int8": 1, "int16": 2, "int32": 4, "uint8": 1, "uint16": 2, "uint32": 4}[dtype], dtype)

    # elementwise comparison with a scalar (into `out` when given: the array then HOLDS the 0/1 result) and the count of
    # non-zero entries - numpy's documented contracts
    @staticmethod
    def equal(a, b, out=None):
        r = [x == b for x in a.items]
        if out is None:
            return type(a)(r)
        out.items[:] = [1 if t else 0 for t in r]
        return out

    @staticmethod
    def count_nonzero(a):
        return len([x for x in a.items if x])


CALLS = [[]]


class _EncNS:
    class Rec:
        pass

    @staticmethod
    def NumpyIO(x):
        if isinstance(x, tuple):
            return _IO(x[1])
        return ("out", x)

    @staticmethod
    def width_from_max_int(v):
        return 0 if v == 0 else (1 if v == 1 else 2)

    @staticmethod
    def read_rle_bit_packed_hybrid(io_obj, width, length, o=None, itemsize=4):
        CALLS[0].append(("hybrid", width, length, o[1].n, o[1].dtype, itemsize))
        io_obj.pos = io_obj.len

    @staticmethod
    def delta_binary_unpack(io_obj, o, longval=0):
        CALLS[0].append(("delta", o[1].n, o[1].dtype, bool(longval)))

    @staticmethod
    def read_unsigned_var_int(io_obj):
        io_obj.pos += 1
        return io_obj.header


LEVELS = [None]


REPS = [None]


def _s_read_data(fobj, coding, count, bit_width, out=None):
    CALLS[0].append(("levels", count, bit_width))
    if REPS[0] is not None and len([c for c in CALLS[0] if c[0] == "levels"]) == 1:
        return Vec(REPS[0])            # a nested column: repetition levels come first
    return Vec(LEVELS[0])


def _s_read_plain(raw, type_, count, width=0, utf=False, stat=False):
    CALLS[0].append(("plain", count))
    return _Out(count, "plain")


def _schema():
    t = {"plain": 2, "dict": 2, "delta": 2, "bool_rle": 0}[ENC]
    return [parquet_thrift.SchemaElement(name="schema", num_children=1),
            parquet_thrift.SchemaElement(name="x", type=t, repetition_type=1 if OPTIONAL else 0, type_length=None)]


HELPER = SchemaHelper(_schema())


def run(levels, bit_width, page_bytes, header):
    n = len(levels)
    enc = {"plain": parquet_thrift.Encoding.PLAIN, "dict": parquet_thrift.Encoding.RLE_DICTIONARY,
           "delta": parquet_thrift.Encoding.DELTA_BINARY_PACKED, "bool_rle": parquet_thrift.Encoding.RLE}[ENC]
    daph = parquet_thrift.DataPageHeader(num_values=n, encoding=enc)
    ph = parquet_thrift.PageHeader(type=0, data_page_header=daph, compressed_page_size=page_bytes,
                                   uncompressed_page_size=page_bytes)
    md = parquet_thrift.ColumnMetaData(type=HELPER.schema_element(["x"]).type, path_in_schema=["x"], num_values=n,
                                       codec=0)
    LEVELS[0] = list(levels)
    CALLS[0] = []
    io = _IO(page_bytes)
    io.bw, io.header = bit_width, header
    saved = (core.encoding, core.read_data, core.read_plain, core.np, core._read_page)
    core.encoding, core.read_data, core.read_plain, core.np = _EncNS, _s_read_data, _s_read_plain, _NPs
    core._read_page = lambda f, header_, metadata: ("bytes", page_bytes)
    _EncNS.NumpyIO = staticmethod(lambda x: io if isinstance(x, tuple) else ("out", x))
    try:
        defi, rep, values = core.read_data_page(None, HELPER, ph, md, skip_nulls=False, selfmade=SELFMADE)
    finally:
        core.encoding, core.read_data, core.read_plain, core.np, core._read_page = saved
    return defi, rep, values, list(CALLS[0])


def h_page_v1(levels: List[int], bit_width: int, page_bytes: int, groups: int) -> bool:
    """
    pre: 1 <= len(levels) <= 3 and all(0 <= x <= 1 for x in levels) and (OPTIONAL or all(x == 1 for x in levels))
    pre: 0 <= bit_width <= 32 and 16 <= page_bytes <= 4096 and 1 <= groups <= 2
    post: __return__
    """
    n = len(levels)
    nn = len([x for x in levels if x == 0])
    nval = n - nn
    defi, rep, values, calls = run(levels, bit_width, page_bytes, (groups << 1) | 1)
    if rep is not None:
        return False
    # levels are handed back only when the page holds a NULL
    if nn == 0 and defi is not None:
        return False
    if nn > 0 and (defi is None or defi.items != list(levels)):
        return False
    if len(values) != nval:
        if not (ENC == "dict" and SELFMADE and bit_width in (8, 16, 32)):
            return False
    if OPTIONAL and ("levels", n, 1) not in calls:
        return False
    body = [c for c in calls if c[0] != "levels"]
    if ENC == "plain":
        return body == [("plain", nval)]
    if ENC == "delta":
        return body == [("delta", nval, "int64", True)]
    if ENC == "bool_rle":
        return len(body) == 1 and body[0][:2] == ("hybrid", 1) and body[0][3] == nval and body[0][5] == 1
    # dictionary indices
    if bit_width == 0:
        return body == [] and values.dtype[0] == "zeros"
    if SELFMADE and bit_width in (8, 16, 32):
        # raw fixed-width indices: (header >> 1) * 8 items are taken from the page and cut to nval
        # ... as the SIGNED integers the writer stored: its code -1 marks a missing value of a column written REQUIRED
        return body == [] and len(values) == min(nval, groups * 8) and values.dtype == "int%d" % bit_width
    if len(body) != 1 or body[0][0] != "hybrid":
        return False
    kind, w, length, cap, dtype, isz = body[0]
    # the output array must hold every index of this width without changing its value: unsigned with >= width bits or
    # signed with > width bits (width 32 cannot occur with more than 2^31 dictionary entries: sizes are i32)
    bits = {"uint8": (8, False), "int8": (8, True), "int32": (32, True), "int64": (64, True)}.get(dtype)
    holds = bits is not None and (bits[0] >= bit_width + (1 if bits[1] else 0) or bit_width == 32)
    return w == bit_width and cap == nval and isz == (4 if bit_width > 8 else 1) and (holds or nval == 0) and \
        bits is not None and bits[0] == 8 * isz


def _replay_selfmade_codes():
    """a categorical column written REQUIRED with missing values (code -1, 8-bit codes), then an append whose longer
    category list makes the output codes 16 bits wide: the missing values of the first row group stay missing"""
    import os, shutil, tempfile
    import pandas as pd
    import fastparquet
    d = tempfile.mkdtemp(prefix="c07-")
    try:
        cats = ["c%03d" % i for i in range(300)]
        for scheme in ("simple", "hive"):
            fn = os.path.join(d, "ds-" + scheme)
            a = pd.DataFrame({"x": pd.Categorical(["c000", None, "c001", None], categories=cats[:5])})
            b = pd.DataFrame({"x": pd.Categorical(["c299", "c128"], categories=cats)})
            fastparquet.write(fn, a, file_scheme=scheme, has_nulls=False)
            fastparquet.write(fn, b, file_scheme=scheme, has_nulls=False, append=True)
            try:
                got = fastparquet.ParquetFile(fn).to_pandas()["x"].tolist()
            except Exception as ex:
                return True, "categorical column stored REQUIRED with missing values, after an append with 300 " \
                             "categories: read fails with %s" % type(ex).__name__
            got = [None if x is None or x != x else x for x in got]
            want = ["c000", None, "c001", None, "c299", "c128"]
            if got != want:
                return True, ("categorical column stored REQUIRED with missing values (%s dataset), after an append "
                              "whose category list has 300 entries: rows read %r, written %r" % (scheme, got, want))
        return False, "missing values stay missing"
    finally:
        shutil.rmtree(d, ignore_errors=True)


def replay_h_page_v1(levels, bit_width, page_bytes, groups):
    """file-level replay: a column whose single v1 page has this null layout and (for dictionaries) this index width,
    built from the specification and read through ParquetFile.to_pandas()"""
    from vf.pyshim import flat_file
    nulls = [x == 0 for x in levels]
    if ENC == "dict" and not SELFMADE:
        ok, info = flat_file.roundtrip_dict(nulls, bit_width, OPTIONAL)
        return (not ok), info
    if ENC == "dict" and SELFMADE and bit_width in (8, 16, 32):
        return _replay_selfmade_codes()
    if ENC in ("plain", "delta") and not OPTIONAL:
        vals = [7 + 1000 * i for i in range(len(levels))]
        ok, info = flat_file.roundtrip(vals, 64, 1, ENC == "delta")
        return (not ok), info
    return None, "no file-level driver for this page kind (encoding %s, optional=%s, selfmade=%s)" % (
        ENC, OPTIONAL, SELFMADE)


# ------------------------------------------------------------------ nested column: both level streams ---
NESTED_HELPER = SchemaHelper([
    parquet_thrift.SchemaElement(name="schema", num_children=1),
    parquet_thrift.SchemaElement(name="x", num_children=1, repetition_type=1, converted_type=3),
    parquet_thrift.SchemaElement(name="list", num_children=1, repetition_type=2),
    parquet_thrift.SchemaElement(name="element", type=2, repetition_type=1)])


def _valid_lists(rep, levels):
    # an entry continuing a row is an element (level >= 2) of a row that started with an element
    for k in range(len(rep)):
        if rep[k] == 1 and (levels[k] < 2 or levels[k - 1] < 2):
            return False
    return True


def _dremel(levels, rep):
    rows, vi = [], 0
    for k in range(len(rep)):
        elem = None
        if levels[k] == 3:
            elem = 100 + vi
            vi += 1
        if rep[k] == 0:
            rows.append(None if levels[k] == 0 else ([] if levels[k] == 1 else [elem]))
        else:
            rows[-1].append(elem)
    return rows


def h_page_v1_nested(rep: List[int], levels: List[int], page_bytes: int) -> bool:
    """
    pre: 1 <= len(rep) <= 3 and len(levels) == len(rep) and rep[0] == 0 and all(0 <= x <= 1 for x in rep)
    pre: all(0 <= x <= 3 for x in levels) and 16 <= page_bytes <= 4096 and _valid_lists(rep, levels)
    post: __return__
    """
    # a v1 page of an optional LIST<optional INT64> column: the repetition levels are handed back whatever they are
    # (a page in which no row has a second element is still a page of lists), the definition levels whenever an entry
    # is below the maximum, and as many values are decoded as there are entries at the maximum level
    n = len(rep)
    path = ["x", "list", "element"]
    daph = parquet_thrift.DataPageHeader(num_values=n, encoding=parquet_thrift.Encoding.PLAIN)
    ph = parquet_thrift.PageHeader(type=0, data_page_header=daph, compressed_page_size=page_bytes,
                                   uncompressed_page_size=page_bytes)
    md = parquet_thrift.ColumnMetaData(type=2, path_in_schema=path, num_values=n, codec=0)
    LEVELS[0], REPS[0], CALLS[0] = list(levels), list(rep), []
    io = _IO(page_bytes)
    saved = (core.encoding, core.read_data, core.read_plain, core.np, core._read_page, _EncNS.NumpyIO)
    core.encoding, core.read_data, core.read_plain, core.np = _EncNS, _s_read_data, _s_read_plain, _NPs
    core._read_page = lambda f, header_, metadata: ("bytes", page_bytes)
    _EncNS.NumpyIO = staticmethod(lambda x: io if isinstance(x, tuple) else ("out", x))
    try:
        defi, r, values = core.read_data_page(None, NESTED_HELPER, ph, md, skip_nulls=False, selfmade=False)
    finally:
        core.encoding, core.read_data, core.read_plain, core.np, core._read_page, _EncNS.NumpyIO = saved
        REPS[0] = None
    nval = len([x for x in levels if x == 3])
    if r is None or r.items != list(rep):
        return False
    if nval == n:
        if defi is not None:
            return False
    elif defi is None or defi.items != list(levels):
        return False
    return len(values) == nval and [c for c in CALLS[0] if c[0] == "levels"] == [("levels", n, 1), ("levels", n, 2)]


def replay_h_page_v1_nested(rep, levels, page_bytes):
    """a LIST column file built from the specification whose single v1 page carries these level streams"""
    from vf.pyxlift import nested_file
    want = _dremel(list(levels), list(rep))
    return nested_file.replay_list(list(levels), list(rep), [], True, True, 3, want)


# ------------------------------------------------------------------------------------------------------
# _read_page takes exactly the page's bytes from the chunk, whatever their number - also none at all (the dictionary
# page of a chunk without values; NumpyIO.read(x) with x < 1 hands back everything that is left: the class's contract)
class _ChunkIO:
    def __init__(self, n):
        self.n, self.loc = n, 0

    def read(self, x=-1):
        if x < 1:
            x = self.n - self.loc
        a = self.loc
        self.loc += x
        return ("bytes", a, a + x)


def h_read_page_consumes(size: int, left: int, usize: int) -> bool:
    """
    pre: 0 <= size <= left < 2147483648 and 0 <= usize < 2147483648
    post: __return__
    """
    ph = parquet_thrift.PageHeader(type=2, compressed_page_size=size, uncompressed_page_size=usize)
    md = parquet_thrift.ColumnMetaData(type=2, path_in_schema=["x"], codec=0)
    f = _ChunkIO(left)
    saved = core.decompress_data
    core.decompress_data = lambda data, n, codec: data
    try:
        out = core._read_page(f, ph, md)
    finally:
        core.decompress_data = saved
    got = 0 if isinstance(out, bytes) and out == b"" else (out[2] - out[1] if isinstance(out, tuple) else -1)
    return f.loc == size and got == size


def replay_h_read_page_consumes(size, left, usize):
    """a LIST column chunk without a single value (three empty lists): its dictionary page is empty"""
    from vf.pyxlift import nested_file
    for version, encs in ((2, None), (1, "d")):
        r = nested_file.replay_list([1, 1, 1], [0, 0, 0], [], True, True, 3, [[], [], []], version=version,
                                    encs=encs)
        if r[0]:
            return True, "a page of %d bytes with %d bytes left in the chunk - %s" % (size, left, r[1])
    return r
