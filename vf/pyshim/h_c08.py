"""C08 - directory partitioning: path text <-> key value (hive and drill).
Write side: real writer.partition_on_columns (groupby shim, make_part_file stub), util.path_string, util.join_path.
Read side: real api.paths_to_cats / _path_to_cats / util._strip_path_tail / val_to_num / val_from_meta and the
partition lines of core.read_row_group.  Symbolic: the key values (ints, bools, short strings)."""
import json
import os
from typing import List

from vf.pyshim.kit import REPLAY

import fastparquet.writer as writer
import fastparquet.api as api
import fastparquet.core as core
import fastparquet.util as util
from fastparquet import parquet_thrift

SLEN = int(os.environ.get("VERIF_SLEN", "2"))
META = {"int": {"pandas_type": "int64", "numpy_type": "int64", "field_name": "k", "name": "k", "metadata": None},
        "str": {"pandas_type": "unicode", "numpy_type": "object", "field_name": "k", "name": "k", "metadata": None},
        "bool": {"pandas_type": "bool", "numpy_type": "bool", "field_name": "k", "name": "k", "metadata": None}}


def _pm(meta):
    """what the handle derives from the pandas metadata's partition_columns block: the real ParquetFile.partition_meta"""
    if meta is None:
        return None

    class _H:
        pandas_metadata = {"partition_columns": list(meta.values())}
    return api.ParquetFile.partition_meta.fget(_H())


class _DT:
    def __init__(self, name):
        self.name = name.name if isinstance(name, _DT) else name

    def __eq__(self, other):
        return self.name == (other.name if isinstance(other, _DT) else other)

    @property
    def type(self):
        if self.name.startswith("int"):
            return int                      # numpy contract: np.int64("12") parses decimal text, raises ValueError else
        if self.name == "object":
            return lambda x: x
        raise TypeError(self.name)

    __hash__ = None


class _NPu:
    dtype = _DT


class _Group:
    empty = False

    def __getitem__(self, cols):
        return self

    def __len__(self):
        return 3


class _GB:
    def __init__(self, keys):
        self.keys = keys

    def __iter__(self):
        return iter([(k, _Group()) for k in self.keys])

    @property
    def groups(self):
        # one row per key, default row labels 0..n-1
        return {k: [i] for i, k in enumerate(self.keys)}


class _Data:
    def __init__(self, columns, keys):
        self.columns_, self.keys = columns, keys

    def groupby(self, by, observed=False):
        return _GB(self.keys)

    @property
    def loc(self):
        class _L:
            def __getitem__(self, k):
                return _Group()
        return _L()

    def __iter__(self):
        return iter(self.columns_)


def _rewrite_percent(fn, namespace):
    """declared rewrite: `"%s" % x` -> `"%s" % (x,)` (identical for non-tuple x; CrossHair 0.0.110 only models the
    tuple form).  Exactly one site is expected in partition_on_columns."""
    import ast, inspect, textwrap
    tree = ast.parse(textwrap.dedent(inspect.getsource(fn)))
    count = [0]

    class T(ast.NodeTransformer):
        def visit_BinOp(self, node):
            self.generic_visit(node)
            if isinstance(node.op, ast.Mod) and isinstance(node.left, ast.Constant) and node.left.value == "%s" \
                    and isinstance(node.right, ast.Name):
                count[0] += 1
                node.right = ast.Tuple(elts=[node.right], ctx=ast.Load())
            return node
    tree = T().visit(tree)
    ast.fix_missing_locations(tree)
    if count[0] != 1:
        raise RuntimeError("expected one '%%s' %% name site in %s, found %d" % (fn.__name__, count[0]))
    exec(compile(tree, "<%s with declared rewrite>" % fn.__name__, "exec"), namespace)
    return namespace[fn.__name__]


_NSW = dict(writer.__dict__)
_NSW["sorted"] = lambda gb: list(gb)          # group order is pandas' business; identity keeps keys as given
POC = _rewrite_percent(writer.partition_on_columns, _NSW)


def _written_paths(part_cols, keys, hive):
    """run the real partition_on_columns; returns the relative paths recorded on the row groups"""
    made = []

    def make_part_file(f, data, schema, compression=None, fmd=None, stats=True):
        md = parquet_thrift.ColumnMetaData(type=2, path_in_schema=["v"], num_values=3)
        return parquet_thrift.RowGroup(num_rows=3, columns=[parquet_thrift.ColumnChunk(meta_data=md)])

    class _F:
        def __enter__(self):
            return self

        def __exit__(self, *a):
            return False
    opened, dirs = [], []
    _NSW["make_part_file"] = make_part_file
    try:
        rgs = POC(
            _Data(list(part_cols) + ["v"], keys), list(part_cols), "root", "part.0.parquet",
            parquet_thrift.FileMetaData(schema=[]), None, lambda p, m: (opened.append(p), _F())[1],
            lambda p: dirs.append(p), with_field=hive)
    finally:
        _NSW["make_part_file"] = writer.make_part_file
    return [rg.columns[0].file_path for rg in rgs], opened, dirs


# ---------------------------------------------------------------- rows of a frame reach the right part file ---
class _Rows:
    """a frame as partition_on_columns uses it: rows are (label, key, id); the pandas contracts of groupby / groups /
    .loc / column selection / .empty / len"""

    def __init__(self, rows, cats, columns=("k", "v")):
        self.rows, self.cats, self.columns_ = list(rows), list(cats), list(columns)

    def __iter__(self):
        return iter(self.columns_)

    def __len__(self):
        return len(self.rows)

    @property
    def empty(self):
        return len(self.rows) == 0

    def __getitem__(self, cols):
        return _Rows(self.rows, self.cats, cols)

    def groupby(self, by, observed=False):
        return _RowsGB(self)

    @property
    def loc(self):
        return _Loc(self)


class _Loc:
    def __init__(self, frame):
        self.frame = frame

    def __getitem__(self, k):
        labels, cols = k
        # pandas: every requested label selects ALL rows carrying it
        out = []
        for lab in labels:
            out += [r for r in self.frame.rows if r[0] == lab]
        return _Rows(out, self.frame.cats, cols)


class _RowsGB:
    def __init__(self, frame):
        self.frame = frame

    def __iter__(self):
        # observed=False: one group per category, also for categories that do not occur
        return iter([(c, _Rows([r for r in self.frame.rows if r[1] == c], self.frame.cats, self.frame.columns_))
                     for c in self.frame.cats])

    @property
    def groups(self):
        return {c: [r[0] for r in self.frame.rows if r[1] == c] for c in self.frame.cats}


def h_partition_rows(k0: int, k1: int, k2: int, l0: int, l1: int, l2: int, hive: bool) -> bool:
    """
    pre: all(0 <= x <= 1 for x in (k0, k1, k2)) and all(0 <= x <= 2 for x in (l0, l1, l2))
    post: __return__
    """
    # three rows with partition keys k_i out of the categories {0, 1, 2} (2 never occurs) and row labels l_i (need not
    # be unique: write_index=False keeps the caller's index): every row is handed to exactly one part file, the one of
    # its own key; nothing is created for a key without rows; one row group per key that occurs
    rows = [(l0, k0, 0), (l1, k1, 1), (l2, k2, 2)]
    written, opened, dirs = {}, [], []

    def make_part_file(f, data, schema, compression=None, fmd=None, stats=True):
        written[f.path] = written.get(f.path, []) + [r[2] for r in data.rows]
        if len(data) == 0:
            return None
        md = parquet_thrift.ColumnMetaData(type=2, path_in_schema=["v"], num_values=len(data))
        return parquet_thrift.RowGroup(num_rows=len(data), columns=[parquet_thrift.ColumnChunk(meta_data=md)])

    class _F:
        def __init__(self, path):
            self.path = path

        def __enter__(self):
            return self

        def __exit__(self, *a):
            return False
    _NSW["make_part_file"] = make_part_file
    try:
        rgs = POC(_Rows(rows, [0, 1, 2]), ["k"], "root", "part.0.parquet", parquet_thrift.FileMetaData(schema=[]),
                  None, lambda p, m: (opened.append(p), _F(p))[1], lambda p: dirs.append(p), with_field=hive)
    finally:
        _NSW["make_part_file"] = writer.make_part_file
    keys = sorted({k0, k1, k2})
    want = {}
    for lab, key, rid in rows:
        want.setdefault("root/%s/part.0.parquet" % (("k=%d" % key) if hive else "%d" % key), []).append(rid)
    if sorted(opened) != sorted(want) or len(dirs) != len(want) or len(rgs) != len(keys):
        return False
    if {p: sorted(v) for p, v in written.items()} != want:
        return False
    return sorted(rg.num_rows for rg in rgs) == sorted(len(v) for v in want.values())


def replay_h_partition_rows(k0, k1, k2, l0, l1, l2, hive):
    """a real frame with the witness's keys (categorical with an unused category) and row labels, written with
    write_index=False: rows per partition and the files present"""
    import shutil, tempfile
    import pandas as pd
    import fastparquet
    d = tempfile.mkdtemp(prefix="c08-")
    try:
        dn = os.path.join(d, "ds")
        df = pd.DataFrame({"k": pd.Categorical([k0, k1, k2], categories=[0, 1, 2]), "v": [0, 1, 2]},
                          index=[l0, l1, l2])
        fastparquet.write(dn, df, file_scheme="hive" if hive else "drill", partition_on=["k"], write_index=False)
        files = sorted(os.path.relpath(os.path.join(dp, f), dn) for dp, _, fs in os.walk(dn) for f in fs
                       if f.startswith("part."))
        pf = fastparquet.ParquetFile(dn)
        ref = sorted({rg.columns[0].file_path for rg in pf.row_groups})
        if files != ref:
            return True, "part files on disk %r, referenced by _metadata %r (keys %r, category 2 unused)" % (
                files, ref, [k0, k1, k2])
        out = pf.to_pandas()
        cname = "k" if hive else "dir0"
        got = sorted((int(k), int(v)) for k, v in zip(out[cname], out["v"]))
        want = sorted(zip([k0, k1, k2], [0, 1, 2]))
        if got != want:
            return True, "rows (key, v) written %r with row labels %r read back as %r" % (want, [l0, l1, l2], got)
        return False, "agrees"
    finally:
        shutil.rmtree(d, ignore_errors=True)


class _Arr:
    def __init__(self):
        self.val = None

    def __setitem__(self, k, v):
        self.val = v


def _read_back(path, cats, cat, scheme, meta):
    """the partition lines of the real core.read_row_group for one row group"""
    md = parquet_thrift.ColumnMetaData(type=2, path_in_schema=["v"], num_values=3)
    rg = parquet_thrift.RowGroup(num_rows=3, columns=[parquet_thrift.ColumnChunk(meta_data=md, file_path=path)])
    saved = core.read_row_group_arrays
    core.read_row_group_arrays = lambda *a, **k: None
    arr = _Arr()
    try:
        core.read_row_group(None, rg, ["v", cat], None, None, cats, assign={cat: arr}, scheme=scheme,
                            partition_meta=meta)
    finally:
        core.read_row_group_arrays = saved
    return cats[cat][arr.val]


def _legal(s):
    # '/' and '=' are excluded by the property's statement; NUL cannot occur in a path on this platform
    return all(c not in "/=\x00" for c in s)


def _h_hive_str(a: str, b: str) -> bool:
    # (body of the harness below; kept free of a contract so that other harnesses can call it: CrossHair
    # enforces the contract of a contracted callee and drops the path when it fails)
    # two rows groups with string keys a, b: distinct directories, and the value read back from each path is the key
    saved = util.np
    util.np = _NPu
    try:
        paths, opened, dirs = _written_paths(["k"], [a, b], True)
        meta = _pm({"k": META["str"]})
        scheme, cats = api.paths_to_cats(paths, meta)
        if scheme != "hive" or sorted(cats) != ["k"] or sorted(cats["k"]) != sorted([a, b]):
            return False
        if len(set(paths)) != 2:
            return False
        return _read_back(paths[0], cats, "k", scheme, meta) == a and _read_back(paths[1], cats, "k", scheme,
                                                                                 meta) == b
    finally:
        util.np = saved


def h_hive_str(a: str, b: str) -> bool:
    """
    pre: len(a) <= SLEN and len(b) <= SLEN and a != b and _legal(a) and _legal(b) and len(a) >= 1 and len(b) >= 1
    post: __return__
    """
    return _h_hive_str(a, b)


def replay_h_hive_str(a, b):
    return _replay_keys([a, b], "hive")


def h_hive_str_rest(a: str, b: str) -> bool:
    """
    pre: len(a) <= SLEN and len(b) <= SLEN and a != b and _legal(a) and _legal(b) and len(a) >= 1 and len(b) >= 1
    pre: chr(92) not in a and chr(92) not in b
    post: __return__
    """
    # outside the backslash finding (join_path rewrites backslashes to '/')
    return _h_hive_str(a, b)


def replay_h_hive_str_rest(a, b):
    return _replay_keys([a, b], "hive")


INTS = [-120, -11, -1, 0, 7, 10, 99, 100, 2147483648,
        9007199254740993, 9223372036854775807, -9223372036854775808]      # beyond 2^53; the int64 extremes


def h_hive_int(ia: int, ib: int) -> bool:
    """
    pre: ia != ib and 0 <= ia < 12 and 0 <= ib < 12
    post: __return__
    """
    # integer keys of every digit count / sign and the ends of the int64 range (chosen by symbolic index from a table:
    # decimal rendering of a symbolic integer is outside what CrossHair decides).  Every value is concrete on each
    # path (the table index is realised: the solver enumerates the 132 index pairs), so the real numpy does the
    # text -> int64 conversion here (no stub).
    from crosshair import realize
    a, b = INTS[realize(ia)], INTS[realize(ib)]
    paths, opened, dirs = _written_paths(["k"], [a, b], True)
    meta = _pm({"k": META["int"]})
    scheme, cats = api.paths_to_cats(paths, meta)
    if scheme != "hive" or sorted(int(x) for x in cats["k"]) != sorted([a, b]) or len(set(paths)) != 2:
        return False
    va, vb = _read_back(paths[0], cats, "k", scheme, meta), _read_back(paths[1], cats, "k", scheme, meta)
    return int(va) == a and int(vb) == b and not isinstance(va, (float, str))


def replay_h_hive_int(ia, ib):
    return _replay_keys([INTS[ia], INTS[ib]], "hive")


def h_hive_bool_and_two_columns(x: bool, i_n: int, s: str) -> bool:
    """
    pre: 0 <= i_n < 9 and 1 <= len(s) <= 1 and _legal(s) and chr(92) not in s
    post: __return__
    """
    n = INTS[i_n]
    # three partition columns (bool, int, str) in one path: each comes back under its own name with its own kind
    saved = util.np
    util.np = _NPu
    try:
        paths, opened, dirs = _written_paths(["p", "q", "r"], [(x, n, s)], True)
        meta = {"p": dict(META["bool"], field_name="p"), "q": dict(META["int"], field_name="q"),
                "r": dict(META["str"], field_name="r")}
        meta = _pm(meta)
        scheme, cats = api.paths_to_cats(paths, meta)
        if scheme != "hive" or list(cats) != ["p", "q", "r"]:
            return False
        return (_read_back(paths[0], cats, "p", scheme, meta) is x and
                _read_back(paths[0], cats, "q", scheme, meta) == n and
                _read_back(paths[0], cats, "r", scheme, meta) == s)
    finally:
        util.np = saved


def replay_h_hive_bool_and_two_columns(x, i_n, s):
    import shutil, tempfile
    import pandas as pd
    import fastparquet
    n = INTS[i_n]
    df = pd.DataFrame({"p": [x, x], "q": [n, n], "r": [s, s], "v": [1, 2]})
    d = tempfile.mkdtemp(prefix="c08-")
    try:
        dn = os.path.join(d, "ds")
        try:
            fastparquet.write(dn, df, file_scheme="hive", partition_on=["p", "q", "r"])
        except Exception as ex:
            return None, "keys cannot be written on this platform: %s" % type(ex).__name__
        try:
            out = fastparquet.ParquetFile(dn).to_pandas()
        except Exception as ex:
            return True, "keys (p=%r, q=%r, r=%r) written, dataset cannot be read back: %s: %s" % (
                x, n, s, type(ex).__name__, str(ex)[:80])
        missing = [c for c in ("p", "q", "r") if c not in out.columns]
        if missing:
            return True, "keys (p=%r, q=%r, r=%r): partition column(s) %r missing from the read (columns %r)" % (
                x, n, s, missing, list(out.columns))
        ok = (len(out) == 2 and all(bool(a) == x for a in out["p"]) and all(int(a) == n for a in out["q"]) and
              all(str(a) == s for a in out["r"]))
        if not ok:
            return True, "keys (p=%r, q=%r, r=%r) come back as %r" % (x, n, s, out[["p", "q", "r"]].values.tolist())
        return False, "keys preserved"
    finally:
        shutil.rmtree(d, ignore_errors=True)


SMALL = ["1", "a", "0"]


PNAMES = os.environ.get("VERIF_PNAMES", "p,q").split(",")      # names of the two partition columns (lattice)


def h_hive_two_levels(i1: int, i2: int, j1: int, j2: int, with_meta: bool, rev: bool) -> bool:
    """
    pre: 0 <= i1 < 2 and 0 <= i2 < 2 and 0 <= j1 < 3 and 0 <= j2 < 3
    pre: (i1, j1) != (i2, j2)
    post: __return__
    """
    # two partition levels whose value texts may coincide across levels (month=1/day=1): every level keeps its own
    # label set, and each path reads back its own pair.  Texts come from a small table by symbolic index; with the
    # pandas partition metadata (string columns) and without it (kind inferred from the text).  The directory set
    # built by _strip_path_tail is a Python set: its iteration order is arbitrary (hash seed), so it is symbolic here.
    a1, a2, b1, b2 = SMALL[i1], SMALL[i2], SMALL[j1], SMALL[j2]
    saved = util.np
    saved_strip = api._strip_path_tail
    util.np = _NPu
    api._strip_path_tail = lambda paths: sorted(saved_strip(paths), reverse=bool(rev))
    try:
        paths, opened, dirs = _written_paths(list(PNAMES), [(a1, b1), (a2, b2)], True)
        meta = {PNAMES[0]: dict(META["str"], field_name=PNAMES[0]), PNAMES[1]: dict(META["str"], field_name=PNAMES[1])} if with_meta else None
        meta = _pm(meta)
        scheme, cats = api.paths_to_cats(paths, meta)
        if scheme != "hive" or list(cats) != list(PNAMES) or len(set(paths)) != 2:
            return False
        if sorted(str(x) for x in cats[PNAMES[0]]) != sorted(set([a1, a2])):
            return False
        if sorted(str(x) for x in cats[PNAMES[1]]) != sorted(set([b1, b2])):
            return False
        return (str(_read_back(paths[0], cats, PNAMES[0], scheme, meta)) == a1 and
                str(_read_back(paths[0], cats, PNAMES[1], scheme, meta)) == b1 and
                str(_read_back(paths[1], cats, PNAMES[0], scheme, meta)) == a2 and
                str(_read_back(paths[1], cats, PNAMES[1], scheme, meta)) == b2)
    finally:
        util.np = saved
        api._strip_path_tail = saved_strip


def replay_h_hive_two_levels(i1, i2, j1, j2, with_meta, rev):
    # set iteration order depends on the interpreter's hash seed: the read is repeated in child interpreters with
    # several seeds; the witness reproduces if any of them fails
    import subprocess, sys
    last = (False, "keys preserved")
    for seed in range(6):
        env = dict(os.environ, PYTHONHASHSEED=str(seed))
        r = subprocess.run([sys.executable, "-c",
                            "import sys, json; sys.path[:0] = json.loads(sys.argv[1]); "
                            "from vf.pyshim import h_c08; "
                            "print(json.dumps(h_c08._replay_two_levels(*json.loads(sys.argv[2]))))",
                            json.dumps(sys.path), json.dumps([i1, i2, j1, j2, bool(with_meta)])],
                           capture_output=True, text=True, env=env, timeout=300)
        if r.returncode != 0:
            return None, "replay child failed: " + r.stderr[-300:]
        ok, msg = json.loads(r.stdout.strip().splitlines()[-1])
        if ok:
            return True, msg + " (PYTHONHASHSEED=%d)" % seed
        last = (ok, msg)
    return last


def _replay_two_levels(i1, i2, j1, j2, with_meta):
    import shutil, tempfile
    import pandas as pd
    import fastparquet
    rows = [(SMALL[i1], SMALL[j1]), (SMALL[i2], SMALL[j2])]
    d = tempfile.mkdtemp(prefix="c08-")
    try:
        # one plain file per directory, opened as a list (no pandas partition metadata) or written as a hive dataset
        if with_meta:
            df = pd.DataFrame({PNAMES[0]: [r[0] for r in rows], PNAMES[1]: [r[1] for r in rows], "v": [0, 1]})
            dn = os.path.join(d, "ds")
            fastparquet.write(dn, df, file_scheme="hive", partition_on=list(PNAMES))
            src = dn
        else:
            src = []
            for k, (a, b) in enumerate(rows):
                dd = os.path.join(d, "%s=%s" % (PNAMES[0], a), "%s=%s" % (PNAMES[1], b))
                os.makedirs(dd, exist_ok=True)
                fn = os.path.join(dd, "part.%d.parquet" % k)
                fastparquet.write(fn, pd.DataFrame({"v": [k]}))
                src.append(fn)
        try:
            out = fastparquet.ParquetFile(src).to_pandas()
        except Exception as ex:
            return True, "partition directories %r cannot be read back: %s: %s" % (rows, type(ex).__name__, str(ex)[:80])
        missing = [c for c in PNAMES if c not in out.columns]
        if missing:
            return True, "partition levels %r: column(s) %r missing from the read (columns %r)" % (
                rows, missing, list(out.columns))
        got = sorted((int(v), str(a), str(b)) for v, a, b in zip(out["v"], out[PNAMES[0]], out[PNAMES[1]]))
        want = sorted((k, a, b) for k, (a, b) in enumerate(rows))
        if got != want:
            return True, "partition levels %r come back as %r" % (want, got)
        return False, "keys preserved"
    finally:
        shutil.rmtree(d, ignore_errors=True)


def h_drill_str(a: str, b: str) -> bool:
    """
    pre: len(a) <= SLEN and len(b) <= SLEN and a != b and _legal(a) and _legal(b) and len(a) >= 1 and len(b) >= 1
    pre: chr(92) not in a and chr(92) not in b
    post: __return__
    """
    # drill layout: directory levels carry the key text and come back as positional column dir0 (text form)
    paths, opened, dirs = _written_paths(["k"], [a, b], False)
    if len(set(paths)) != 2:
        return False
    return paths == [a + "/part.0.parquet", b + "/part.0.parquet"] and dirs == ["root/" + a, "root/" + b] and \
        opened == ["root/" + a + "/part.0.parquet", "root/" + b + "/part.0.parquet"]


def replay_h_drill_str(a, b):
    return _replay_keys([a, b], "drill")


def _replay_keys(keys, scheme, as_object=None):
    import shutil, tempfile
    import pandas as pd
    import fastparquet
    if as_object is None and all(isinstance(k, str) for k in keys):
        # text keys: as the default string dtype, and as an object column (recorded as numpy_type 'object')
        first = _replay_keys(keys, scheme, as_object=False)
        return first if first[0] else _replay_keys(keys, scheme, as_object=True)
    kcol = pd.Series(list(keys), dtype=object) if as_object else list(keys)
    df = pd.DataFrame({"k": kcol, "v": list(range(len(keys)))})
    d = tempfile.mkdtemp(prefix="c08-")
    try:
        dn = os.path.join(d, "ds")
        try:
            fastparquet.write(dn, df, file_scheme=scheme, partition_on=["k"])
        except Exception as ex:
            return False, "write raised %s" % type(ex).__name__
        try:
            out = fastparquet.ParquetFile(dn).to_pandas()
        except Exception as ex:
            return True, "partition keys %r written, dataset cannot be read back: %s: %s" % (keys, type(ex).__name__,
                                                                                           str(ex)[:80])
        col = "k" if scheme == "hive" else "dir0"
        if col not in out.columns:
            return True, "partition keys %r: column %r is missing from the read (columns %r)" % (keys, col,
                                                                                                list(out.columns))
        got = sorted(zip([str(x) for x in out[col]], [int(x) for x in out["v"]]))
        want = sorted(zip([str(x) for x in df["k"]], [int(x) for x in df["v"]]))
        if got != want:
            return True, "partition keys %r come back as %r" % (keys, got)
        if scheme == "hive" and all(isinstance(k, str) for k in keys):
            # the kind is recorded in the pandas metadata: text stays text
            kinds = sorted({"str" if isinstance(x, str) else type(x).__name__ for x in out[col]})
            if kinds != ["str"]:
                return True, "text partition keys %r (%s column) come back as values of kind %r: %r" % (
                    keys, "object" if as_object else "string", kinds, list(out[col]))
        return False, "keys preserved"
    finally:
        shutil.rmtree(d, ignore_errors=True)



# ------------------------------------------------------------------ timestamp keys: text form keeps every digit ---
class _TS:
    """pandas.Timestamp contract as far as path_string uses it: a count of nanoseconds; isoformat(timespec='auto')
    prints every non-zero digit group (seconds / micro / nano), a coarser timespec truncates"""

    def __init__(self, ns):
        self.ns = ns

    def isoformat(self, sep="T", timespec="auto"):
        sec, frac = self.ns // 1000000000, self.ns % 1000000000
        if timespec == "auto":
            timespec = "nanoseconds" if frac % 1000 else ("microseconds" if frac else "seconds")
        digits = {"seconds": 0, "milliseconds": 3, "microseconds": 6, "nanoseconds": 9}[timespec]
        kept = frac // (10 ** (9 - digits)) if digits else 0
        return ("S", sec, digits, kept)          # stands for the text 'S<sec>.<kept written with `digits` digits>'


def _parse_ts(text):
    tag, sec, digits, kept = text
    return sec * 1000000000 + (kept * 10 ** (9 - digits) if digits else 0)


class _PDts:
    Timestamp = _TS


def h_timestamp_text(ns: int) -> bool:
    """
    pre: 0 <= ns < 4102444800000000000
    post: __return__
    """
    # the directory text of a timestamp key determines the key: parsing it gives back the same nanosecond count
    saved = util.pd
    util.pd = _PDts
    try:
        text = util.path_string(_TS(ns))
    finally:
        util.pd = saved
    return isinstance(text, tuple) and _parse_ts(text) == ns


def replay_h_timestamp_text(ns):
    import shutil, tempfile
    import pandas as pd
    import fastparquet
    ts = [pd.Timestamp(ns), pd.Timestamp(ns + 86400 * 10 ** 9)]
    df = pd.DataFrame({"k": ts, "v": [0, 1]})
    d = tempfile.mkdtemp(prefix="c08-")
    try:
        dn = os.path.join(d, "ds")
        fastparquet.write(dn, df, file_scheme="hive", partition_on=["k"])
        out = fastparquet.ParquetFile(dn).to_pandas()
        got = sorted((pd.Timestamp(k).value, int(v)) for k, v in zip(out["k"], out["v"]))
        want = sorted((t.value, i) for i, t in enumerate(ts))
        if got != want:
            return True, "timestamp partition key %s (ns=%d) comes back as %s" % (ts[0], ns, pd.Timestamp(got[0][0]))
        return False, "timestamp keys preserved"
    finally:
        shutil.rmtree(d, ignore_errors=True)


# ----------------------------------------------------- text labels that look like something else ---
SPECIAL = ["50%25", "a%20b", "%7E", "1e3", "0x1F", "1_0", " 1", "01", "+1", "nan", "None", "True", "now", "1.0", "-0",
           "2020-01-01", "1 days", "a b", "x.y", "é"]


def h_hive_special_text(i: int) -> bool:
    """
    pre: 0 <= i < 20
    post: __return__
    """
    # a text partition column (pandas metadata says so) whose label looks like an escape sequence, a number in some
    # notation, a date, a keyword: it comes back as exactly that text (label chosen from a table by symbolic index)
    from crosshair import realize
    a, b = SPECIAL[realize(i)], "zz"
    saved = util.np
    util.np = _NPu
    try:
        paths, opened, dirs = _written_paths(["k"], [a, b], True)
        meta = _pm({"k": META["str"]})
        scheme, cats = api.paths_to_cats(paths, meta)
        if scheme != "hive" or sorted(cats) != ["k"] or sorted(cats["k"]) != sorted([a, b]) or len(set(paths)) != 2:
            return False
        return _read_back(paths[0], cats, "k", scheme, meta) == a and _read_back(paths[1], cats, "k", scheme, meta) == b
    finally:
        util.np = saved


def replay_h_hive_special_text(i):
    return _replay_keys([SPECIAL[i], "zz"], "hive")


# ------------------------------------- the directory text of a key is the text append='overwrite' matches on ---
def _key_table():
    import numpy as np
    import pandas as pd
    return [("float64", 2.0), ("float64", 1.5), ("float64", -0.0), ("float64", 1e20), ("float64", 1e-7),
            ("int64", 3), ("int64", -12), ("bool", True), ("object", "x"), ("object", "2.0"),
            ("datetime64[ns]", pd.Timestamp("2020-01-01")), ("datetime64[ns]", pd.Timestamp("2020-01-02 03:04:05")),
            ("datetime64[ns]", pd.Timestamp("2020-01-02 03:04:05.000006"))]


def _overwrite_expr():
    """the expression writer.overwrite uses for the partition text of the new frame's rows, taken from its source:
    partition_values_in_new = pd.unique(<expr>)"""
    import ast, inspect, textwrap
    tree = ast.parse(textwrap.dedent(inspect.getsource(writer.overwrite)))
    for node in ast.walk(tree):
        if isinstance(node, ast.Assign) and ast.unparse(node.targets[0]) == "partition_values_in_new":
            call = node.value
            if isinstance(call, ast.Call) and ast.unparse(call.func) == "pd.unique" and len(call.args) == 1:
                return compile(ast.Expression(call.args[0]), "<writer.overwrite: partition text of the new rows>", "eval")
    raise RuntimeError("writer.overwrite: `partition_values_in_new = pd.unique(...)` not found")


def _overwrite_text(dtype, v):
    import pandas as pd
    data = pd.DataFrame({"k": pd.Series([v], dtype=dtype), "v": [0]})
    ns = dict(writer.__dict__)
    ns.update(data=data, defined_partitions=["k"])
    return list(eval(_OVERWRITE_EXPR, ns))[0]


_OVERWRITE_EXPR = _overwrite_expr()
# evaluated once at import (pandas, concrete values): (dtype, key, text the overwrite step compares)
KEY_TEXT = [(dt, v, _overwrite_text(dt, v)) for dt, v in _key_table()]


def h_overwrite_key_text(i: int) -> bool:
    """
    pre: 0 <= i < 13
    post: __return__
    """
    # append='overwrite' finds the partitions to replace by comparing directory text; the directory of a key is named
    # by util.path_string - both must give the same text for every kind of key (float, int, bool, text, timestamp)
    from crosshair import realize
    dtype, v, text = KEY_TEXT[realize(i)]
    return util.path_string(v) == text


def replay_h_overwrite_key_text(i):
    import shutil, tempfile
    import pandas as pd
    import fastparquet
    dtype, v = _key_table()[i]
    other = {"float64": 7.25, "int64": 99, "bool": False, "object": "other",
             "datetime64[ns]": pd.Timestamp("1999-12-31")}[dtype]
    d = tempfile.mkdtemp(prefix="c09-")
    try:
        dn = os.path.join(d, "ds")
        old = pd.DataFrame({"k": pd.Series([v, other], dtype=dtype), "v": [1, 2]})
        fastparquet.write(dn, old, file_scheme="hive", partition_on=["k"])
        new = pd.DataFrame({"k": pd.Series([v], dtype=dtype), "v": [100]})
        fastparquet.write(dn, new, file_scheme="hive", partition_on=["k"], append="overwrite")
        out = fastparquet.ParquetFile(dn).to_pandas()
        got = sorted(int(x) for x in out["v"])
        if got != [2, 100]:
            return True, "append='overwrite' of the partition k=%r (%s) leaves rows v=%r, expected [2, 100]" % (
                v, dtype, got)
        return False, "partition replaced"
    finally:
        shutil.rmtree(d, ignore_errors=True)
