"""File-level write paths under CrossHair: real writer.write_simple (new file / append), writer.write_multi,
make_part_file, write_common_metadata, find_max_part, api.ParquetFile.write_row_groups / _write_common_metadata on
symbolic files (C02 file framing, C07 append, C18 failed operation, C19 interrupted append).

Symbolic: data length, old/new footer lengths, row-group byte sizes and row counts, the position at which a late
failure occurs, the index of the failing filesystem call."""
import os
from typing import List

from vf.pyshim.kit import Seg, SymFile, REPLAY

import fastparquet.writer as writer
import fastparquet.api as api
from fastparquet import parquet_thrift
from fastparquet.api import ParquetFile

LIM = 1 << 40


class Rejected(Exception):
    """stands for any late rejection inside a column write (unencodable value, null in a required column, ...)"""


class Frame:
    """a row-group worth of data: `rows` rows that serialise to `nbytes` bytes; may be rejected after `partial` bytes"""

    def __init__(self, rows, nbytes, fail=False, partial=0, tag=0):
        self.rows, self.nbytes, self.fail, self.partial, self.tag = rows, nbytes, fail, partial, tag

    def __len__(self):
        return self.rows


def _rg(rows, tag, path=None):
    md = parquet_thrift.ColumnMetaData(type=2, path_in_schema=["a"], num_values=rows, total_uncompressed_size=tag)
    return parquet_thrift.RowGroup(num_rows=rows, total_byte_size=tag,
                                   columns=[parquet_thrift.ColumnChunk(meta_data=md, file_path=path)])


def _s_make_row_group(f, data, schema, compression=None, stats=True):
    if len(data) == 0:
        return None
    if data.fail:
        if data.partial:
            f.write(Seg("partial-rg", data.partial))
        raise Rejected("column rejected")
    f.write(Seg("rg", data.nbytes, value=data.tag))
    return _rg(data.rows, data.tag)


class _Struct:
    old_footer = [None]

    @staticmethod
    def pack(fmt, v):
        return Seg("len32", 4, value=v)

    @staticmethod
    def unpack(fmt, b):
        assert b.n == 4
        return (_Struct.old_footer[0],)


FOOT = [[]]       # footer lengths handed out by the write_thrift stub, in call order
SNAP = [[]]       # snapshots (tag lists) of the metadata each footer was serialised from


def _s_write_thrift(f, obj):
    k = len(SNAP[0])
    n = FOOT[0][k]
    rgs = obj.row_groups or []
    SNAP[0].append(([rg.total_byte_size for rg in rgs], obj.num_rows, getattr(f, "name", None)))
    return f.write(Seg("footer", n, value=k))


def _install():
    saved = {}
    for k, v in (("make_row_group", _s_make_row_group), ("struct", _Struct), ("write_thrift", _s_write_thrift)):
        saved[k] = getattr(writer, k)
        setattr(writer, k, v)
    return saved


def _restore(saved):
    for k, v in saved.items():
        setattr(writer, k, v)


def _fmd(old_rgs):
    return parquet_thrift.FileMetaData(version=1, schema=[], num_rows=sum(r.num_rows for r in old_rgs),
                                       row_groups=list(old_rgs), key_value_metadata=[], created_by="x")


def _layout(f, start):
    """(ok, end): writes are laid end to end from `start`"""
    pos = start
    bad = 0
    for a, b, tag, val in f.writes:
        bad += (a != pos)
        pos = b
    return bad == 0, pos


# ------------------------------------------------------------------ C02: new single file ---
def h_simple_new(r0: int, b0: int, r1: int, b1: int, nfr: int, foot: int) -> bool:
    """
    pre: 0 <= r0 < LIM and 0 <= r1 < LIM and 0 <= b0 < LIM and 0 <= b1 < LIM and 0 <= nfr <= 2 and 1 <= foot < LIM
    post: __return__
    """
    f = SymFile(0)
    frames = [Frame(r0, b0, tag=1), Frame(r1, b1, tag=2)][:nfr]
    fmd = _fmd([])
    FOOT[0], SNAP[0] = [foot], []
    saved = _install()
    try:
        writer.write_simple(f, frames, fmd, append=False)
    finally:
        _restore(saved)
    ok, end = _layout(f, 0)
    tags = [(t, b - a, v) for a, b, t, v in f.writes]
    want = [("bytes", 4, None)] + [("rg", fr.nbytes, fr.tag) for fr in frames if fr.rows > 0] + \
           [("footer", foot, 0), ("len32", 4, foot), ("bytes", 4, None)]
    rows = sum(fr.rows for fr in frames)
    kept = [fr.tag for fr in frames if fr.rows > 0]
    return ok and tags == want and SNAP[0] == [(kept, rows, "f")] and fmd.num_rows == rows and f.size == end


def replay_h_simple_new(r0, b0, r1, b1, nfr, foot):
    import shutil, tempfile
    import pandas as pd
    import fastparquet
    from vf.pyshim import filecheck
    rows = [min(max(int(r), 0), 30) for r in (r0, r1)][:nfr]
    d = tempfile.mkdtemp(prefix="c02-")
    try:
        fn = os.path.join(d, "t.parq")
        frames = [pd.DataFrame({"a": list(range(100 * i, 100 * i + r))}) for i, r in enumerate(rows)]
        if not frames:
            return None, "nothing to write"
        from fastparquet import writer as w
        fmd = w.make_metadata(frames[0])
        w.write_simple(fn, iter(frames), fmd)
        probs = filecheck.validate(fn)
        if probs:
            return True, "file written from %d frames is inconsistent: %s" % (len(frames), probs[0])
        out = fastparquet.ParquetFile(fn).to_pandas()
        if list(out["a"]) != [v for f in frames for v in f["a"]]:
            return True, "rows differ"
        return False, "valid"
    finally:
        shutil.rmtree(d, ignore_errors=True)


# --------------------------------------------------------------- C07-A1: single-file append ---
def h_simple_append(data_len: int, old_foot: int, o0: int, r0: int, b0: int, r1: int, b1: int, nfr: int,
                    foot: int) -> bool:
    """
    pre: 4 <= data_len < LIM and 1 <= old_foot < LIM and 1 <= o0 < LIM
    pre: 0 <= r0 < LIM and 0 <= r1 < LIM and 0 <= b0 < LIM and 0 <= b1 < LIM and 0 <= nfr <= 2
    pre: old_foot <= foot < LIM
    post: __return__
    """
    # existing file: data (one row group of o0 rows) ++ footer ++ len32 ++ PAR1.  The re-serialised footer of the
    # same library never shrinks when row groups are added (assumption; foreign footers that lose fields are outside)
    size = data_len + old_foot + 8
    f = SymFile(size)
    frames = [Frame(r0, b0, tag=1), Frame(r1, b1, tag=2)][:nfr]
    old = _rg(o0, 99)
    fmd = _fmd([old])
    FOOT[0], SNAP[0] = [foot], []
    _Struct.old_footer[0] = old_foot
    saved = _install()
    try:
        writer.write_simple(f, frames, fmd, append=True)
    finally:
        _restore(saved)
    # the length field is read from its place; every write starts at or after the old footer start
    if f.reads != [(size - 8, size - 4)]:
        return False
    ok, end = _layout(f, data_len)
    tags = [(t, b - a, v) for a, b, t, v in f.writes]
    want = [("rg", fr.nbytes, fr.tag) for fr in frames if fr.rows > 0] + \
           [("footer", foot, 0), ("len32", 4, foot), ("bytes", 4, None)]
    kept = [99] + [fr.tag for fr in frames if fr.rows > 0]
    rows = o0 + sum(fr.rows for fr in frames)
    return ok and tags == want and SNAP[0] == [(kept, rows, "f")] and f.size == end


def replay_h_simple_append(**kw):
    """real single-file appends over files whose last chunk is compressed / expanded by the codec / plain"""
    import shutil, tempfile
    import numpy as np
    import pandas as pd
    import fastparquet
    d = tempfile.mkdtemp(prefix="c07-")
    try:
        rng = np.random.RandomState(0)
        for comp, vals in (("GZIP", rng.rand(6)), (None, np.arange(50.0)), ("GZIP", np.zeros(3000)),
                           ("SNAPPY", rng.rand(5))):
            fn = os.path.join(d, "t-%s-%d.parq" % (comp, len(vals)))
            df = pd.DataFrame({"x": vals})
            fastparquet.write(fn, df, compression=comp)
            raw = open(fn, "rb").read()
            flen = int.from_bytes(raw[-8:-4], "little")
            data_end = len(raw) - 8 - flen
            new = pd.DataFrame({"x": np.arange(7.0)})
            fastparquet.write(fn, new, append=True, compression=comp)
            raw2 = open(fn, "rb").read()
            if raw2[:data_end] != raw[:data_end]:
                return True, "append changed bytes of the existing row group (codec %s, %d rows)" % (comp, len(vals))
            try:
                out = fastparquet.ParquetFile(fn).to_pandas()
            except Exception as ex:
                return True, "file unreadable after append (codec %s): %s" % (comp, type(ex).__name__)
            if list(out["x"]) != list(vals) + list(new["x"]):
                return True, "rows after append differ (codec %s)" % comp
            from vf.pyshim import filecheck
            probs = filecheck.validate(fn)
            if probs:
                return True, "file inconsistent after append (codec %s): %s" % (comp, probs[0])
        return False, "appends land at the old footer position"
    finally:
        shutil.rmtree(d, ignore_errors=True)


# ------------------------------------------------- C18: rejected write leaves the old file intact ---
def h_simple_append_rejected(data_len: int, old_foot: int, b0: int, fail_at: int, partial: int, foot: int) -> bool:
    """
    pre: 4 <= data_len < LIM and 1 <= old_foot < LIM and 0 <= b0 < LIM and 0 <= fail_at <= 1
    pre: 0 <= partial < LIM and old_foot <= foot < LIM
    post: __return__
    """
    # append two frames; the frame at index fail_at is rejected after `partial` of its bytes were written.
    # The call must raise, and the pre-existing bytes [0, size) must be exactly what they were: no write inside them
    # unless it is undone (a restoring write of the saved footer is tagged 'restore' by the file shim).
    size = data_len + old_foot + 8
    f = SymFile(size)
    frames = [Frame(3, b0, tag=1), Frame(4, b0, tag=2)]
    frames[fail_at].fail = True
    frames[fail_at].partial = partial
    fmd = _fmd([_rg(5, 99)])
    FOOT[0], SNAP[0] = [foot, foot], []
    _Struct.old_footer[0] = old_foot
    saved = _install()
    raised = False
    try:
        writer.write_simple(f, frames, fmd, append=True)
    except Rejected:
        raised = True
    finally:
        _restore(saved)
    if not raised:
        return False
    return _old_content_intact(f, size, data_len)


def _old_content_intact(f, size, footer_start):
    """after the failed call the first `size` bytes are the old bytes and the file ends there.
    Writes inside the old extent are tolerated only if the last write covering the old footer frame restores it:
    the harness recognises a restore as a write of a segment read from the same extent (tag 'read')."""
    dirty = []      # list of (a, b) overwritten and not restored
    for a, b, tag, val in f.writes:
        if tag == "read" and val is not None and val[0] == a and val[1] == b:
            # writing back bytes read from the same place: removes dirt in [a, b)
            dirty = [(x, y) for (x, y) in dirty if not (a <= x and y <= b)]
            continue
        if b > a:
            dirty.append((a, b))
    bad = 0
    for a, b in dirty:
        bad += (a < size)
    return bad == 0 and f.size == size


def replay_h_simple_append_rejected(data_len, old_foot, b0, fail_at, partial, foot):
    import shutil, tempfile
    import pandas as pd
    import fastparquet
    d = tempfile.mkdtemp(prefix="c18-")
    try:
        fn = os.path.join(d, "t.parq")
        df = pd.DataFrame({"a": [1, 2, 3], "b": ["x", "y", "z"]})
        fastparquet.write(fn, df)
        before = open(fn, "rb").read()
        # second row group carries a value that cannot be encoded as declared (object column with mixed types)
        bad = pd.DataFrame({"a": [4, 5, 6, 7], "b": ["u", "v", 5, "w"]})
        if fail_at == 0:
            bad = bad.iloc[::-1].reset_index(drop=True)
        try:
            fastparquet.write(fn, bad, append=True, row_group_offsets=[0, 2], object_encoding={"b": "utf8"})
            return False, "append was not rejected"
        except Exception as ex:
            err = "%s: %s" % (type(ex).__name__, str(ex)[:80])
        after = open(fn, "rb").read()
        if after == before:
            return False, "file unchanged after the rejected append (%s)" % err
        try:
            out = fastparquet.ParquetFile(fn).to_pandas()
            if out.equals(df):
                return False, "bytes differ but content readable and equal"
            return True, "after a rejected append (%s) the file reads back different data" % err
        except Exception as ex2:
            return True, "after a rejected append (%s) the existing file is no longer readable: %s: %s" % (
                err, type(ex2).__name__, str(ex2)[:80])
    finally:
        shutil.rmtree(d, ignore_errors=True)


# ----------------------------------------------------- C07-A2 / C19: multi-file append on a SymFS ---
class Fault(Exception):
    pass


class FSFile(SymFile):
    def __init__(self, fs, path, size, existing):
        SymFile.__init__(self, size, name=path)
        self.fs, self.path, self.existing = fs, path, existing

    def write(self, data):
        self.fs.op("write", self.path)
        return SymFile.write(self, data)

    def __exit__(self, *a):
        if a[0] is None:
            self.fs.op("close", self.path)
        self.closed = True
        return False


class SymFS:
    """dict of path -> file; every open-for-write / write / close / mkdirs is numbered; call number fail_k raises"""

    def __init__(self, existing, fail_k):
        self.files = {p: FSFile(self, p, n, True) for p, n in existing.items()}
        self.existing = set(existing)
        self.fail_k = fail_k
        self.n = 0
        self.log = []

    def op(self, kind, path):
        k = self.n
        self.n += 1
        self.log.append((kind, path))
        if k == self.fail_k:
            raise Fault("injected failure at call %d (%s %s)" % (k, kind, path))

    def open_with(self, path, mode="rb"):
        if "w" in mode or "+" in mode or "a" in mode:
            self.op("open-w", path)
            f = FSFile(self, path, 0, path in self.existing)
            self.files[path] = f
            return f
        return self.files[path]

    def mkdirs(self, path):
        self.op("mkdirs", path)


class _PFShim:
    """the attributes ParquetFile.write_row_groups touches"""

    def __init__(self, fmd, cats, fs):
        self.fmd, self.cats, self.fs = fmd, cats, fs
        self.columns = ["a"]
        self.file_scheme = "hive"
        self.fn = "d/_metadata"
        self.basepath = "d"

    def _set_attrs(self):
        pass

    def _sort_part_names(self, *a, **k):
        raise AssertionError("not requested")

    _write_common_metadata = ParquetFile._write_common_metadata
    write_row_groups = ParquetFile.write_row_groups


META = ("d/_metadata", "d/_common_metadata")


# ids of the part files the existing dataset references (lattice): consecutive, with gaps (after remove_row_groups /
# overwrite), and with more than ten parts (multi-digit ids)
OLD_IDS = [int(x) for x in os.environ.get("VERIF_OLD_IDS", "").split(",") if x != ""]


def _old_ids(n_old):
    return OLD_IDS if OLD_IDS else list(range(n_old))


def _run_append(n_old, r0, b0, r1, b1, nfr, fail_k, feet):
    ids = _old_ids(n_old)
    existing = {"d/part.%d.parquet" % i: 100 + i for i in ids}
    existing["d/_metadata"] = 50
    existing["d/_common_metadata"] = 40
    fs = SymFS(existing, fail_k)
    old = [_rg(10 + i, 90 + i, "part.%d.parquet" % i) for i in ids]
    fmd = _fmd(old)
    pf = _PFShim(fmd, {}, fs)
    frames = [Frame(r0, b0, tag=1), Frame(r1, b1, tag=2)][:nfr]
    FOOT[0], SNAP[0] = list(feet), []
    saved = _install()
    raised = None
    try:
        try:
            pf.write_row_groups(frames, open_with=fs.open_with, mkdirs=fs.mkdirs)
        except Fault as ex:
            raised = ex
    finally:
        _restore(saved)
    return fs, fmd, frames, raised


def _meta_phase_start(log):
    for i, (kind, path) in enumerate(log):
        if path in META:
            return i
    return len(log)


def h_multi_append(n_old: int, r0: int, b0: int, r1: int, b1: int, nfr: int, f0: int, f1: int, f2: int,
                   f3: int) -> bool:
    """
    pre: 0 <= n_old <= 2 and 1 <= r0 < LIM and 1 <= r1 < LIM and 0 <= b0 < LIM and 0 <= b1 < LIM and 0 <= nfr <= 2
    pre: 1 <= f0 < LIM and 1 <= f1 < LIM and 1 <= f2 < LIM and 1 <= f3 < LIM
    post: __return__
    """
    # fault free: parts first, summary last; fresh part names; _metadata references old ++ new in order
    fs, fmd, frames, raised = _run_append(n_old, r0, b0, r1, b1, nfr, -1, [f0, f1, f2, f3])
    if raised is not None:
        return False
    m = _meta_phase_start(fs.log)
    before, after = fs.log[:m], fs.log[m:]
    if any(p in META for _, p in before) or any(p not in META for _, p in after):
        return False
    opened = [p for k, p in fs.log if k == "open-w"]
    new_parts = [p for p in opened if p not in META]
    if any(p in fs.existing for p in new_parts) or len(set(new_parts)) != len(new_parts):
        return False          # an existing data file was opened for writing / a name was reused
    ids = _old_ids(n_old)
    if len(new_parts) != nfr:
        return False
    if opened[len(new_parts):] != list(META):
        return False
    want = [90 + i for i in ids] + [fr.tag for fr in frames]
    paths = [rg.columns[0].file_path for rg in fmd.row_groups]
    want_paths = ["part.%d.parquet" % i for i in ids] + [p[2:] for p in new_parts]
    rows = sum(10 + i for i in ids) + sum(fr.rows for fr in frames)
    # the _metadata footer (first footer written in the metadata phase) was serialised from old ++ new
    meta_snaps = [s for s in SNAP[0] if s[2] == "d/_metadata"]
    # every new part file ends in a footer that describes that file alone: its one row group and its row count
    part_snaps = [s for s in SNAP[0] if s[2] not in META]
    want_parts = [([fr.tag], fr.rows, p) for fr, p in zip(frames, new_parts)]
    return (paths == want_paths and meta_snaps == [(want, rows, "d/_metadata")] and fmd.num_rows == rows and
            part_snaps == want_parts)


def replay_h_multi_append(n_old, r0, b0, r1, b1, nfr, **kw):
    """real hive dataset whose part files carry the ids of the lattice point, then a real append"""
    import hashlib, shutil, tempfile
    import pandas as pd
    import fastparquet
    ids = _old_ids(n_old)
    d = tempfile.mkdtemp(prefix="c07-")
    try:
        dn = os.path.join(d, "ds")
        top = (max(ids) + 1) if ids else 1
        df = pd.DataFrame({"a": list(range(2 * top))})
        fastparquet.write(dn, df, file_scheme="hive", row_group_offsets=list(range(0, 2 * top, 2)))
        pf = fastparquet.ParquetFile(dn)
        drop = [rg for i, rg in enumerate(pf.row_groups) if i not in ids]
        if drop and len(drop) < len(pf.row_groups):
            pf.remove_row_groups(drop)
        elif drop:
            return None, "cannot build an empty dataset with the concrete driver"
        old = fastparquet.ParquetFile(dn).to_pandas()
        before = {p: hashlib.sha1(open(os.path.join(dn, p), "rb").read()).hexdigest()
                  for p in os.listdir(dn) if p.startswith("part.")}
        new = pd.DataFrame({"a": list(range(1000, 1000 + 3 * nfr))})
        if nfr:
            fastparquet.write(dn, new, file_scheme="hive", append=True, row_group_offsets=list(range(0, 3 * nfr, 3)))
        for p, h in before.items():
            fp = os.path.join(dn, p)
            if not os.path.exists(fp) or hashlib.sha1(open(fp, "rb").read()).hexdigest() != h:
                return True, "append to a dataset with part ids %r rewrote the existing data file %s" % (ids, p)
        from vf.pyshim import filecheck
        for p in sorted(os.listdir(dn)):
            if p.startswith("part."):
                probs = filecheck.validate(os.path.join(dn, p))
                if probs:
                    return True, "data file %s written by the append is inconsistent: %s" % (p, "; ".join(probs[:2]))
        try:
            out = fastparquet.ParquetFile(dn).to_pandas()
        except Exception as ex:
            return True, "dataset with part ids %r unreadable after append: %s" % (ids, ex)
        want = list(old["a"]) + (list(new["a"]) if nfr else [])
        if list(out["a"]) != want:
            return True, "after append the dataset with part ids %r reads %d rows, expected %d" % (ids, len(out),
                                                                                                  len(want))
        # the summary files count what they list
        for name in ("_metadata", "_common_metadata"):
            f1 = fastparquet.ParquetFile(os.path.join(dn, name)).fmd
            listed = sum(rg.num_rows for rg in (f1.row_groups or []))
            if f1.num_rows != len(want) or (name == "_metadata" and listed != len(want)):
                return True, "after append %s records num_rows=%d (its row groups list %d rows; the dataset holds " \
                             "%d)" % (name, f1.num_rows, listed, len(want))
        return False, "append left existing files untouched and added rows at the end"
    finally:
        shutil.rmtree(d, ignore_errors=True)


PATHS = ["part.%d.parquet" % i for i in range(0, 130)]


def h_find_max_part(a: int, b: int, c: int, pa: bool, pb: bool, pc: bool, swap: bool) -> bool:
    """
    pre: 8 <= a <= 9 and 10 <= b <= 11 and 99 <= c <= 100
    post: __return__
    """
    # part ids of different digit counts, any subset present, in either order: the next part number exceeds them all
    ids = [i for i, p in ((a, pa), (b, pb), (c, pc)) if p]
    if swap:
        ids.reverse()
    rgs = [_rg(1, 1, PATHS[i]) for i in ids]
    nxt = writer.find_max_part(rgs)
    return all(nxt > i for i in ids) and (nxt == 0 or nxt - 1 in ids)


def replay_h_find_max_part(a, b, c, pa, pb, pc, swap):
    ids = [i for i, p in ((a, pa), (b, pb), (c, pc)) if p]
    if swap:
        ids.reverse()
    import fastparquet.writer as w
    nxt = w.find_max_part([_rg(1, 1, "part.%d.parquet" % i) for i in ids])
    if not all(nxt > i for i in ids):
        return True, "find_max_part over part ids %r gives %d: an existing part file would be overwritten by the " \
                     "next append" % (ids, nxt)
    return False, "fresh"


def h_find_max_part_order(a: int, b: int, c: int, n: int) -> bool:
    """
    pre: 0 <= a <= 4 and 0 <= b <= 4 and 0 <= c <= 4 and 1 <= n <= 3
    post: __return__
    """
    # small part ids in ANY order (row groups re-ordered by a sort key, holes left by removals, numbers shared between
    # directories): the next part number exceeds every referenced id
    ids = [a, b, c][:n]
    rgs = [_rg(1, 1, PATHS[i]) for i in ids]
    nxt = writer.find_max_part(rgs)
    return all(nxt > i for i in ids)


def replay_h_find_max_part_order(a, b, c, n):
    ids = [a, b, c][:n]
    import fastparquet.writer as w
    nxt = w.find_max_part([_rg(1, 1, "part.%d.parquet" % i) for i in ids])
    if not all(nxt > i for i in ids):
        return True, "find_max_part over row groups referencing part ids %r (in this order) gives %d: the next " \
                     "append would overwrite an existing part file" % (ids, nxt)
    return False, "fresh"


# directory prefixes a partitioned dataset puts before the part file name: the part number is the one in the file name
DIRS = ["", "k=1/", "release=1.0.3/", "host=10.0.0.7/", "a=1.5/", "part.7.d/k=2/", "year=2020/month=1.5/"]
PATHS2 = [[d + "part.%d.parquet" % i for i in range(0, 130)] for d in DIRS]


def h_find_max_part_dirs(a: int, b: int, pa: bool, pb: bool, da: int, same: bool) -> bool:
    """
    pre: 9 <= a <= 10 and 99 <= b <= 100 and 0 <= da < 7
    post: __return__
    """
    # part files inside partition directories whose names contain dots or digits: the id is still the file's number
    from crosshair import realize
    da = realize(da)
    db = da if same else (da + 1) % 7
    ids = [(i, d) for i, p, d in ((a, pa, da), (b, pb, db)) if p]
    rgs = [_rg(1, 1, PATHS2[d][i]) for i, d in ids]
    nxt = writer.find_max_part(rgs)
    return all(nxt > i for i, _ in ids) and (nxt == 0 or nxt - 1 in [i for i, _ in ids])


def replay_h_find_max_part_dirs(a, b, pa, pb, da, same):
    """a real hive dataset partitioned on a text key whose value is the witness's directory text, appended to until
    the witness ids exist; no append may open an existing data file"""
    import fastparquet.writer as w
    db = da if same else (da + 1) % 7
    ids = [(i, d) for i, p, d in ((a, pa, da), (b, pb, db)) if p]
    rgs = [_rg(1, 1, DIRS[d] + "part.%d.parquet" % i) for i, d in ids]
    nxt = w.find_max_part(rgs)
    if all(nxt > i for i, _ in ids):
        return False, "fresh"
    # show it through the public API: a dataset partitioned on such a value loses a file on the second append
    import hashlib, shutil, tempfile
    import pandas as pd
    import fastparquet
    bad = [DIRS[d] for i, d in ids if not nxt > i]
    val = bad[0].rstrip("/").split("=")[-1] if "=" in bad[0] else None
    if val is None:
        return True, "find_max_part over %r gives %d: an existing part file would be overwritten by the next " \
                     "append" % ([r.columns[0].file_path for r in rgs], nxt)
    d = tempfile.mkdtemp(prefix="c19-")
    try:
        dn = os.path.join(d, "ds")
        fastparquet.write(dn, pd.DataFrame({"k": [val] * 2, "v": [1, 2]}), file_scheme="hive", partition_on=["k"])
        seen = {}
        for step in range(3):
            for root, _, files in os.walk(dn):
                for f in files:
                    if f.startswith("part."):
                        fp = os.path.join(root, f)
                        h = hashlib.sha1(open(fp, "rb").read()).hexdigest()
                        if fp in seen and seen[fp] != h:
                            return True, "append %d to a dataset partitioned on k=%r rewrote the existing data file " \
                                         "%s" % (step, val, os.path.relpath(fp, dn))
                        seen[fp] = h
            fastparquet.write(dn, pd.DataFrame({"k": [val] * 2, "v": [10 * step, 10 * step + 1]}),
                              file_scheme="hive", partition_on=["k"], append=True)
        rows = len(fastparquet.ParquetFile(dn).to_pandas())
        if rows != 8:
            return True, "after three appends the dataset partitioned on k=%r holds %d rows, expected 8" % (val, rows)
        return True, "find_max_part over %r gives %d" % ([r.columns[0].file_path for r in rgs], nxt)
    finally:
        shutil.rmtree(d, ignore_errors=True)


def h_multi_append_fault(n_old: int, r0: int, b0: int, r1: int, b1: int, nfr: int, fail_k: int) -> bool:
    """
    pre: 0 <= n_old <= 2 and 1 <= r0 < LIM and 1 <= r1 < LIM and 0 <= b0 < LIM and 0 <= b1 < LIM and 1 <= nfr <= 2
    pre: 0 <= fail_k < 40
    post: __return__
    """
    # the fail_k-th filesystem call fails.  If that is before the summary metadata starts being rewritten the call
    # must raise (no handler swallows it) and no pre-existing file may have been opened for writing or written;
    # if the call returns normally the fault index was never reached and the result is the fault-free one.
    fs, fmd, frames, raised = _run_append(n_old, r0, b0, r1, b1, nfr, fail_k, [9, 9, 9, 9, 9, 9])
    m = _meta_phase_start(fs.log)
    if raised is None:
        return fs.n <= fail_k
    if fail_k < m or m == len(fs.log):
        touched = [p for k, p in fs.log if p in fs.existing]
        if touched == []:
            return True
        if any(p not in META for p in touched):
            return False          # an existing data file was opened for writing / written
        # the failed append went on to rewrite the summary: only harmless if what it wrote describes exactly the old
        # row groups (a fresh open must read back the previous content)
        ids = _old_ids(n_old)
        old_tags, old_rows = [90 + i for i in ids], sum(10 + i for i in ids)
        metas = [s for s in SNAP[0] if s[2] == "d/_metadata"]
        return all(s[0] == old_tags and s[1] == old_rows for s in metas)
    return True      # fault inside the metadata phase: outside this property's statement


def replay_h_multi_append_fault(n_old, r0, b0, r1, b1, nfr, fail_k):
    """real files, real ParquetFile, fault-injecting open_with/mkdirs wrappers.  The model's call index and the real
    call sequence differ in how many writes a part file takes, so the real run is repeated with the fault at every
    call position (the witness's own first) until the append completes without reaching it."""
    last = (False, "old dataset intact")
    for k in [fail_k] + [x for x in range(0, 200) if x != fail_k]:
        ok, info = _append_with_fault(n_old, nfr, k)
        if ok is None:
            if k == fail_k:
                continue
            break
        if ok:
            return True, info + " (fault at filesystem call %d)" % k
        last = (ok, info)
    return last


def _append_with_fault(n_old, nfr, fail_k):
    import shutil, tempfile
    import pandas as pd
    import fastparquet
    d = tempfile.mkdtemp(prefix="c19-")
    try:
        dn = os.path.join(d, "ds")
        df = pd.DataFrame({"a": list(range(10))})
        fastparquet.write(dn, df, file_scheme="hive", row_group_offsets=[0, 5][:max(n_old, 1)])
        before = {p: open(os.path.join(dn, p), "rb").read() for p in os.listdir(dn)}
        count = [0]

        class F:
            def __init__(self, f):
                self.f = f

            def write(self, b):
                tick()
                return self.f.write(b)

            def __enter__(self):
                return self

            def __exit__(self, *a):
                if a[0] is None:
                    tick()
                self.f.close()
                return False

            def __getattr__(self, k):
                return getattr(self.f, k)

        def tick():
            k = count[0]
            count[0] += 1
            if k == fail_k:
                raise OSError("injected")

        def open_with(path, mode="rb"):
            if "w" in mode:
                tick()
                return F(open(path, mode))
            return open(path, mode)

        def mkdirs(path):
            tick()
            os.makedirs(path, exist_ok=True)
        new = pd.DataFrame({"a": list(range(100, 100 + 2 * nfr))})
        try:
            fastparquet.write(dn, new, file_scheme="hive", append=True, open_with=open_with, mkdirs=mkdirs,
                              row_group_offsets=list(range(0, 2 * nfr, 2)))
            return None, "append completed (fault index not reached)"
        except OSError:
            pass
        # only faults before the summary metadata starts being rewritten are in the statement: the summary files
        # are the last thing a fault-free append writes
        for p, b in before.items():
            if p.startswith("part.") and open(os.path.join(dn, p), "rb").read() != b:
                return True, "existing data file %s was modified by the failed append" % p
        meta_touched = any(open(os.path.join(dn, p), "rb").read() != before[p] for p in ("_metadata", "_common_metadata")
                           if p in before and os.path.exists(os.path.join(dn, p)))
        try:
            out = fastparquet.ParquetFile(dn).to_pandas()
        except Exception as ex:
            if meta_touched and _fault_in_metadata_phase(dn, nfr):
                return False, "fault inside the metadata phase (outside the statement)"
            return True, "dataset unreadable after an append that failed: %s" % (ex,)
        if list(out["a"]) != list(df["a"]):
            if _fault_in_metadata_phase(dn, nfr):
                return False, "fault inside the metadata phase (outside the statement)"
            return True, "dataset content changed after a failed append: %d rows instead of %d" % (len(out), len(df))
        return False, "old dataset intact"
    finally:
        shutil.rmtree(d, ignore_errors=True)


def _fault_in_metadata_phase(dn, nfr):
    """every new part file is complete on disk: the fault came while the summary was being rewritten"""
    import fastparquet
    parts = sorted(p for p in os.listdir(dn) if p.startswith("part."))
    rows = 0
    for p in parts:
        try:
            rows += fastparquet.ParquetFile(os.path.join(dn, p)).count()
        except Exception:
            return False
    return rows == 10 + 2 * nfr


# ------------------------------------------------ C18: up-front rejection of an append with other columns ---
POOL = ["a", "b", "c"]


def h_append_column_check(i0: int, i1: int, i2: int, n: int, simple: bool, part: bool) -> bool:
    """
    pre: 0 <= i0 <= 2 and 0 <= i1 <= 2 and 0 <= i2 <= 2 and 0 <= n <= 3
    post: __return__
    """
    # the frame offered to an append names columns POOL[i*] (repeats allowed); the dataset has data columns a, b (and
    # partition column c when `part`).  Anything but exactly the dataset's columns must be refused before any write.
    import pandas as pd
    cols = []
    for k, i in enumerate((i0, i1, i2)):
        if k < n:
            cols.append("a" if i == 0 else ("b" if i == 1 else "c"))      # concrete strings, chosen by forking
    frame = pd.DataFrame([[0] * len(cols)], columns=list(cols)) if cols else pd.DataFrame()
    fs = SymFS({"d/_metadata": 50}, -1)
    pf = _PFShim(_fmd([]), {"c": [1]} if part else {}, fs)
    pf.columns = ["a", "b"]
    if simple:
        pf.file_scheme = "simple"
    calls = []
    saved = (writer.write_simple, writer.write_multi)
    writer.write_simple = lambda *a, **k: calls.append("simple")
    writer.write_multi = lambda *a, **k: calls.append("multi")
    raised = False
    try:
        try:
            pf.write_row_groups(frame, open_with=fs.open_with, mkdirs=fs.mkdirs, write_fmd=False)
        except ValueError:
            raised = True
    finally:
        writer.write_simple, writer.write_multi = saved
    want = sorted(["a", "b"] + (["c"] if part else []))
    if sorted(cols) == want:
        return (not raised) and len(calls) == 1
    return raised and calls == [] and fs.log == []


def replay_h_append_column_check(i0, i1, i2, n, simple, part):
    import shutil, tempfile
    import pandas as pd
    import fastparquet
    cols = [POOL[i] for i in (i0, i1, i2)][:n]
    d = tempfile.mkdtemp(prefix="c18-")
    try:
        base = pd.DataFrame({"a": [1, 2], "b": [3, 4], "c": [5, 5]})
        base = base if part else base[["a", "b"]]
        fn = os.path.join(d, "t.parq" if simple else "ds")
        if simple and part:
            return None, "a single file has no partition columns"
        fastparquet.write(fn, base, file_scheme="simple" if simple else "hive", partition_on=["c"] if part else [])
        before = fastparquet.ParquetFile(fn).to_pandas()
        snap = {p: open(os.path.join(dp, p), "rb").read() for dp, _, fs_ in os.walk(d) for p in fs_}
        frame = pd.DataFrame([[7] * len(cols)], columns=cols) if cols else pd.DataFrame()
        want = sorted(base.columns)
        try:
            fastparquet.write(fn, frame, file_scheme="simple" if simple else "hive", append=True,
                              partition_on=["c"] if part else [])
            accepted = True
        except Exception:
            accepted = False
        if sorted(cols) == want:
            return False, "matching columns"
        try:
            after = fastparquet.ParquetFile(fn).to_pandas()
        except Exception as ex:
            return True, "append of a frame with columns %r to a dataset with columns %r: the dataset is no longer " \
                         "readable (%s)" % (cols, want, type(ex).__name__)
        if accepted or not after.equals(before):
            return True, "append of a frame with columns %r to a dataset with columns %r was %s and the content " \
                         "changed" % (cols, want, "accepted" if accepted else "refused")
        return False, "refused, dataset intact"
    finally:
        shutil.rmtree(d, ignore_errors=True)



def h_append_other_columns_simple(i0: int, i1: int, i2: int, n: int, old_foot: int, foot: int) -> bool:
    """
    pre: 0 <= i0 <= 2 and 0 <= i1 <= 2 and 0 <= i2 <= 2 and 0 <= n <= 3 and 1 <= old_foot <= foot < LIM
    post: __return__
    """
    # single-file dataset with columns a, b; a frame naming any columns (repeats allowed) is appended through the real
    # write_row_groups -> write_simple -> make_row_group (only write_column is a stub).  Either the frame has exactly
    # the dataset's columns and the append succeeds, or the call raises and the existing bytes are intact.
    import pandas as pd
    cols = []
    for k, i in enumerate((i0, i1, i2)):
        if k < n:
            cols.append("a" if i == 0 else ("b" if i == 1 else "c"))
    frame = pd.DataFrame([[0] * len(cols)], columns=list(cols)) if cols else pd.DataFrame({"z": []})
    size = 100 + old_foot + 8
    f = SymFile(size)
    schema = [parquet_thrift.SchemaElement(name="schema", num_children=2),
              parquet_thrift.SchemaElement(name="a", type=2, repetition_type=1),
              parquet_thrift.SchemaElement(name="b", type=2, repetition_type=1)]
    fmd = parquet_thrift.FileMetaData(version=1, schema=schema, num_rows=5, row_groups=[_rg(5, 99)],
                                      key_value_metadata=[], created_by="x")
    fs = SymFS({}, -1)
    pf = _PFShim(fmd, {}, fs)
    pf.columns, pf.file_scheme, pf.fn = ["a", "b"], "simple", f
    FOOT[0], SNAP[0] = [foot], []
    _Struct.old_footer[0] = old_foot
    saved = (writer.struct, writer.write_thrift, writer.write_column)

    def write_column(fobj, coldata, column, compression=None, stats=True):
        fobj.write(Seg("column", 10))
        md = parquet_thrift.ColumnMetaData(type=2, path_in_schema=[column.name], num_values=len(coldata),
                                           total_uncompressed_size=10)
        return parquet_thrift.ColumnChunk(meta_data=md, file_offset=0)
    writer.struct, writer.write_thrift, writer.write_column = _Struct, _s_write_thrift, write_column
    raised = False
    try:
        try:
            pf.write_row_groups(frame, open_with=None)
        except Exception:
            raised = True
    finally:
        writer.struct, writer.write_thrift, writer.write_column = saved
    if raised:
        return _old_content_intact(f, size, 100)
    return sorted(cols) == ["a", "b"]


def replay_h_append_other_columns_simple(i0, i1, i2, n, old_foot, foot):
    return replay_h_append_column_check(i0, i1, i2, n, True, False)


# ------------------------------------------ C07/C08: an append into a partitioned dataset keeps the dataset's layout ---
LABELS = ["a", "b", "1", "x.y"]


class _KeyGroup:
    empty = False

    def __getitem__(self, cols):
        return self

    def __len__(self):
        return 2


class _KeyGB(list):
    @property
    def groups(self):
        return {k: [i] for i, (k, g) in enumerate(self)}


class _KeyFrame:
    """one row group's frame as partition_on_columns sees it: groupby yields (key, group) pairs"""

    def __init__(self, columns, keys):
        self.columns_, self.keys = columns, keys

    def groupby(self, by, observed=False):
        return _KeyGB([(k, _KeyGroup()) for k in self.keys])

    @property
    def loc(self):
        class _L:
            def __getitem__(self, k):
                return _KeyGroup()
        return _L()

    def __iter__(self):
        return iter(self.columns_)


def h_append_scheme(drill: bool, i_old: int, i_new: int, second: bool) -> bool:
    """
    pre: 0 <= i_old < 4 and 0 <= i_new < 4
    post: __return__
    """
    # a dataset partitioned on one text column, laid out hive-style (k=<label>/) or drill-style (<label>/), holding
    # part.0 under label i_old; one row group with label i_new (and optionally the old label) is appended through the
    # real ParquetFile.write_row_groups -> write_multi -> partition_on_columns.  The new part files follow the
    # dataset's own layout, so that old and new paths together still read as one scheme with one label column.
    old, new = LABELS[i_old], LABELS[i_new]
    col = "dir0" if drill else "k"
    pre = "" if drill else "k="
    fs = SymFS({"d/%s%s/part.0.parquet" % (pre, old): 100, "d/_metadata": 50}, -1)
    fmd = _fmd([_rg(10, 90, "%s%s/part.0.parquet" % (pre, old))])
    pf = _PFShim(fmd, {col: [old]}, fs)
    pf.file_scheme = "drill" if drill else "hive"
    keys = [new] + ([old] if second and old != new else [])
    made = []

    def make_part_file(f, data, schema, compression=None, fmd=None, stats=True):
        made.append(getattr(f, "path", None))
        return _rg(2, 1)
    saved = (writer.make_part_file,)
    writer.make_part_file = make_part_file
    writer.sorted = lambda gb: list(gb)
    try:
        pf.write_row_groups([_KeyFrame([col, "a"], keys)], open_with=fs.open_with, mkdirs=fs.mkdirs, write_fmd=False)
    finally:
        writer.make_part_file = saved[0]
        del writer.sorted
    paths = [rg.columns[0].file_path for rg in fmd.row_groups]
    want = ["%s%s/part.0.parquet" % (pre, old)] + ["%s%s/part.1.parquet" % (pre, k) for k in keys]
    if paths != want or made != ["d/" + p for p in want[1:]]:
        return False
    scheme, cats = api.paths_to_cats(paths, None)
    return scheme == ("drill" if drill else "hive") and list(cats) == [col]


def replay_h_append_scheme(drill, i_old, i_new, second):
    import shutil, tempfile
    import pandas as pd
    import fastparquet
    old, new = LABELS[i_old], LABELS[i_new]
    keys = [new] + ([old] if second and old != new else [])
    d = tempfile.mkdtemp(prefix="c07-")
    try:
        dn = os.path.join(d, "ds")
        df = pd.DataFrame({"k": [old, old], "a": [1, 2]})
        fastparquet.write(dn, df, file_scheme="drill" if drill else "hive", partition_on=["k"])
        pf = fastparquet.ParquetFile(dn)
        col = "dir0" if drill else "k"
        nd = pd.DataFrame({col: keys, "a": [10 + j for j in range(len(keys))]})
        pf.write_row_groups(nd)
        out = fastparquet.ParquetFile(dn).to_pandas()
        got = sorted((str(k), int(a)) for k, a in zip(out[col], out["a"]))
        want = sorted([(old, 1), (old, 2)] + [(k, 10 + j) for j, k in enumerate(keys)])
        if got != want:
            return True, "%s dataset with label %r after appending labels %r reads as %r, expected %r" % (
                "drill" if drill else "hive", old, keys, got, want)
        return False, "appended rows carry their labels"
    finally:
        shutil.rmtree(d, ignore_errors=True)
