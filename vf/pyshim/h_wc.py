"""Real writer.write_column under CrossHair (C02-B1 bookkeeping, C01-L2 page tiling, C04-S1/S2 statistics).

The function object is the real one, re-compiled from its own source with one declared AST rewrite
(`b"".join(X)` -> `_sym_join(X)`: CrossHair cannot carry symbolic lengths through bytes.join).  Its collaborators
that end in C (numpy/pandas/cramjam/thrift serialisation) are rebound in a *copy* of the module namespace to
contract shims: what is symbolic is row counts, rows per page, per-page null counts, per-page payload / level /
compressed / header lengths, and the start offset."""
import ast
import inspect
import os
import textwrap
from typing import List, Optional

from vf.pyshim.kit import Seg, SymFile, REPLAY

import numpy as np
import pandas as pd
import fastparquet.writer as writer
from fastparquet import parquet_thrift

VERSION = int(os.environ.get("VERIF_DPV", "1"))            # data page version (lattice)
CATS = os.environ.get("VERIF_CATS", "0") == "1"            # categorical column (dictionary page + indices)
COMP = os.environ.get("VERIF_COMP", "none")                # none | SNAPPY | UNCOMPRESSED | dict
NULLABLE = os.environ.get("VERIF_NULLABLE", "1") == "1"    # OPTIONAL vs REQUIRED column
STATS = os.environ.get("VERIF_STATS", "1") == "1"


class HarnessBroken(Exception):
    pass


def _sym_join(parts):
    n = 0
    for p in parts:
        n = n + len(p)
    return Seg("joined", n, value=[getattr(p, "tag", "bytes") for p in parts])


def _rewrite(fn, namespace):
    src = textwrap.dedent(inspect.getsource(fn))
    tree = ast.parse(src)
    count = [0]

    class T(ast.NodeTransformer):
        def visit_Call(self, node):
            self.generic_visit(node)
            f = node.func
            if isinstance(f, ast.Attribute) and f.attr == "join" and isinstance(f.value, ast.Constant) \
                    and f.value.value == b"":
                count[0] += 1
                return ast.Call(func=ast.Name(id="_sym_join", ctx=ast.Load()), args=node.args, keywords=[])
            return node

    tree = T().visit(tree)
    ast.fix_missing_locations(tree)
    if count[0] != 1:
        raise HarnessBroken("expected exactly one b''.join(...) in %s, found %d" % (fn.__name__, count[0]))
    code = compile(tree, "<%s with declared rewrite>" % fn.__name__, "exec")
    exec(code, namespace)
    return namespace[fn.__name__]


# ---------------------------------------------------------------- data shims ---
ORDERED = [False]      # the categorical dtype of the column under test is ordered (its order = the category list)


class _Cat:
    def __init__(self, series):
        self.s = series

    @property
    def ordered(self):
        return ORDERED[0]

    def remove_unused_categories(self):
        s = self.s
        return _Pruned(_MinMax(s.vmin, s.vmax))

    @property
    def codes(self):
        return _Codes(self.s)

    @property
    def categories(self):
        return _Categories(self.s.ncats)


class _MinMax:
    def __init__(self, lo, hi):
        self.lo, self.hi = lo, hi

    def max(self):
        return self.hi

    def min(self):
        return self.lo


class _Categories:
    dtype = np.dtype("int64")

    def __init__(self, n):
        self.n = n

    def __len__(self):
        return self.n


class _Codes:
    """data.cat.codes of a page: an int8 array of len(page) codes, `nulls` of them == -1"""

    def __init__(self, series):
        self.s = series
        self.dtype = np.dtype("int8")
        self.name = series.name

    def __eq__(self, v):
        if v != -1:
            raise HarnessBroken("codes compared with %r" % (v,))
        return _Count(self.s.nulls)

    def __len__(self):
        return len(self.s)

    def astype(self, t, copy=False):
        return self

    __hash__ = None


class _Count:
    def __init__(self, n):
        self.n = n

    def sum(self):
        return self.n


class SymSeries:
    """a pandas Series as write_column sees it: real dtype object, symbolic length and null layout"""

    def __init__(self, n, page_nulls, rpp, dtype, name="x", ncats=0, vmax=None, vmin=None, lo=0, hi=None,
                 stripped=False):
        # (class _CatSeries below passes lo/hi/stripped by keyword)
        self.n, self.page_nulls, self.rpp = n, page_nulls, rpp
        self.dtype, self.name, self.ncats = dtype, name, ncats
        self.vmax, self.vmin = vmax, vmin
        self.lo, self.hi = lo, (n if hi is None else hi)
        self.stripped = stripped

    def __len__(self):
        if self.stripped:
            return (self.hi - self.lo) - self.nulls_raw
        return self.hi - self.lo

    @property
    def iloc(self):
        return _ILoc(self)

    @property
    def nulls_raw(self):
        # pages are [k*rpp, (k+1)*rpp): the harness gives one null count per page
        if self.hi == self.lo:
            return 0
        k = self.lo // self.rpp
        if self.lo != k * self.rpp or self.hi > (k + 1) * self.rpp:
            raise HarnessBroken("slice %r:%r is not a page of %r rows" % (self.lo, self.hi, self.rpp))
        return self.page_nulls[k]

    @property
    def nulls(self):
        return 0 if self.stripped else self.nulls_raw

    def count(self):
        return len(self) - self.nulls

    @property
    def cat(self):
        return _Cat(self)

    def max(self):
        return self.vmax

    def min(self):
        return self.vmin

    def astype(self, t, copy=False):
        return self

    def notnull(self):
        raise HarnessBroken("notnull() reached: make_definitions is stubbed")

    def unique(self):
        return _Unique(self)


class _Unique:
    def __init__(self, s):
        self.s = s

    def as_ordered(self):
        return self

    def max(self):
        return self.s.vmax

    def min(self):
        return self.s.vmin


class _ILoc:
    def __init__(self, s):
        self.s = s

    def __getitem__(self, sl):
        s = self.s
        a = 0 if sl.start is None else sl.start
        b = len(s) if sl.stop is None else sl.stop
        a = min(max(a, 0), len(s))
        b = min(max(b, a), len(s))
        if isinstance(s, _CodedSeries):
            return _CodedSeries(s.cats_, s.codes_, lo=s.lo + a, hi=s.lo + b)
        if isinstance(s, _CatSeries):
            return _CatSeries(s.cats_, s.present_, s.n, s.rpp, lo=s.lo + a, hi=s.lo + b)
        return SymSeries(s.n, s.page_nulls, s.rpp, s.dtype, s.name, s.ncats, s.vmax, s.vmin, s.lo + a, s.lo + b)


class _PD:
    """the pandas names write_column touches"""
    CategoricalDtype = pd.CategoricalDtype

    @staticmethod
    def isna(v):
        return v is None

    @staticmethod
    def Series(vals, name=None, dtype=None):
        if isinstance(vals, list) and len(vals) > 1:
            return ("stat-series-n", tuple(vals))
        return ("stat-series", vals[0] if isinstance(vals, list) else vals)


class Ctx:
    """per-call recording environment"""

    def __init__(self, hdr_lens, def_lens, val_lens, comp_lens, dict_len, dict_comp):
        self.hdr_lens, self.def_lens, self.val_lens, self.comp_lens = hdr_lens, def_lens, val_lens, comp_lens
        self.dict_len, self.dict_comp = dict_len, dict_comp
        self.headers = []       # (position, thrift object, header length)
        self.page = -1
        self.nhdr = 0
        self.ncomp = 0
        self.stat_encodes = []


CUR = [None]            # the recording context of the call in progress


def _ctx():
    return CUR[0]


def _s_write_thrift(fobj, obj):
    ctx = _ctx()
    k = ctx.nhdr
    ctx.nhdr += 1
    n = ctx.hdr_lens[k]
    ctx.headers.append((fobj.tell(), obj, n))
    r = fobj.write(Seg("header", n))
    if obj.type != parquet_thrift.PageType.DICTIONARY_PAGE:
        ctx.pages_seen += 1
    return r


def _s_make_definitions(data, no_nulls, datapage_version=1):
    ctx = _ctx()
    ctx.page += 1
    if isinstance(data, _CodedSeries):
        out = _CodedSeries(data.cats_, data.codes_, lo=data.lo, hi=data.hi, stripped=True)
    elif isinstance(data, _CatSeries):
        out = _CatSeries(data.cats_, data.present_, data.n, data.rpp, lo=data.lo, hi=data.hi, stripped=True)
    else:
        out = SymSeries(data.n, data.page_nulls, data.rpp, data.dtype, data.name, data.ncats, data.vmax, data.vmin,
                        data.lo, data.hi, stripped=True)
    return Seg("def", ctx.def_lens[ctx.page]), out


def _page_index():
    ctx = _ctx()
    return ctx.pages_seen


class PB:
    """PLAIN-encoded bytes of one BYTE_ARRAY value: `pre` length-prefix bytes followed by the bytes [lo, hi) of the
    value called `tag`; slicing follows bytes semantics, equality is range equality"""

    def __init__(self, tag, pre, lo, hi):
        self.tag, self.pre, self.lo, self.hi = tag, pre, lo, hi

    def __len__(self):
        return self.pre + self.hi - self.lo

    def __getitem__(self, k):
        if not isinstance(k, slice) or k.step is not None:
            raise HarnessBroken("bytes index %r" % (k,))
        n = len(self)
        a = 0 if k.start is None else (k.start if k.start >= 0 else n + k.start)
        b = n if k.stop is None else (k.stop if k.stop >= 0 else n + k.stop)
        a = min(max(a, 0), n)
        b = min(max(b, a), n)
        pre = max(0, min(b, self.pre) - min(a, self.pre))
        vs, ve = max(a, self.pre) - self.pre, max(b, self.pre) - self.pre
        return PB(self.tag, pre, self.lo + vs, self.lo + ve)

    def same(self, tag, length):
        return self.tag == tag and (self.pre == 0) and (self.lo == 0) and (self.hi == length)


class PStat:
    """PLAIN encoding of several fixed-width values in one buffer (bits_per_value 64 for INT64, 1 for BOOLEAN - PLAIN
    booleans are bit-packed): bytes [lo, hi) of it.  Equal to ("plain-stat", v) when it is exactly v's own encoding."""

    def __init__(self, vals, bpv, lo=0, hi=None):
        self.vals, self.bpv, self.lo = tuple(vals), bpv, lo
        self.hi = (len(vals) * bpv + 7) // 8 if hi is None else hi

    def __len__(self):
        return self.hi - self.lo

    def __getitem__(self, k):
        if not isinstance(k, slice) or k.step is not None:
            raise HarnessBroken("bytes index %r" % (k,))
        n = len(self)
        a = 0 if k.start is None else (k.start if k.start >= 0 else n + k.start)
        b = n if k.stop is None else (k.stop if k.stop >= 0 else n + k.stop)
        a = min(max(a, 0), n)
        b = min(max(b, a), n)
        return PStat(self.vals, self.bpv, self.lo + a, self.lo + b)

    def __eq__(self, other):
        if isinstance(other, tuple) and len(other) == 2 and other[0] == "plain-stat":
            if self.bpv % 8 == 0:
                w = self.bpv // 8
                return (self.lo % w == 0 and self.hi == self.lo + w and self.lo // w < len(self.vals)
                        and self.vals[self.lo // w] == other[1])
            return len(self.vals) == 1 and self.lo == 0 and self.hi == 1 and self.vals[0] == other[1]
        return NotImplemented

    def __ne__(self, other):
        r = self.__eq__(other)
        return r if r is NotImplemented else not r

    __hash__ = None


def _s_enc_plain(data, se):
    ctx = _ctx()
    if isinstance(data, tuple) and data[0] == "stat-series-n":
        ctx.stat_encodes.append(data[1])
        return PStat(data[1], 1 if se.type == parquet_thrift.Type.BOOLEAN else 64)
    if isinstance(data, tuple) and data[0] == "stat-series":
        ctx.stat_encodes.append(data[1])
        if isinstance(data[1], PB):
            # PLAIN BYTE_ARRAY: 4-byte length, then the value's bytes
            v = data[1]
            return PB(v.tag, 4, v.lo, v.hi)
        return ("plain-stat", data[1])
    if isinstance(data, _Categories):
        ctx.dict_values = getattr(data, "vals", None)
        return Seg("dict-values", ctx.dict_len)
    return Seg("values", ctx.val_lens[_page_index()])


def _s_enc_dict(data, se):
    return Seg("indices", _ctx().val_lens[_page_index()])


def _s_compress_data(b, compression):
    ctx = _ctx()
    if getattr(b, "tag", "") == "dict-values":
        return Seg("compressed-dict", ctx.dict_comp)
    k = ctx.ncomp
    ctx.ncomp += 1
    return Seg("compressed", ctx.comp_lens[k])


class _PDs(_PD):
    @staticmethod
    def Series(vals, name=None, dtype=None):
        if isinstance(vals, _Categories):
            return vals
        if isinstance(vals, list) and len(vals) > 1:
            return ("stat-series-n", tuple(vals))
        return ("stat-series", vals[0] if isinstance(vals, list) else vals)


_NS = dict(writer.__dict__)
_NS.update(write_thrift=_s_write_thrift, make_definitions=_s_make_definitions, compress_data=_s_compress_data,
           encode={"PLAIN": _s_enc_plain, "RLE_DICTIONARY": _s_enc_dict}, pd=_PDs, _sym_join=_sym_join,
           _rows_per_page=lambda data, se, has_nulls=True, page_size=None: data.rpp)
WC = _rewrite(writer.write_column, _NS)       # the real write_column, one declared rewrite, shimmed collaborators


def build(ctx, f):
    ctx.pages_seen = 0
    CUR[0] = ctx
    return WC


def _compression():
    return {"none": None, "SNAPPY": "SNAPPY", "UNCOMPRESSED": "UNCOMPRESSED",
            "dict": {"type": "ZSTD", "args": {"level": 3}}}[COMP]


def _expect_compressed_v1(comp):
    return bool(comp)


def _expect_compressed_v2(comp):
    return isinstance(comp, dict) or (comp is not None and comp.upper() != "UNCOMPRESSED")


from vf.pyxlift import idl as IDLM
_IDL = IDLM.parse()
NCATS = int(os.environ.get("VERIF_NCATS", "3"))
PAGES = int(os.environ.get("VERIF_PAGES", "2"))             # number of data pages (lattice)
LIM = 1 << 24                                               # bound on every symbolic length (no 2^31 overflow path)


class Acc:
    """fork-free conjunction: symbolic comparisons are summed, one solver query decides the total"""

    def __init__(self):
        self.bad = 0
        self.why = []

    def req(self, cond, why):
        self.bad += (cond != True)
        if cond is False:
            self.why.append(why)


def check(n, rpp, start, nulls, hdr, dl, vl, cl, dict_len, dict_comp, ncats, vmax, vmin):
    """run the real write_column and evaluate the bookkeeping oracle; returns (ok, reason)"""
    npages = PAGES
    dtype = pd.CategoricalDtype([0, 1, 2]) if CATS else np.dtype("int64")
    data = SymSeries(n, nulls, rpp, dtype, "x", ncats, vmax, vmin)
    f = SymFile(start)
    f.seek(start)
    ctx = Ctx(hdr, dl, vl, cl, dict_len, dict_comp)
    wc = build(ctx, f)
    se = parquet_thrift.SchemaElement(type=parquet_thrift.Type.INT64, name="x",
                                      repetition_type=1 if NULLABLE else 0)
    comp = _compression()
    chunk = wc(f, data, se, compression=comp, datapage_version=VERSION, stats=STATS)
    md = chunk.meta_data
    A = Acc()
    w = list(f.writes)
    hdrs = list(ctx.headers)
    has_dict = CATS and npages > 0
    per_page = 2 if VERSION == 1 else 3
    if len(w) != (2 if has_dict else 0) + per_page * npages or len(hdrs) != (1 if has_dict else 0) + npages:
        return False, "unexpected number of writes/pages: %d writes, %d headers" % (len(w), len(hdrs))
    pos = start
    for a, b, tag, val in w:
        A.req(a == pos, "gap or overlap in the chunk")
        pos = b
    A.req(chunk.file_offset == start, "file_offset")
    A.req(md.total_compressed_size == pos - start, "total_compressed_size != bytes written")
    i = 0
    unc_total = 0
    hi = 0
    first_data = None
    if has_dict:
        hp, ph, hl = hdrs[hi]
        hi += 1
        if w[i][2] != "header":
            return False, "dictionary header not first"
        A.req(w[i][0] == hp, "dictionary header position")
        A.req(md.dictionary_page_offset == hp, "dictionary_page_offset")
        if ph.type != parquet_thrift.PageType.DICTIONARY_PAGE:
            return False, "first page is not the dictionary page"
        payload = w[i + 1]
        plen = payload[1] - payload[0]
        want_comp = bool(comp) and comp.upper() != "UNCOMPRESSED"
        A.req(ph.uncompressed_page_size == dict_len, "dictionary uncompressed size")
        A.req(ph.compressed_page_size == plen, "dictionary compressed size")
        A.req(plen == (dict_comp if want_comp else dict_len), "dictionary payload length")
        A.req(ph.dictionary_page_header.num_values == ncats, "dictionary num_values")
        unc_total = unc_total + hl + dict_len
        i += 2
    elif md.dictionary_page_offset is not None:
        return False, "dictionary_page_offset set without a dictionary"
    rows_seen = 0
    nulls_seen = 0
    ci = 0
    for k in range(npages):
        hp, ph, hl = hdrs[hi]
        hi += 1
        if w[i][2] != "header":
            return False, "page %d header misplaced" % k
        A.req(w[i][0] == hp, "page header position")
        if first_data is None:
            first_data = hp
        prow = rpp if k < npages - 1 else n - k * rpp
        pn = nulls[k] if NULLABLE else 0
        dlen = dl[k] if NULLABLE else 0
        vlen = vl[k]
        if VERSION == 1:
            dph = ph.data_page_header
            if ph.type != parquet_thrift.PageType.DATA_PAGE or dph is None:
                return False, "page type"
            payload = w[i + 1]
            plen = payload[1] - payload[0]
            l0 = dlen + vlen + 8
            if _expect_compressed_v1(comp):
                want = cl[ci]
                ci += 1
            else:
                want = l0
            A.req(ph.uncompressed_page_size == l0, "v1 uncompressed_page_size")
            A.req(ph.compressed_page_size == plen, "v1 compressed_page_size")
            A.req(plen == want, "v1 payload length")
            A.req(dph.num_values == prow, "v1 num_values")
            unc_total = unc_total + hl + l0
            i += 2
        else:
            dph = ph.data_page_header_v2
            if ph.type != parquet_thrift.PageType.DATA_PAGE_V2 or dph is None:
                return False, "page type"
            lev, payload = w[i + 1], w[i + 2]
            if lev[2] != ("def" if NULLABLE else "bytes"):
                return False, "v2 levels segment"
            A.req(lev[1] - lev[0] == dlen, "v2 level bytes written")
            plen = payload[1] - payload[0]
            if _expect_compressed_v2(comp):
                want = cl[ci]
                ci += 1
            else:
                want = vlen
            A.req(plen == want, "v2 payload length")
            if dph.is_compressed != _expect_compressed_v2(comp):
                return False, "v2 is_compressed flag"
            A.req(ph.uncompressed_page_size == vlen + dlen, "v2 uncompressed size includes level bytes")
            A.req(ph.compressed_page_size == plen + dlen, "v2 compressed size includes level bytes")
            A.req(dph.definition_levels_byte_length == dlen, "v2 definition_levels_byte_length")
            A.req(dph.repetition_levels_byte_length == 0, "v2 repetition_levels_byte_length")
            A.req(dph.num_values == prow, "v2 num_values")
            A.req(dph.num_rows == prow, "v2 num_rows")
            A.req(dph.num_nulls == pn, "v2 num_nulls")
            unc_total = unc_total + hl + vlen + dlen
            i += 3
        want_enc = parquet_thrift.Encoding.RLE_DICTIONARY if CATS else parquet_thrift.Encoding.PLAIN
        if dph.encoding != want_enc:
            return False, "page encoding"
        rows_seen = rows_seen + prow
        nulls_seen = nulls_seen + pn
    A.req(rows_seen == n, "sum of page num_values != rows")
    A.req(md.num_values == n, "chunk num_values")
    A.req(md.total_uncompressed_size == unc_total, "total_uncompressed_size")
    if npages > 0:
        A.req(md.data_page_offset == first_data, "data_page_offset")
    A.req(md.statistics.null_count == nulls_seen, "null_count")
    want_encs = [parquet_thrift.Encoding.PLAIN, parquet_thrift.Encoding.RLE_DICTIONARY] if has_dict \
        else [parquet_thrift.Encoding.PLAIN]
    if list(md.encodings) != want_encs:
        return False, "encodings list"
    es = md.encoding_stats
    if es[-1].count != npages:
        return False, "encoding_stats page count"
    want_codec = 0 if comp is None else getattr(parquet_thrift.CompressionCodec,
                                                (comp["type"] if isinstance(comp, dict) else comp).upper())
    if md.codec != want_codec:
        return False, "codec"
    if STATS and npages > 0 and vmax is not None:
        if md.statistics.max != ("plain-stat", vmax) or md.statistics.min != ("plain-stat", vmin):
            return False, "statistics min/max are not the column's min/max"
    # every structure handed to the serialiser says which of its integers are 32 bits wide (the serialiser itself
    # is C10's subject: it writes an unmarked integer as i64)
    faults = IDLM.marker_faults(_IDL, "ColumnChunk", chunk)
    for hp, ph, hl in hdrs:
        faults += IDLM.marker_faults(_IDL, "PageHeader", ph)
    if faults:
        return False, "; ".join(faults)
    return A.bad == 0, "; ".join(A.why) or "ok"


def h_write_column(n: int, rpp: int, start: int, n0: int, n1: int, n2: int, h0: int, h1: int, h2: int, h3: int,
                   d0: int, d1: int, d2: int, v0: int, v1: int, v2: int, c0: int, c1: int, c2: int, dict_len: int,
                   dict_comp: int) -> bool:
    """
    pre: 1 <= rpp < LIM and (PAGES - 1) * rpp < n <= PAGES * rpp and 0 <= start < LIM
    pre: 0 <= n0 <= min(rpp, n) and 0 <= n1 <= max(0, min(rpp, n - rpp)) and 0 <= n2 <= max(0, min(rpp, n - 2 * rpp))
    pre: 1 <= h0 < LIM and 1 <= h1 < LIM and 1 <= h2 < LIM and 1 <= h3 < LIM
    pre: 0 <= d0 < LIM and 0 <= d1 < LIM and 0 <= d2 < LIM and 0 <= v0 < LIM and 0 <= v1 < LIM and 0 <= v2 < LIM
    pre: 0 <= c0 < LIM and 0 <= c1 < LIM and 0 <= c2 < LIM and 0 <= dict_len < LIM and 0 <= dict_comp < LIM
    post: __return__
    """
    ok, why = check(n, rpp, start, [n0, n1, n2], [h0, h1, h2, h3], [d0, d1, d2], [v0, v1, v2], [c0, c1, c2],
                    dict_len, dict_comp, NCATS, 5, 1)
    return ok


def replay_h_write_column(n, rpp, start, n0, n1, n2, **kw):
    """real write of a frame with the witness's row count / rows per page / null layout, then structural validation
    of the file and a full read-back"""
    import os, shutil, tempfile
    import numpy as np
    import pandas as pd
    import fastparquet
    from fastparquet import writer as w
    from vf.pyshim import filecheck
    if n > 2000000:
        return None, "witness too large for the concrete driver"
    nulls = [n0, n1, n2]
    vals = np.arange(n, dtype="float64") if NULLABLE else np.arange(n, dtype="int64")
    if CATS:
        ser = pd.Series(pd.Categorical.from_codes(np.arange(n) % NCATS, categories=list(range(NCATS))))
        if NULLABLE:
            codes = (np.arange(n) % NCATS).astype("int64")
            for k in range(3):
                codes[k * rpp:k * rpp + nulls[k]] = -1
            ser = pd.Series(pd.Categorical.from_codes(codes[:n], categories=list(range(NCATS))))
    else:
        if NULLABLE:
            for k in range(3):
                vals[k * rpp:k * rpp + nulls[k]] = np.nan
        ser = pd.Series(vals)
    df = pd.DataFrame({"x": ser})
    d = tempfile.mkdtemp(prefix="c02-")
    old = (w.MAX_PAGE_SIZE, w.DATAPAGE_VERSION, w._rows_per_page)
    try:
        w.DATAPAGE_VERSION = VERSION
        w._rows_per_page = lambda data, se, has_nulls=True, page_size=None: rpp
        fn = os.path.join(d, "t.parq")
        fastparquet.write(fn, df, compression=_compression(), has_nulls=NULLABLE, stats=STATS)
        probs = filecheck.validate(fn)
        if probs:
            return True, "written file is structurally inconsistent: " + "; ".join(probs[:3])
        out = fastparquet.ParquetFile(fn).to_pandas()
        a, b = out["x"], df["x"]
        same = len(a) == len(b) and all((x == y) or (x != x and y != y) for x, y in zip(a.astype(object),
                                                                                         b.astype(object)))
        if not same:
            return True, "file validates but reads back different data"
        return False, "file consistent and round trip intact"
    finally:
        w.MAX_PAGE_SIZE, w.DATAPAGE_VERSION, w._rows_per_page = old
        shutil.rmtree(d, ignore_errors=True)


# ------------------------------------------------------------- C04: bounds of variable-length columns ---
def h_bytes_stats(n: int, lmax: int, lmin: int, utf8: bool, h0: int, h1: int, v0: int) -> bool:
    """
    pre: 1 <= n < LIM and 0 <= lmax < LIM and 0 <= lmin < LIM and 1 <= h0 < LIM and 1 <= h1 < LIM and 0 <= v0 < LIM
    post: __return__
    """
    # a text/bytes column (one page): the chunk's min/max are the complete encoded values (every byte, no length
    # prefix), whatever their lengths
    vmax, vmin = PB("max", 0, 0, lmax), PB("min", 0, 0, lmin)
    data = SymSeries(n, [0, 0, 0], n, np.dtype("O"), "x", 0, vmax, vmin)
    f = SymFile(0)
    ctx = Ctx([h0, h1, 1, 1], [0, 0, 0], [v0, 0, 0], [0, 0, 0], 0, 0)
    wc = build(ctx, f)
    se = parquet_thrift.SchemaElement(type=parquet_thrift.Type.BYTE_ARRAY, name="x", repetition_type=0,
                                      converted_type=parquet_thrift.ConvertedType.UTF8 if utf8 else None)
    chunk = wc(f, data, se, compression=None, datapage_version=1, stats=True)
    st = chunk.meta_data.statistics
    if st is None or not isinstance(st.max, PB) or not isinstance(st.min, PB):
        return False
    return st.max.same("max", lmax) and st.min.same("min", lmin)


def replay_h_bytes_stats(n, lmax, lmin, utf8, **kw):
    import shutil, tempfile
    import fastparquet
    if lmax > 4000000 or lmin > 4000000:
        return None, "witness too large for the concrete driver"
    lo, hi = "a" * lmin, "b" + "c" * max(lmax - 1, 0)
    if lmax == 0:
        lo, hi = "", ""
    vals = [hi, lo] + [lo] * min(max(n - 2, 0), 3)
    if not utf8:
        vals = [v.encode() for v in vals]
    df = pd.DataFrame({"x": vals})
    d = tempfile.mkdtemp(prefix="c04-")
    try:
        fn = os.path.join(d, "t.parq")
        fastparquet.write(fn, df, stats=True, object_encoding="utf8" if utf8 else "bytes")
        pf = fastparquet.ParquetFile(fn)
        st = pf.row_groups[0].columns[0].meta_data.statistics
        want_max, want_min = max(vals), min(vals)
        enc = (lambda v: v.encode()) if utf8 else (lambda v: v)
        if bytes(st.max) != enc(want_max) or bytes(st.min) != enc(want_min):
            return True, "text column with a largest value of %d bytes and a smallest of %d bytes: stored max is %d " \
                         "bytes, stored min is %d bytes (not the values)" % (len(enc(want_max)), len(enc(want_min)),
                                                                           len(st.max), len(st.min))
        return False, "statistics exact"
    finally:
        shutil.rmtree(d, ignore_errors=True)


def h_bool_stats(n: int, vmax: bool, vmin: bool, h0: int, h1: int, v0: int) -> bool:
    """
    pre: 1 <= n < LIM and 1 <= h0 < LIM and 1 <= h1 < LIM and 0 <= v0 < LIM and (vmax or not vmin)
    post: __return__
    """
    # a boolean column (PLAIN booleans are bit-packed, one bit per value): each bound is the encoding of that one value
    data = SymSeries(n, [0, 0, 0], n, np.dtype("bool"), "x", 0, vmax, vmin)
    f = SymFile(0)
    ctx = Ctx([h0, h1, 1, 1], [0, 0, 0], [v0, 0, 0], [0, 0, 0], 0, 0)
    wc = build(ctx, f)
    se = parquet_thrift.SchemaElement(type=parquet_thrift.Type.BOOLEAN, name="x", repetition_type=0)
    chunk = wc(f, data, se, compression=None, datapage_version=1, stats=True)
    st = chunk.meta_data.statistics
    if st is None:
        return False
    return st.max == ("plain-stat", vmax) and st.min == ("plain-stat", vmin)


def replay_h_bool_stats(n, vmax, vmin, **kw):
    import shutil, tempfile
    import fastparquet
    vals = [bool(vmax), bool(vmin)] + [bool(vmin)] * min(max(n - 2, 0), 3)
    d = tempfile.mkdtemp(prefix="c04-")
    try:
        fn = os.path.join(d, "t.parq")
        fastparquet.write(fn, pd.DataFrame({"x": vals}), stats=True)
        pf = fastparquet.ParquetFile(fn)
        st = pf.row_groups[0].columns[0].meta_data.statistics
        want = (bytes([1 if max(vals) else 0]), bytes([1 if min(vals) else 0]))
        got = (bytes(st.max) if st.max is not None else None, bytes(st.min) if st.min is not None else None)
        s = pf.statistics
        if got != want or s["max"]["x"] != [max(vals)] or s["min"]["x"] != [min(vals)]:
            return True, "boolean column %r: stored max/min bytes %r (want %r), reported max=%r min=%r" % (
                vals, got, want, s["max"]["x"], s["min"]["x"])
        return False, "statistics exact"
    finally:
        shutil.rmtree(d, ignore_errors=True)


# ------------------------------------------------------------- C04-S1: categorical bounds ---
class _OrderedUnique:
    """pandas contract: Series.unique() of a categorical keeps the dtype's categories; .as_ordered() orders values
    by *category position*; max()/min() are the present categories with the largest/smallest position (NaN -> None
    when nothing is present)"""

    def __init__(self, cats, present):
        self.cats, self.present = cats, present

    def as_ordered(self):
        return self

    def max(self):
        out = None
        for c, p in zip(self.cats, self.present):
            if p:
                out = c
        return out

    def min(self):
        for c, p in zip(self.cats, self.present):
            if p:
                return c
        return None


class _ValueIndex:
    """pandas contract: Index.max()/min() are by value (NaN -> None here when empty)"""

    def __init__(self, vals):
        self.vals = vals
        self.dtype = np.dtype("int64")

    def __len__(self):
        return len(self.vals)

    def max(self):
        return max(self.vals) if self.vals else None

    def min(self):
        return min(self.vals) if self.vals else None


class _CatList(_Categories):
    """the dtype's category list as an Index: len, max()/min() by value"""

    def __init__(self, vals):
        _Categories.__init__(self, len(vals))
        self.vals = list(vals)

    def max(self):
        return max(self.vals) if self.vals else None

    def min(self):
        return min(self.vals) if self.vals else None


class _CatAcc(_Cat):
    @property
    def categories(self):
        return _CatList(self.s.cats_)

    def remove_unused_categories(self):
        # pandas contract: the same rows as a categorical whose dtype lists only the labels that occur
        s = self.s
        kept = [c for c, p in zip(s.cats_, s.present_) if p]
        return _CatSeries(kept, [True] * len(kept), s.n, s.rpp, lo=s.lo, hi=s.hi, stripped=s.stripped)


class _Acc2:
    def __init__(self, categories):
        self.categories = categories


class _Pruned:
    def __init__(self, categories):
        self.cat = _Acc2(categories)


class _CatSeries(SymSeries):
    def __init__(self, cats, present, n, rpp, **kw):
        SymSeries.__init__(self, n, [0, 0, 0], rpp, pd.CategoricalDtype([0, 1, 2]), "x", len(cats), **kw)
        self.cats_, self.present_ = cats, present

    def unique(self):
        return _OrderedUnique(self.cats_, self.present_)

    def max(self):
        # pandas contract: extremes of a categorical follow the category order; unordered categoricals refuse
        if not ORDERED[0]:
            raise TypeError("Categorical is not ordered for operation max")
        return _OrderedUnique(self.cats_, self.present_).max()

    def min(self):
        if not ORDERED[0]:
            raise TypeError("Categorical is not ordered for operation min")
        return _OrderedUnique(self.cats_, self.present_).min()

    @property
    def cat(self):
        return _CatAcc(self)


def _h_cat_stats(c0: int, c1: int, c2: int, p0: bool, p1: bool, p2: bool, n: int) -> bool:
    # (body of the harness below; kept free of a contract so that other harnesses can call it: CrossHair
    # enforces the contract of a contracted callee and drops the path when it fails)
    # a categorical column with categories [c0, c1, c2] (any order) of which the flagged ones occur: the chunk's
    # statistics must be the smallest / largest *value* that occurs
    data = _CatSeries([c0, c1, c2], [p0, p1, p2], n, n)
    f = SymFile(4)
    f.seek(4)
    ctx = Ctx([20, 20, 20, 20], [5, 5, 5], [n, n, n], [1, 1, 1], 24, 9)
    wc = build(ctx, f)
    se = parquet_thrift.SchemaElement(type=parquet_thrift.Type.INT64, name="x", repetition_type=1)
    chunk = wc(f, data, se, compression=None, datapage_version=1, stats=True)
    st = chunk.meta_data.statistics
    present = [c for c, p in zip([c0, c1, c2], [p0, p1, p2]) if p]
    return st.max == ("plain-stat", max(present)) and st.min == ("plain-stat", min(present))


def h_cat_stats(c0: int, c1: int, c2: int, p0: bool, p1: bool, p2: bool, n: int) -> bool:
    """
    pre: c0 != c1 and c1 != c2 and c0 != c2 and 1 <= n < LIM
    pre: p0 or p1 or p2
    post: __return__
    """
    return _h_cat_stats(c0, c1, c2, p0, p1, p2, n)


def replay_h_cat_stats(c0, c1, c2, p0, p1, p2, n):
    import os, shutil, tempfile
    import pandas as pd
    import fastparquet
    cats = [c0, c1, c2]
    present = [c for c, p in zip(cats, [p0, p1, p2]) if p]
    vals = [present[i % len(present)] for i in range(max(3, min(n, 50)))]
    df = pd.DataFrame({"x": pd.Categorical(vals, categories=cats)})
    d = tempfile.mkdtemp(prefix="c04-")
    try:
        fn = os.path.join(d, "t.parq")
        fastparquet.write(fn, df, stats=True)
        pf = fastparquet.ParquetFile(fn)
        st = pf.statistics
        mx, mn = st["max"]["x"][0], st["min"]["x"][0]
        if mx != max(present) or mn != min(present):
            return True, "categorical column with categories %r holding values %r: statistics say min=%r max=%r" % (
                cats, sorted(set(vals)), mn, mx)
        return False, "statistics exact"
    finally:
        shutil.rmtree(d, ignore_errors=True)


def h_cat_dictionary(c0: int, c1: int, c2: int, p0: bool, p1: bool, p2: bool, n: int, stats: bool) -> bool:
    """
    pre: c0 != c1 and c1 != c2 and c0 != c2 and 1 <= n < LIM
    pre: p0 or p1 or p2
    post: __return__
    """
    # the dictionary page of a categorical chunk lists the categories of the column's dtype, all of them and in the
    # dtype's order - whichever of them occur in this batch and whatever the statistics setting: batches written from
    # one dtype (row groups, appends) then carry identical dictionaries
    data = _CatSeries([c0, c1, c2], [p0, p1, p2], n, n)
    f = SymFile(4)
    f.seek(4)
    ctx = Ctx([20, 20, 20, 20], [5, 5, 5], [n, n, n], [1, 1, 1], 24, 9)
    ctx.dict_values = None
    wc = build(ctx, f)
    se = parquet_thrift.SchemaElement(type=parquet_thrift.Type.INT64, name="x", repetition_type=1)
    chunk = wc(f, data, se, compression=None, datapage_version=1, stats=stats)
    if not ctx.headers or ctx.headers[0][1].type != parquet_thrift.PageType.DICTIONARY_PAGE:
        return False
    dph = ctx.headers[0][1].dictionary_page_header
    ncat = [kv.value for kv in chunk.meta_data.key_value_metadata or [] if kv.key == "num_categories"]
    return dph.num_values == 3 and ctx.dict_values == [c0, c1, c2] and ncat == ["3"]


def replay_h_cat_dictionary(c0, c1, c2, p0, p1, p2, n, stats):
    """two batches of one CategoricalDtype - the witness's labels, then all of them - written and appended with the
    witness's statistics setting, read back"""
    import os, shutil, tempfile
    import pandas as pd
    import fastparquet
    cats = [c0, c1, c2]
    present = [c for c, p in zip(cats, [p0, p1, p2]) if p]
    dt = pd.CategoricalDtype(cats)
    b1 = [present[i % len(present)] for i in range(4)]
    b2 = [cats[i % 3] for i in range(4)]
    d = tempfile.mkdtemp(prefix="c07-")
    try:
        for scheme in ("simple", "hive"):
            fn = os.path.join(d, "ds-" + scheme)
            fastparquet.write(fn, pd.DataFrame({"x": pd.Series(b1, dtype=dt)}), stats=stats, file_scheme=scheme)
            fastparquet.write(fn, pd.DataFrame({"x": pd.Series(b2, dtype=dt)}), stats=stats, file_scheme=scheme,
                              append=True)
            try:
                out = [int(v) for v in fastparquet.ParquetFile(fn).to_pandas()["x"]]
            except Exception as ex:
                return True, "two batches of categories %r (first holding only %r, stats=%r, %s) cannot be read: " \
                             "%s: %s" % (cats, present, stats, scheme, type(ex).__name__, str(ex)[:80])
            if out != b1 + b2:
                return True, "two batches of categories %r (first holding only %r, stats=%r, %s): rows %r read " \
                             "back as %r" % (cats, present, stats, scheme, b1 + b2, out)
        return False, "labels intact"
    finally:
        shutil.rmtree(d, ignore_errors=True)


def h_cat_stats_ordered(c0: int, c1: int, c2: int, p0: bool, p1: bool, p2: bool, n: int) -> bool:
    """
    pre: c0 != c1 and c1 != c2 and c0 != c2 and 1 <= n < LIM
    pre: p0 or p1 or p2
    post: __return__
    """
    # the same for an ORDERED categorical (its own order is the category list, e.g. small < medium < large): readers
    # compare the stored bounds in the order of the physical type, so they must be the extremes by value
    ORDERED[0] = True
    try:
        return _h_cat_stats(c0, c1, c2, p0, p1, p2, n)
    finally:
        ORDERED[0] = False


def replay_h_cat_stats_ordered(c0, c1, c2, p0, p1, p2, n):
    import os, shutil, tempfile
    import pandas as pd
    import fastparquet
    cats = [c0, c1, c2]
    present = [c for c, p in zip(cats, [p0, p1, p2]) if p]
    vals = [present[i % len(present)] for i in range(6)]
    df = pd.DataFrame({"x": pd.Categorical(vals, categories=cats, ordered=True)})
    d = tempfile.mkdtemp(prefix="c04-")
    try:
        fn = os.path.join(d, "t.parq")
        fastparquet.write(fn, df, stats=True)
        pf = fastparquet.ParquetFile(fn)
        st = pf.statistics
        mx, mn = st["max"]["x"][0], st["min"]["x"][0]
        if mx != max(present) or mn != min(present):
            return True, "ordered categorical with categories %r holding %r: statistics say min=%r max=%r" % (
                cats, sorted(set(vals)), mn, mx)
        target = max(present)
        kept = len(pf.to_pandas(filters=[("x", "==", target)], row_filter=True))
        want = sum(1 for v in vals if v == target)
        if kept != want:
            return True, "ordered categorical with categories %r: filter x == %r keeps %d of %d matching rows" % (
                cats, target, kept, want)
        return False, "statistics exact"
    finally:
        shutil.rmtree(d, ignore_errors=True)


def h_cat_stats_rest(c0: int, c1: int, c2: int, p0: bool, p1: bool, p2: bool, n: int) -> bool:
    """
    pre: c0 < c1 < c2 and 1 <= n < LIM
    pre: p0 or p1 or p2
    post: __return__
    """
    # categories listed in increasing order (outside the category-order finding)
    return _h_cat_stats(c0, c1, c2, p0, p1, p2, n)


def replay_h_cat_stats_rest(c0, c1, c2, p0, p1, p2, n):
    return replay_h_cat_stats(c0, c1, c2, p0, p1, p2, n)



# ---------------------------------------------- C04-S1 with missing cells: explicit category codes ---
class _UniqueCodes:
    def __init__(self, vals):
        self.vals = vals


class _CodeVec:
    """data.cat.codes as an int8 array: == -1 gives the null mask; np.unique() gives the sorted distinct codes"""
    dtype = np.dtype("int8")

    def __init__(self, codes, name="x"):
        self.codes, self.name = codes, name

    def __len__(self):
        return len(self.codes)

    def __eq__(self, v):
        n = 0
        for c in self.codes:
            n += (c == v)
        return _Count(n)

    __hash__ = None

    def astype(self, t, copy=False):
        return self

    def unique(self):
        return _UniqueCodes(sorted(set(self.codes)))

    def __array_function__(self, func, types, args, kwargs):
        if func is np.unique:
            return _UniqueCodes(sorted(set(self.codes)))
        raise HarnessBroken("numpy function %s on category codes is not modelled" % getattr(func, "__name__", func))


class _CatIndex(_ValueIndex):
    """Index of category values: positional indexing follows numpy (negative positions count from the end)"""

    def __getitem__(self, idx):
        pos = idx.vals if isinstance(idx, _UniqueCodes) else list(idx)
        return _CatIndex([self.vals[i] for i in pos])


class _CodedAcc:
    def __init__(self, s):
        self.s = s

    @property
    def ordered(self):
        return ORDERED[0]

    @property
    def codes(self):
        return _CodeVec(self.s.codes_[self.s.lo:self.s.hi] if not self.s.stripped else
                        [c for c in self.s.codes_[self.s.lo:self.s.hi] if c != -1])

    @property
    def categories(self):
        return _CatIndex(list(self.s.cats_))

    def remove_unused_categories(self):
        s = self.s
        kept = [c for i, c in enumerate(s.cats_) if i in s.codes_]
        return _Pruned(_CatIndex(kept))


class _CodedSeries(SymSeries):
    def __init__(self, cats, codes, lo=0, hi=None, stripped=False):
        n = len(codes)
        nn = 0
        for c in codes:
            nn += (c == -1)
        SymSeries.__init__(self, n, [nn, 0, 0], max(n, 1), pd.CategoricalDtype([0, 1, 2]), "x", len(cats),
                           lo=lo, hi=hi, stripped=stripped)
        self.cats_, self.codes_ = cats, codes

    @property
    def cat(self):
        return _CodedAcc(self)

    def unique(self):
        present = [i in self.codes_ for i in range(len(self.cats_))]
        return _OrderedUnique(self.cats_, present)


def h_cat_stats_nulls(c0: int, c1: int, c2: int, k0: int, k1: int, k2: int) -> bool:
    """
    pre: c0 != c1 and c1 != c2 and c0 != c2
    pre: -1 <= k0 <= 2 and -1 <= k1 <= 2 and -1 <= k2 <= 2
    post: __return__
    """
    # three rows with category codes k0..k2 (-1 = missing) over categories [c0, c1, c2] in any order: min/max are
    # the smallest/largest value that occurs; none when every cell is missing; null_count = number of -1
    cats, codes = [c0, c1, c2], [k0, k1, k2]
    data = _CodedSeries(cats, codes)
    f = SymFile(4)
    f.seek(4)
    ctx = Ctx([20, 20, 20, 20], [5, 5, 5], [3, 3, 3], [1, 1, 1], 24, 9)
    wc = build(ctx, f)
    se = parquet_thrift.SchemaElement(type=parquet_thrift.Type.INT64, name="x", repetition_type=1)
    chunk = wc(f, data, se, compression=None, datapage_version=1, stats=True)
    st = chunk.meta_data.statistics
    present = [cats[k] for k in codes if k >= 0]
    nn = len([k for k in codes if k == -1])
    if st.null_count != nn:
        return False
    if not present:
        return st.max is None and st.min is None
    return st.max == ("plain-stat", max(present)) and st.min == ("plain-stat", min(present))


def replay_h_cat_stats_nulls(c0, c1, c2, k0, k1, k2):
    import os, shutil, tempfile
    import pandas as pd
    import fastparquet
    cats, codes = [c0, c1, c2], [k0, k1, k2]
    df = pd.DataFrame({"x": pd.Categorical.from_codes(codes, categories=cats)})
    present = [cats[k] for k in codes if k >= 0]
    d = tempfile.mkdtemp(prefix="c04-")
    try:
        fn = os.path.join(d, "t.parq")
        try:
            fastparquet.write(fn, df, stats=True)
        except Exception as ex:
            return False, "write raised %s" % type(ex).__name__
        pf = fastparquet.ParquetFile(fn)
        st = pf.statistics
        mx, mn, nc = st["max"]["x"][0], st["min"]["x"][0], st["null_count"]["x"][0]
        want = (max(present), min(present)) if present else (None, None)
        if (mx, mn) != want or nc != codes.count(-1):
            return True, "categorical column with categories %r and codes %r: statistics say min=%r max=%r " \
                         "null_count=%r, stored values give min=%r max=%r null_count=%d" % (
                             cats, codes, mn, mx, nc, want[1], want[0], codes.count(-1))
        return False, "statistics exact"
    finally:
        shutil.rmtree(d, ignore_errors=True)
