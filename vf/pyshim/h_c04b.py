"""C04-S3/S4: which columns get statistics (real writer.make_row_group) and the derived list of columns sorted across
row groups (real api.sorted_partitioned_columns over symbolic per-row-group bounds)."""
from typing import List, Optional

from vf.pyshim.kit import REPLAY

import fastparquet.api as api
import fastparquet.writer as writer
from fastparquet import parquet_thrift


# ----------------------------------------------------------------------- S4 ---
class _PFs:
    """handle shim: `statistics` is the per-handle cache the real property returns (one dict object, reused)"""
    columns = ["a"]

    def __init__(self, mins=(), maxs=()):
        self.statistics = {"min": {"a": list(mins)}, "max": {"a": list(maxs)}}


def h_sorted_columns(mn0: Optional[int], mx0: Optional[int], mn1: Optional[int], mx1: Optional[int],
                     mn2: Optional[int], mx2: Optional[int], n: int) -> bool:
    """
    pre: 1 <= n <= 3
    pre: (mn0 is None or mx0 is None or mn0 <= mx0) and (mn1 is None or mx1 is None or mn1 <= mx1)
    pre: (mn2 is None or mx2 is None or mn2 <= mx2)
    post: __return__
    """
    # per-row-group bounds of column a (None = no statistic): the column is reported as sorted across row groups only
    # if every bound is known and each group's max lies strictly below the next group's min
    mins, maxs = [mn0, mn1, mn2][:n], [mx0, mx1, mx2][:n]
    saved = api.statistics
    api.statistics = lambda pf: {"min": {"a": list(mins)}, "max": {"a": list(maxs)}}
    try:
        out = api.sorted_partitioned_columns(_PFs(mins, maxs))
    finally:
        api.statistics = saved
    known = all(x is not None for x in mins + maxs)
    really = known and all(maxs[i] < mins[i + 1] for i in range(n - 1))
    if "a" in out:
        return really and out["a"] == {"min": mins, "max": maxs}
    return not really


def replay_h_sorted_columns(mn0, mx0, mn1, mx1, mn2, mx2, n):
    import os, shutil, tempfile
    import pandas as pd
    import fastparquet
    mins, maxs = [mn0, mn1, mn2][:n], [mx0, mx1, mx2][:n]
    vals, offs = [], []
    for a, b in zip(mins, maxs):
        offs.append(len(vals))
        lo = a if a is not None else (b if b is not None else 0)
        hi = b if b is not None else lo
        vals += [lo, hi]
    d = tempfile.mkdtemp(prefix="c04-")
    try:
        fn = os.path.join(d, "t.parq")
        fastparquet.write(fn, pd.DataFrame({"a": vals}), row_group_offsets=offs, stats=True)
        if any(x is None for x in mins + maxs):
            # a chunk statistic without one bound: edit the footer (fastparquet's writer always writes both)
            from vf.pyshim.realfile import rewrite_footer

            def mutate(fmd):
                for i, rg in enumerate(fmd.row_groups):
                    st = rg.columns[0].meta_data.statistics
                    if mins[i] is None:
                        st.min = None
                        st.min_value = None
                    if maxs[i] is None:
                        st.max = None
                        st.max_value = None
            rewrite_footer(fn, mutate)
        out = api.sorted_partitioned_columns(fastparquet.ParquetFile(fn))
        really = all(x is not None for x in mins + maxs) and all(maxs[i] < mins[i + 1] for i in range(n - 1))
        if ("a" in out) != really:
            return True, "row groups with bounds %r are %sreported as sorted" % (list(zip(mins, maxs)),
                                                                                 "" if "a" in out else "not ")
        return False, "agrees"
    finally:
        shutil.rmtree(d, ignore_errors=True)


def h_sorted_columns_filtered(mn0: int, mx0: int, mn1: int, mx1: int, mn2: int, mx2: int,
                              k0: bool, k1: bool, k2: bool, twice: bool) -> bool:
    """
    pre: mn0 <= mx0 and mn1 <= mx1 and mn2 <= mx2
    post: __return__
    """
    # with filters, sortedness is judged over the row groups the filter keeps - and the handle's cached statistics
    # (what pf.statistics returns afterwards) still describe every row group
    mins, maxs = [mn0, mn1, mn2], [mx0, mx1, mx2]
    keep = [i for i, k in enumerate((k0, k1, k2)) if k]
    pf = _PFs(mins, maxs)
    saved = (api.statistics, api.filter_row_groups)
    api.statistics = lambda h: {"min": {"a": list(mins)}, "max": {"a": list(maxs)}}
    api.filter_row_groups = lambda h, filters, as_idx=False: list(keep)        # contract: indices of kept groups (C05)
    try:
        out = api.sorted_partitioned_columns(pf, filters=[("g", "in", keep)])
        if twice:
            out = api.sorted_partitioned_columns(pf, filters=[("g", "in", keep)])
    finally:
        api.statistics, api.filter_row_groups = saved
    if pf.statistics != {"min": {"a": mins}, "max": {"a": maxs}}:
        return False
    kmins, kmaxs = [mins[i] for i in keep], [maxs[i] for i in keep]
    really = len(keep) > 0 and all(kmaxs[i] < kmins[i + 1] for i in range(len(keep) - 1))
    if "a" in out:
        return really and out["a"] == {"min": kmins, "max": kmaxs}
    return not really


def replay_h_sorted_columns_filtered(mn0, mx0, mn1, mx1, mn2, mx2, k0, k1, k2, twice):
    import copy, os, shutil, tempfile
    import pandas as pd
    import fastparquet
    mins, maxs = [mn0, mn1, mn2], [mx0, mx1, mx2]
    keep = [i for i, k in enumerate((k0, k1, k2)) if k]
    vals, grp, offs = [], [], []
    for i, (a, b) in enumerate(zip(mins, maxs)):
        offs.append(len(vals))
        vals += [a, b]
        grp += [i, i]
    d = tempfile.mkdtemp(prefix="c04-")
    try:
        fn = os.path.join(d, "t.parq")
        fastparquet.write(fn, pd.DataFrame({"a": vals, "g": grp}), row_group_offsets=offs, stats=True)
        pf = fastparquet.ParquetFile(fn)
        before = copy.deepcopy(pf.statistics)
        filters = [("g", "in", keep)]
        try:
            out = api.sorted_partitioned_columns(pf, filters=filters)
            if twice:
                out = api.sorted_partitioned_columns(pf, filters=filters)
        except Exception as ex:
            return True, "sorted_partitioned_columns(filters=%r) raised %r" % (filters, ex)
        after = pf.statistics
        if after != before:
            return True, "pf.statistics changed after sorted_partitioned_columns(filters=%r): min of a %r -> %r" % (
                filters, before["min"]["a"], after["min"]["a"])
        kmins, kmaxs = [mins[i] for i in keep], [maxs[i] for i in keep]
        really = len(keep) > 0 and all(kmaxs[i] < kmins[i + 1] for i in range(len(keep) - 1))
        if ("a" in out) != really:
            return True, "kept row groups with bounds %r are %sreported as sorted" % (
                list(zip(kmins, kmaxs)), "" if "a" in out else "not ")
        return False, "agrees"
    finally:
        shutil.rmtree(d, ignore_errors=True)


# ----------------------------------------------------------------------- S3 ---
class _DT:
    def __init__(self, kind):
        self.kind = kind


class _ColData:
    def __init__(self, kind):
        self.dtype = _DT(kind)


class _Frame:
    def __init__(self, kinds):
        self.kinds = kinds
        self.columns = list(kinds)

    def __len__(self):
        return 3

    def __iter__(self):
        return iter(self.columns)

    def __getitem__(self, name):
        return _ColData(self.kinds[name])


KINDS = ["i", "u", "f", "M", "O", "b", "m"]


def h_stats_selection(mode: int, k0: int, k1: int, pick0: bool, pick1: bool) -> bool:
    """
    pre: 0 <= mode <= 3 and 0 <= k0 < 7 and 0 <= k1 < 7
    post: __return__
    """
    # stats=True -> every column; False -> none; 'auto' -> integer/unsigned/float/datetime columns only;
    # a list -> exactly the named columns
    frame = _Frame({"c0": KINDS[k0], "c1": KINDS[k1]})
    schema = [parquet_thrift.SchemaElement(name="schema", num_children=2),
              parquet_thrift.SchemaElement(name="c0", type=2), parquet_thrift.SchemaElement(name="c1", type=2)]
    picked = [n for n, p in (("c0", pick0), ("c1", pick1)) if p]
    stats = [True, False, "auto", picked][mode]
    seen = {}

    def write_column(f, coldata, column, compression=None, stats=True):
        seen[column.name] = stats
        md = parquet_thrift.ColumnMetaData(type=2, path_in_schema=[column.name], num_values=3,
                                           total_uncompressed_size=1)
        return parquet_thrift.ColumnChunk(meta_data=md)
    saved = (writer.write_column, writer.pd)
    writer.write_column = write_column

    class _PDm:
        class MultiIndex:
            pass
    writer.pd = _PDm
    try:
        writer.make_row_group(None, frame, schema, stats=stats)
    finally:
        writer.write_column, writer.pd = saved
    want = {}
    for name, kind in (("c0", KINDS[k0]), ("c1", KINDS[k1])):
        if mode == 0:
            want[name] = True
        elif mode == 1:
            want[name] = False
        elif mode == 2:
            want[name] = kind in ("i", "u", "f", "M")
        else:
            want[name] = name in picked
    return {k: bool(v) for k, v in seen.items()} == want


def replay_h_stats_selection(mode, k0, k1, pick0, pick1):
    import os, shutil, tempfile
    import numpy as np
    import pandas as pd
    import fastparquet
    mk = {"i": lambda: np.array([1, 2, 3], dtype="int64"), "u": lambda: np.array([1, 2, 3], dtype="uint32"),
          "f": lambda: np.array([1.5, 2.5, 3.5]), "M": lambda: pd.to_datetime(["2020-01-01", "2020-01-02", "2020-01-03"]),
          "O": lambda: np.array(["a", "b", "c"], dtype=object), "b": lambda: np.array([True, False, True]),
          "m": lambda: pd.to_timedelta([1, 2, 3], unit="s")}
    df = pd.DataFrame({"c0": mk[KINDS[k0]](), "c1": mk[KINDS[k1]]()})
    picked = [n for n, p in (("c0", pick0), ("c1", pick1)) if p]
    stats = [True, False, "auto", picked][mode]
    d = tempfile.mkdtemp(prefix="c04-")
    try:
        fn = os.path.join(d, "t.parq")
        fastparquet.write(fn, df, stats=stats)
        pf = fastparquet.ParquetFile(fn)
        got = {}
        for col in pf.row_groups[0].columns:
            st = col.meta_data.statistics
            got[col.meta_data.path_in_schema[0]] = st is not None and (st.max is not None or st.max_value is not None)
        want = {}
        for name, kind in (("c0", KINDS[k0]), ("c1", KINDS[k1])):
            want[name] = [True, False, kind in ("i", "u", "f", "M"), name in picked][mode]
        if got != want:
            return True, "stats=%r on columns of kinds %r: min/max present %r, documented rule gives %r" % (
                stats, [KINDS[k0], KINDS[k1]], got, want)
        return False, "agrees"
    finally:
        shutil.rmtree(d, ignore_errors=True)
