"""Spec-level builder of a one-column flat Parquet file (REQUIRED INT32/INT64, data page v1 or v2, PLAIN or
DELTA_BINARY_PACKED), used to replay decoder / call-site witnesses through ParquetFile.to_pandas()."""
import os
import struct


def _uleb(n):
    out = bytearray()
    while n > 127:
        out.append((n & 0x7f) | 0x80)
        n >>= 7
    out.append(n)
    return bytes(out)


def _zz(n, bits=64):
    return ((n << 1) ^ (n >> (bits - 1))) & ((1 << bits) - 1)


def delta_encode(values, block=128, minis=4):
    """DELTA_BINARY_PACKED per Encodings.md (values: Python ints, 64-bit arithmetic)"""
    out = bytearray(_uleb(block) + _uleb(minis) + _uleb(len(values)) + _uleb(_zz(values[0] if values else 0)))
    deltas = [values[i + 1] - values[i] for i in range(len(values) - 1)]
    vpm = block // minis
    for b in range(0, len(deltas), block):
        blk = deltas[b:b + block]
        md = min(blk)
        out += _uleb(_zz(md))
        adj = [d - md for d in blk] + [0] * (block - len(blk))
        widths = []
        for m in range(minis):
            part = adj[m * vpm:(m + 1) * vpm]
            used = m * vpm < len(blk)
            widths.append(max(x.bit_length() for x in part) if used else 0)
        out += bytes(widths)
        for m in range(minis):
            if m * vpm >= len(blk):
                break
            w = widths[m]
            bits = 0
            for i, x in enumerate(adj[m * vpm:(m + 1) * vpm]):
                bits |= x << (i * w)
            out += bits.to_bytes(vpm * w // 8, "little")
    return bytes(out)


def _snappy(b):
    from fastparquet.compression import compress_data
    return bytes(compress_data(b, "SNAPPY"))


def build(path, values, bits=64, version=2, delta=True, compress=False):
    from fastparquet import parquet_thrift as pt
    ptype = 2 if bits == 64 else 1
    body = delta_encode(values) if delta else b"".join(struct.pack("<q" if bits == 64 else "<i", v) for v in values)
    enc = 5 if delta else 0
    data = bytearray(b"PAR1")
    start = len(data)
    ulen = len(body)
    if version == 2:
        if compress:
            body = _snappy(body)
        dph = pt.DataPageHeaderV2(num_values=len(values), num_nulls=0, num_rows=len(values), encoding=enc,
                                  definition_levels_byte_length=0, repetition_levels_byte_length=0,
                                  is_compressed=bool(compress), i32=1)
        ph = pt.PageHeader(type=3, uncompressed_page_size=ulen, compressed_page_size=len(body),
                           data_page_header_v2=dph, i32=1)
    else:
        dph = pt.DataPageHeader(num_values=len(values), encoding=enc, definition_level_encoding=3,
                                repetition_level_encoding=3, i32=1)
        ph = pt.PageHeader(type=0, uncompressed_page_size=len(body), compressed_page_size=len(body),
                           data_page_header=dph, i32=1)
    data += bytes(ph.to_bytes()) + body
    size = len(data) - start
    md = pt.ColumnMetaData(type=ptype, encodings=[enc], path_in_schema=["x"], codec=1 if compress else 0,
                           num_values=len(values), total_uncompressed_size=size, total_compressed_size=size,
                           data_page_offset=start, i32list=[1, 4])
    rg = pt.RowGroup(columns=[pt.ColumnChunk(file_offset=start, meta_data=md)], total_byte_size=size,
                     num_rows=len(values))
    schema = [pt.SchemaElement(name="schema", num_children=1),
              pt.SchemaElement(name="x", type=ptype, repetition_type=0)]
    fmd = pt.FileMetaData(version=1, schema=schema, num_rows=len(values), row_groups=[rg],
                          created_by="spec-level builder", i32list=[1])
    foot = bytes(fmd.to_bytes())
    data += foot + struct.pack("<I", len(foot)) + b"PAR1"
    with open(path, "wb") as f:
        f.write(bytes(data))


def roundtrip(values, bits, version, delta):
    """(ok, info): file built from the specification reads back as `values`"""
    import shutil, tempfile
    import fastparquet
    d = tempfile.mkdtemp(prefix="c03-")
    try:
        fn = os.path.join(d, "flat.parq")
        build(fn, values, bits, version, delta)
        try:
            out = [int(x) for x in fastparquet.ParquetFile(fn).to_pandas()["x"]]
        except Exception as ex:
            return False, "%s: %s" % (type(ex).__name__, str(ex)[:100])
        if out != list(values):
            return False, "reads %r..., file encodes %r..." % (out[:6], list(values)[:6])
        return True, "agrees"
    finally:
        shutil.rmtree(d, ignore_errors=True)


def _hybrid_bitpacked(vals, width):
    """one bit-packed run covering all values (padded to a multiple of 8)"""
    groups = (len(vals) + 7) // 8
    padded = list(vals) + [0] * (groups * 8 - len(vals))
    bits = 0
    for i, v in enumerate(padded):
        bits |= v << (i * width)
    return _uleb((groups << 1) | 1) + bits.to_bytes(groups * width, "little")


def build_dict(path, dictionary, indices, width, nulls=None, optional=False, pages=1, stats_null_count="absent",
               version=1, page_rows=None, compress=False, split_runs=False, rle_levels=False):
    """flat INT64 column, data page v1 (or v2), RLE_DICTIONARY: a PLAIN dictionary page followed by `pages` data pages
    (or one page per entry of page_rows) whose indices are one bit-packed run of the given width; nulls (list of bool
    per row) only when optional"""
    from fastparquet import parquet_thrift as pt
    n = len(nulls) if nulls is not None else len(indices)
    nulls = list(nulls) if nulls is not None else [False] * n
    data = bytearray(b"PAR1")
    start = len(data)
    dbody = b"".join(struct.pack("<q", v) for v in dictionary)
    dulen = len(dbody)
    if compress:
        dbody = _snappy(dbody)
    dph = pt.PageHeader(type=2, uncompressed_page_size=dulen, compressed_page_size=len(dbody),
                        dictionary_page_header=pt.DictionaryPageHeader(num_values=len(dictionary), encoding=0, i32=1),
                        i32=1)
    data += bytes(dph.to_bytes()) + dbody
    data_start = len(data)
    per = (n + pages - 1) // pages if pages else n
    it = iter(indices)
    if page_rows:
        bounds, a = [], 0
        for r in page_rows:
            bounds.append((a, a + r))
            a += r
    else:
        bounds = [(a, a + per) for a in range(0, n, max(per, 1))]
    for a, b in bounds:
        rows = nulls[a:b]
        idx = [next(it) for isnull in rows if not isnull]
        body, lv = b"", b""
        if optional:
            if rle_levels:
                # the same levels as RLE runs of one value each (run header 1 << 1, then the value): two bytes per row
                lv = b"".join(_uleb(2) + bytes([0 if x else 1]) for x in rows)
            else:
                lv = _hybrid_bitpacked([0 if x else 1 for x in rows], 1)
            body += (struct.pack("<I", len(lv)) if version == 1 else b"") + lv
        if split_runs and width:
            # the same indices as several bit-packed runs of one group (8 values) each
            vbytes = bytes([width]) + b"".join(_hybrid_bitpacked(idx[g:g + 8], width) for g in range(0, len(idx), 8))
        else:
            vbytes = bytes([width]) + (_hybrid_bitpacked(idx, width) if width else b"")
        ulen = len(body) + len(vbytes)
        if compress and version == 1:
            body = _snappy(body + vbytes)           # v1: levels and values are compressed together
        else:
            body += _snappy(vbytes) if compress else vbytes
        if version == 2:
            h2 = pt.DataPageHeaderV2(num_values=len(rows), num_nulls=sum(1 for x in rows if x), num_rows=len(rows),
                                     encoding=8, definition_levels_byte_length=len(lv),
                                     repetition_levels_byte_length=0, is_compressed=bool(compress), i32=1)
            ph = pt.PageHeader(type=3, uncompressed_page_size=ulen, compressed_page_size=len(body),
                               data_page_header_v2=h2, i32=1)
        else:
            ph = pt.PageHeader(type=0, uncompressed_page_size=ulen, compressed_page_size=len(body),
                               data_page_header=pt.DataPageHeader(num_values=len(rows), encoding=8,
                                                                  definition_level_encoding=3,
                                                                  repetition_level_encoding=3, i32=1), i32=1)
        data += bytes(ph.to_bytes()) + body
    size = len(data) - start
    extra = {}
    if stats_null_count != "absent":
        # chunk statistics as another writer may store them (null_count is optional in the format)
        extra["statistics"] = pt.Statistics(null_count=stats_null_count, max=struct.pack("<q", max(dictionary)),
                                            min=struct.pack("<q", min(dictionary)))
    md = pt.ColumnMetaData(type=2, encodings=[0, 3, 8], path_in_schema=["x"], codec=1 if compress else 0, num_values=n,
                           total_uncompressed_size=size, total_compressed_size=size, data_page_offset=data_start,
                           dictionary_page_offset=start, i32list=[1, 4], **extra)
    rg = pt.RowGroup(columns=[pt.ColumnChunk(file_offset=start, meta_data=md)], total_byte_size=size, num_rows=n)
    schema = [pt.SchemaElement(name="schema", num_children=1),
              pt.SchemaElement(name="x", type=2, repetition_type=1 if optional else 0)]
    fmd = pt.FileMetaData(version=1, schema=schema, num_rows=n, row_groups=[rg],
                          created_by="spec-level builder", i32list=[1])
    foot = bytes(fmd.to_bytes())
    data += foot + struct.pack("<I", len(foot)) + b"PAR1"
    with open(path, "wb") as f:
        f.write(bytes(data))


def roundtrip_dict(nulls, width, optional):
    """(ok, info): a dictionary-encoded file whose indices reach the top of the width's range reads back right"""
    import shutil, tempfile
    import fastparquet
    d = tempfile.mkdtemp(prefix="c03-")
    try:
        # not a power of two: an index that wrapped negative must not land on the right entry by accident
        size = (min(1 << width, 1030) - (3 if width >= 2 else 0)) if width else 1
        dictionary = [1000 + 3 * i for i in range(size)]
        nval = sum(1 for x in nulls if not x)
        picks = [size - 1, size // 2, 0, size - 1 - (size > 1), 1 % size]
        indices = [picks[i % len(picks)] for i in range(nval)]
        fn = os.path.join(d, "dict.parq")
        build_dict(fn, dictionary, indices, width, nulls=nulls, optional=optional)
        want, it = [], iter(indices)
        for isnull in nulls:
            want.append(None if isnull else dictionary[next(it)])
        try:
            col = fastparquet.ParquetFile(fn).to_pandas()["x"]
            import pandas as pd
            out = [None if pd.isna(x) else int(x) for x in col.astype("object")]
        except Exception as ex:
            return False, "%s: %s" % (type(ex).__name__, str(ex)[:100])
        if out != want:
            return False, "dictionary of %d entries, index width %d: reads %r, file encodes %r" % (
                size, width, out[:6], want[:6])
        return True, "agrees"
    finally:
        shutil.rmtree(d, ignore_errors=True)
