"""Spec-level builder of a one-column flat Parquet file (REQUIRED INT32/INT64, data page v1 or v2, PLAIN or
DELTA_BINARY_PACKED), used to replay decoder / call-site witnesses through ParquetFile.to_pandas()."""
import os
import struct


def _uleb(n):
    out = bytearray()
    while n > 127:
        out.append((n & 0x7f) | 0x80)
        n >>= 7
    out.append(n)
    return bytes(out)


def _zz(n, bits=64):
    return ((n << 1) ^ (n >> (bits - 1))) & ((1 << bits) - 1)


def delta_encode(values, block=128, minis=4):
    """DELTA_BINARY_PACKED per Encodings.md (values: Python ints, 64-bit arithmetic)"""
    out = bytearray(_uleb(block) + _uleb(minis) + _uleb(len(values)) + _uleb(_zz(values[0] if values else 0)))
    deltas = [values[i + 1] - values[i] for i in range(len(values) - 1)]
    vpm = block // minis
    for b in range(0, len(deltas), block):
        blk = deltas[b:b + block]
        md = min(blk)
        out += _uleb(_zz(md))
        adj = [d - md for d in blk] + [0] * (block - len(blk))
        widths = []
        for m in range(minis):
            part = adj[m * vpm:(m + 1) * vpm]
            used = m * vpm < len(blk)
            widths.append(max(x.bit_length() for x in part) if used else 0)
        out += bytes(widths)
        for m in range(minis):
            if m * vpm >= len(blk):
                break
            w = widths[m]
            bits = 0
            for i, x in enumerate(adj[m * vpm:(m + 1) * vpm]):
                bits |= x << (i * w)
            out += bits.to_bytes(vpm * w // 8, "little")
    return bytes(out)


def build(path, values, bits=64, version=2, delta=True):
    from fastparquet import parquet_thrift as pt
    ptype = 2 if bits == 64 else 1
    body = delta_encode(values) if delta else b"".join(struct.pack("<q" if bits == 64 else "<i", v) for v in values)
    enc = 5 if delta else 0
    data = bytearray(b"PAR1")
    start = len(data)
    if version == 2:
        dph = pt.DataPageHeaderV2(num_values=len(values), num_nulls=0, num_rows=len(values), encoding=enc,
                                  definition_levels_byte_length=0, repetition_levels_byte_length=0,
                                  is_compressed=False, i32=1)
        ph = pt.PageHeader(type=3, uncompressed_page_size=len(body), compressed_page_size=len(body),
                           data_page_header_v2=dph, i32=1)
    else:
        dph = pt.DataPageHeader(num_values=len(values), encoding=enc, definition_level_encoding=3,
                                repetition_level_encoding=3, i32=1)
        ph = pt.PageHeader(type=0, uncompressed_page_size=len(body), compressed_page_size=len(body),
                           data_page_header=dph, i32=1)
    data += bytes(ph.to_bytes()) + body
    size = len(data) - start
    md = pt.ColumnMetaData(type=ptype, encodings=[enc], path_in_schema=["x"], codec=0, num_values=len(values),
                           total_uncompressed_size=size, total_compressed_size=size, data_page_offset=start,
                           i32list=[1, 4])
    rg = pt.RowGroup(columns=[pt.ColumnChunk(file_offset=start, meta_data=md)], total_byte_size=size,
                     num_rows=len(values))
    schema = [pt.SchemaElement(name="schema", num_children=1),
              pt.SchemaElement(name="x", type=ptype, repetition_type=0)]
    fmd = pt.FileMetaData(version=1, schema=schema, num_rows=len(values), row_groups=[rg],
                          created_by="spec-level builder", i32list=[1])
    foot = bytes(fmd.to_bytes())
    data += foot + struct.pack("<I", len(foot)) + b"PAR1"
    with open(path, "wb") as f:
        f.write(bytes(data))


def roundtrip(values, bits, version, delta):
    """(ok, info): file built from the specification reads back as `values`"""
    import shutil, tempfile
    import fastparquet
    d = tempfile.mkdtemp(prefix="c03-")
    try:
        fn = os.path.join(d, "flat.parq")
        build(fn, values, bits, version, delta)
        try:
            out = [int(x) for x in fastparquet.ParquetFile(fn).to_pandas()["x"]]
        except Exception as ex:
            return False, "%s: %s" % (type(ex).__name__, str(ex)[:100])
        if out != list(values):
            return False, "reads %r..., file encodes %r..." % (out[:6], list(values)[:6])
        return True, "agrees"
    finally:
        shutil.rmtree(d, ignore_errors=True)
