"""C15: MAP columns - the key/value zipping of the real core.read_row_group_arrays.  The two leaf chunks of a MAP column
(keys, values) are each assembled into per-row lists (that is _assemble_objects' job, checked separately); the real
read_row_group_arrays must combine them row by row into dicts: NULL row -> None, empty map -> {}, NULL values kept."""
from typing import List, Optional

from vf.pyshim.kit import REPLAY

import fastparquet.core as core
from fastparquet import parquet_thrift
from fastparquet.schema import SchemaHelper


def _schema(opt_map):
    return [parquet_thrift.SchemaElement(name="schema", num_children=2),
            parquet_thrift.SchemaElement(name="m", num_children=1, repetition_type=1 if opt_map else 0, converted_type=1),
            parquet_thrift.SchemaElement(name="key_value", num_children=2, repetition_type=2),
            parquet_thrift.SchemaElement(name="key", type=2, repetition_type=0),
            parquet_thrift.SchemaElement(name="value", type=2, repetition_type=1),
            parquet_thrift.SchemaElement(name="x", type=2, repetition_type=0)]


class _OArr:
    """object column (numpy object array contract: copy(), whole-slice assignment, iteration)"""

    def __init__(self, items):
        self.items = list(items)

    def copy(self):
        return _OArr(self.items)

    def __setitem__(self, k, v):
        if not (isinstance(k, slice) and k.start is None and k.stop is None):
            raise IndexError(k)
        if isinstance(v, list):
            if len(v) != len(self.items):
                raise ValueError("shape mismatch")
            self.items = list(v)
        else:
            self.items = [v] * len(self.items)

    def __iter__(self):
        return iter(self.items)

    def __len__(self):
        return len(self.items)


def _row(kind, k0, k1, v0, v1, null_v):
    """(keys, values) lists of one row: kind 0 NULL map, 1 empty map, 2 one entry, 3 two entries"""
    if kind == 0:
        return None, None
    if kind == 1:
        return [], []
    if kind == 2:
        return [k0], [None if null_v else v0]
    return [k0, k1], [None if null_v else v0, v1]


def h_map_zip(kind0: int, kind1: int, k0: int, k1: int, v0: int, v1: int, null_v: bool, opt_map: bool) -> bool:
    """
    pre: 0 <= kind0 <= 3 and 0 <= kind1 <= 3 and k0 != k1
    pre: opt_map or (kind0 > 0 and kind1 > 0)
    post: __return__
    """
    rows = [_row(kind0, k0, k1, v0, v1, null_v), _row(kind1, k1, k0, v1, v0, False)]
    helper = SchemaHelper(_schema(opt_map))
    chunks = []
    for path in (["m", "key_value", "key"], ["m", "key_value", "value"], ["x"]):
        md = parquet_thrift.ColumnMetaData(type=2, path_in_schema=path, num_values=2)
        chunks.append(parquet_thrift.ColumnChunk(meta_data=md))
    rg = parquet_thrift.RowGroup(columns=chunks, num_rows=2)
    out = {"m": _OArr([None, None]), "x": _OArr([0, 0])}

    def read_col(column, schema_helper, file, use_cat=False, selfmade=False, assign=None, catdef=None,
                 row_filter=None):
        leaf = column.meta_data.path_in_schema[-1]
        if leaf == "key":
            assign[:] = [r[0] for r in rows]
        elif leaf == "value":
            assign[:] = [r[1] for r in rows]
        else:
            assign[:] = [7, 8]
    saved = core.read_col
    core.read_col = read_col
    try:
        core.read_row_group_arrays(None, rg, ["m", "x"], None, helper, {}, assign=out)
    finally:
        core.read_col = saved
    want = [None if ks is None else dict(zip(ks, vs)) for ks, vs in rows]
    return out["m"].items == want and out["x"].items == [7, 8]


def replay_h_map_zip(kind0, kind1, k0, k1, v0, v1, null_v, opt_map):
    """a real file with one MAP<int64,int64> column built from the specification, read through to_pandas"""
    import os, shutil, tempfile
    import fastparquet
    from vf.pyxlift import nested_file
    rows = [_row(kind0, k0, k1, v0, v1, null_v), _row(kind1, k1, k0, v1, v0, False)]
    want = [None if ks is None else dict(zip(ks, vs)) for ks, vs in rows]
    d = tempfile.mkdtemp(prefix="c15-")
    try:
        fn = os.path.join(d, "map.parq")
        nested_file.build_map(fn, rows, opt_map)
        try:
            out = fastparquet.ParquetFile(fn).to_pandas()["m"].tolist()
        except Exception as ex:
            return True, "MAP column with rows %r cannot be read: %s: %s" % (want, type(ex).__name__, str(ex)[:80])
        got = [None if r is None else {int(k): (None if v is None else int(v)) for k, v in r.items()} for r in out]
        if got != want:
            return True, "MAP column with rows %r reads as %r" % (want, got)
        return False, "agrees"
    finally:
        shutil.rmtree(d, ignore_errors=True)
