"""Schema level functions (C15 / C03): real schema.SchemaHelper.max_definition_level / max_repetition_level /
is_required and _is_list_like / _is_map_like over schema shapes whose repetition types are symbolic."""
from typing import List

from vf.pyshim.kit import REPLAY

from fastparquet import parquet_thrift
from fastparquet.schema import SchemaHelper, _is_list_like, _is_map_like

REQ, OPT, REP = 0, 1, 2


def _nested(r1, r2, r3, ct, et=2):
    return [parquet_thrift.SchemaElement(name="schema", num_children=2),
            parquet_thrift.SchemaElement(name="flat", type=2, repetition_type=r3),
            parquet_thrift.SchemaElement(name="col", num_children=1, repetition_type=r1, converted_type=ct),
            parquet_thrift.SchemaElement(name="list", num_children=1, repetition_type=r2),
            parquet_thrift.SchemaElement(name="element", type=et, repetition_type=r3)]


def h_levels(r1: int, r2: int, r3: int) -> bool:
    """
    pre: 0 <= r1 <= 2 and 0 <= r2 <= 2 and 0 <= r3 <= 2
    post: __return__
    """
    # path col.list.element with arbitrary repetition types: max definition level = number of non-required
    # elements on the path, max repetition level = number of repeated ones, required iff every element is required
    h = SchemaHelper(_nested(r1, r2, r3, 3))
    path = ["col", "list", "element"]
    reps = [r1, r2, r3]
    want_def = len([r for r in reps if r != REQ])
    want_rep = len([r for r in reps if r == REP])
    ok = h.max_definition_level(path) == want_def and h.max_repetition_level(path) == want_rep
    ok = ok and h.is_required(path) == (want_def == 0) and h.is_required(["col"]) == (r1 == REQ)
    ok = ok and h.max_definition_level(["flat"]) == (0 if r3 == REQ else 1)
    ok = ok and h.is_required("col.list") == (r1 == REQ and r2 == REQ)
    return ok


def replay_h_levels(r1, r2, r3):
    return (not h_levels(r1, r2, r3)), "schema level functions disagree with the format's definition for repetition " \
                                       "types %r" % ([r1, r2, r3],)


def h_levels_two_columns(a1: int, a2: int, a3: int, b1: int, b2: int, b3: int) -> bool:
    """
    pre: all(0 <= r <= 2 for r in (a1, a2, a3, b1, b2, b3))
    post: __return__
    """
    # two nested columns in one schema: their inner fields carry the same names (list / element) with independent
    # repetition types - the levels of each path are those of its own elements
    els = [parquet_thrift.SchemaElement(name="schema", num_children=2),
           parquet_thrift.SchemaElement(name="a", num_children=1, repetition_type=a1, converted_type=3),
           parquet_thrift.SchemaElement(name="list", num_children=1, repetition_type=a2),
           parquet_thrift.SchemaElement(name="element", type=2, repetition_type=a3),
           parquet_thrift.SchemaElement(name="b", num_children=1, repetition_type=b1, converted_type=3),
           parquet_thrift.SchemaElement(name="list", num_children=1, repetition_type=b2),
           parquet_thrift.SchemaElement(name="element", type=2, repetition_type=b3)]
    h = SchemaHelper(els)
    ok = True
    for col, reps in (("a", [a1, a2, a3]), ("b", [b1, b2, b3])):
        path = [col, "list", "element"]
        want_def = len([r for r in reps if r != REQ])
        want_rep = len([r for r in reps if r == REP])
        ok = ok and h.max_definition_level(path) == want_def and h.max_repetition_level(path) == want_rep
        ok = ok and h.is_required(path) == (want_def == 0)
        ok = ok and h.schema_element(path).repetition_type == reps[2]
        ok = ok and h.max_definition_level(".".join(path)) == want_def
    return ok


def replay_h_levels_two_columns(a1, a2, a3, b1, b2, b3):
    """a file built from the specification with two LIST columns of the witness's nullabilities, read back"""
    import os, shutil, tempfile
    if (a1, b1) != (OPT, OPT) and (a1, b1) != (REQ, REQ) or a2 != REP or b2 != REP or REP in (a1, a3, b1, b3):
        bad = not h_levels_two_columns(a1, a2, a3, b1, b2, b3)
        return bad, "schema level functions disagree with the format's definition for two nested columns with " \
                    "repetition types %r / %r" % ([a1, a2, a3], [b1, b2, b3])
    import fastparquet
    from vf.pyxlift import nested_file
    d = tempfile.mkdtemp(prefix="c15-")
    try:
        fn = os.path.join(d, "two.parq")
        rows_a, rows_b = [[1, 2, 3], [4]], [[7], [8, 9]]
        nested_file.build_two_lists(fn, rows_a, a1 == OPT, a3 == OPT, rows_b, b1 == OPT, b3 == OPT)
        try:
            out = fastparquet.ParquetFile(fn).to_pandas()
        except Exception as ex:
            return True, "two LIST columns (nullabilities %r / %r) cannot be read: %s: %s" % (
                [a1, a3], [b1, b3], type(ex).__name__, str(ex)[:80])
        ga = [None if v is None else [int(x) for x in v] for v in out["a"]]
        gb = [None if v is None else [int(x) for x in v] for v in out["b"]]
        if ga != rows_a or gb != rows_b:
            return True, "two LIST columns (list/element nullable: %r / %r) holding %r and %r read back as %r and %r" % (
                [a1 == OPT, a3 == OPT], [b1 == OPT, b3 == OPT], rows_a, rows_b, ga, gb)
        return False, "both columns read back"
    finally:
        shutil.rmtree(d, ignore_errors=True)


class _Col:
    class meta_data:
        path_in_schema = ["col", "list", "element"]


def h_list_shape(r1: int, r2: int, r3: int, ct: int) -> bool:
    """
    pre: 0 <= r1 <= 2 and 0 <= r2 <= 2 and 0 <= r3 <= 2 and ct in (2, 3, 5)
    post: __return__
    """
    # a column is read as a LIST exactly when its group is annotated LIST, the middle level is repeated and the
    # element is not repeated
    h = SchemaHelper(_nested(r1, r2, r3, ct))
    want = ct == parquet_thrift.ConvertedType.LIST and r2 == REP and r3 != REP
    return _is_list_like(h, _Col) == want and _is_map_like(h, _Col) is False


def h_list_shape_types(r2: int, r3: int, et: int, ev: int, mp: bool) -> bool:
    """
    pre: 0 <= r2 <= 2 and 0 <= r3 <= 2 and 0 <= et <= 7 and 0 <= ev <= 7
    post: __return__
    """
    # the same for every physical type of the element / of the map's value (BOOLEAN is type number 0): whether a
    # column is a LIST or a MAP does not depend on what it holds
    if mp:
        els = _map(REQ, r3, r2, 1, ("key", "value"))
        els[3].type, els[4].type = et, ev
        h = SchemaHelper(els)
        return _is_map_like(h, _MCol) == (r2 == REP and r3 != REP)
    h = SchemaHelper(_nested(OPT, r2, r3, 3, et))
    return _is_list_like(h, _Col) == (r2 == REP and r3 != REP)


def replay_h_list_shape_types(r2, r3, et, ev, mp):
    """a LIST<BOOLEAN> / LIST<INT64> file built from the specification is read back as lists"""
    if mp or r2 != REP or r3 == REP or et not in (0, 2):
        return (not h_list_shape_types(r2, r3, et, ev, mp)), "LIST / MAP shape detection depends on the physical type " \
            "of the element (%d) / value (%d)" % (et, ev)
    import os, shutil, tempfile
    import fastparquet
    from vf.pyxlift import nested_file
    d = tempfile.mkdtemp(prefix="c15-")
    try:
        fn = os.path.join(d, "l.parq")
        rows = [[1, 0], [1]]
        nested_file.build_two_lists(fn, rows, True, r3 == OPT, rows, True, r3 == OPT, boolean=(et == 0))
        try:
            out = fastparquet.ParquetFile(fn).to_pandas()["a"]
        except Exception as ex:
            return True, "LIST column of physical type %d cannot be read: %s: %s" % (et, type(ex).__name__, str(ex)[:80])
        got = [None if v is None else [int(x) for x in v] for v in out]
        if got != rows:
            return True, "LIST<%s> column holding %r reads back as %r" % ("BOOLEAN" if et == 0 else "INT64", rows, got)
        return False, "read as lists"
    finally:
        shutil.rmtree(d, ignore_errors=True)


def replay_h_list_shape(r1, r2, r3, ct):
    return (not h_list_shape(r1, r2, r3, ct)), "LIST shape detection wrong for repetition types %r, converted " \
                                               "type %r" % ([r1, r2, r3], ct)


def _map(rk, rv, r2, ct, names):
    return [parquet_thrift.SchemaElement(name="schema", num_children=1),
            parquet_thrift.SchemaElement(name="m", num_children=1, repetition_type=OPT, converted_type=ct),
            parquet_thrift.SchemaElement(name="key_value", num_children=2, repetition_type=r2),
            parquet_thrift.SchemaElement(name=names[0], type=2, repetition_type=rk),
            parquet_thrift.SchemaElement(name=names[1], type=2, repetition_type=rv)]


class _MCol:
    class meta_data:
        path_in_schema = ["m", "key_value", "key"]


def h_map_shape(rk: int, rv: int, r2: int, ct: int, swapped: bool) -> bool:
    """
    pre: 0 <= rk <= 2 and 0 <= rv <= 2 and 0 <= r2 <= 2 and ct in (1, 2, 3)
    post: __return__
    """
    # MAP<required key, optional|required value>: annotated MAP, repeated key_value group with exactly the children
    # key (required) and value (not repeated)
    names = ("value", "key") if swapped else ("key", "value")
    rkey, rval = (rv, rk) if swapped else (rk, rv)
    h = SchemaHelper(_map(rk, rv, r2, ct, names))
    want = ct == parquet_thrift.ConvertedType.MAP and r2 == REP and rkey == REQ and rval != REP
    return _is_map_like(h, _MCol) == want


def replay_h_map_shape(rk, rv, r2, ct, swapped):
    return (not h_map_shape(rk, rv, r2, ct, swapped)), "MAP shape detection wrong for key/value repetition %r/%r, " \
                                                      "group %r, converted type %r" % (rk, rv, r2, ct)
