"""C07 / C19 / C20: writer.make_part_file - one part file of a multi-file dataset.
The caller's metadata object (on an append: the open handle's footer; with a threaded scheduler: shared by the threads
that write the parts) is read, never written; a failing write is reported, not swallowed; the part file is
PAR1 | row group | footer | len32 | PAR1 with a footer describing exactly this row group."""
from typing import List

from vf.pyshim.kit import Seg, REPLAY

import fastparquet.writer as writer
from fastparquet import parquet_thrift


def _pick(v, lo, hi):
    for k in range(lo, hi + 1):
        if v == k:
            return k
    raise ValueError(v)


class _PFile:
    def __init__(self, fail_at, watch):
        self.fail_at, self.watch = fail_at, watch
        self.n, self.log, self.closed, self.bad = 0, [], False, []

    def __enter__(self):
        return self

    def __exit__(self, *a):
        self.closed = True
        return False

    def tell(self):
        return sum(len(x) for x in self.log)

    def write(self, b):
        self.n += 1
        if not self.watch():
            self.bad.append(self.n)          # another thread looking at the shared metadata now would see it changed
        if self.n == self.fail_at:
            raise OSError("injected failure of write call %d" % self.n)
        self.log.append(b)
        return len(b)

    def close(self):
        self.closed = True


def h_make_part_file(rows: int, b0: int, foot: int, fail_at: int, shared: bool) -> bool:
    """
    pre: 0 <= rows <= 1 << 31 and 0 <= b0 <= 1 << 24 and 1 <= foot <= 1 << 20 and 0 <= fail_at <= 5 and shared
    post: __return__
    """
    fail_at = _pick(fail_at, 0, 5)
    old = [parquet_thrift.RowGroup(num_rows=3, columns=[], total_byte_size=1),
           parquet_thrift.RowGroup(num_rows=4, columns=[], total_byte_size=1)]
    fmd = parquet_thrift.FileMetaData(version=1, schema=[parquet_thrift.SchemaElement(name="schema", num_children=0)],
                                      num_rows=7, row_groups=list(old), created_by="x", i32list=[1])
    before = ([id(r.contents) for r in fmd.row_groups], fmd.num_rows)

    def unchanged():
        return ([id(r.contents) for r in fmd.row_groups], fmd.num_rows) == before
    f = _PFile(fail_at, unchanged)
    rg = parquet_thrift.RowGroup(num_rows=rows, columns=[], total_byte_size=b0)
    footers = []

    def make_row_group(fobj, data, schema, compression=None, stats=True):
        fobj.write(Seg("rowgroup", b0))
        return rg

    def write_thrift(fobj, obj):
        footers.append(([id(r.contents) for r in obj.row_groups], obj.num_rows, obj is fmd))
        fobj.write(Seg("footer", foot))
        return foot

    class _Data:
        def __len__(self):
            return rows
    saved = (writer.make_row_group, writer.write_thrift)
    writer.make_row_group, writer.write_thrift = make_row_group, write_thrift
    raised, out = False, None
    try:
        try:
            out = writer.make_part_file(f, _Data(), fmd.schema, compression=None, fmd=fmd if shared else None)
        except OSError:
            raised = True
    finally:
        writer.make_row_group, writer.write_thrift = saved
    if not unchanged() or f.bad:
        return False
    if rows == 0:
        return out is None and f.n == 0 and not raised
    if 1 <= fail_at <= 5:
        # the part file takes five writes (magic, row group, footer, length, magic): a failure of any of them surfaces
        return raised
    if raised or out is not rg or not f.closed:
        return False
    tags = [x if isinstance(x, bytes) else x.tag for x in f.log]
    if tags[0] != b"PAR1" or tags[1] != "rowgroup" or tags[2] != "footer" or tags[4] != b"PAR1" or len(tags) != 5:
        return False
    if not isinstance(f.log[3], bytes) or int.from_bytes(f.log[3], "little") != foot or len(f.log[3]) != 4:
        return False
    ids, nrows, same_obj = footers[0]
    return len(footers) == 1 and ids == [id(rg.contents)] and nrows == rows and not same_obj


def replay_h_make_part_file(rows, b0, foot, fail_at, shared):
    """the real function on a real frame: the shared metadata object before / during / after, and a failing write"""
    import io
    import pandas as pd
    df = pd.DataFrame({"a": [1, 2, 3]})
    fmd = writer.make_metadata(df)
    old = parquet_thrift.RowGroup(num_rows=9, columns=[], total_byte_size=1)
    fmd.row_groups = [old]
    fmd.num_rows = 9
    seen = []

    class F(io.BytesIO):
        def __init__(self):
            io.BytesIO.__init__(self)
            self.n = 0

        def write(self, b):
            self.n += 1
            seen.append((len(fmd.row_groups), fmd.num_rows))
            if self.n == fail_at:
                raise OSError("injected")
            return io.BytesIO.write(self, b)
    raised = False
    try:
        rg = writer.make_part_file(F(), df, fmd.schema, fmd=fmd if shared else None)
    except OSError:
        raised = True
    if 1 <= fail_at <= 5 and not raised:
        return True, "write call %d of the part file fails and make_part_file returns normally" % fail_at
    if (len(fmd.row_groups), fmd.num_rows) != (1, 9) or any(s != (1, 9) for s in seen):
        return True, "the caller's metadata object (1 row group, 9 rows) shows %r during / %r after make_part_file" % (
            sorted(set(seen)), (len(fmd.row_groups), fmd.num_rows))
    return False, "metadata untouched, failures reported"
