"""Lemma: the read-into-place shortcut of core.read_data_page_v2 is taken only where it cannot change the result.

    into0 = ((use_cat or converts_inplace(se) and see) and num_nulls == 0 and max_rep == 0 and ...)

When `into0` holds for a PLAIN page the raw value bytes are copied into the output column and the result of
`convert()` is thrown away, so the shortcut is only correct when "the page bytes viewed as the output dtype" equals
"convert(values) assigned into the output dtype" (what the ordinary branch does).

Encoding (regenerated from the working tree every run):
  * `see`, `into0` (AST of core.read_data_page_v2) and the whole body of converted_types.converts_inplace are
    translated to z3 terms over the attributes of a schema-element kind k and an output dtype d;
  * the finite relation Alloc(k, d) "ParquetFile._dtypes can allocate dtype d for a column of kind k" is exported from
    the live api.ParquetFile._dtypes by evaluating it on in-memory footers for every k of the format's type table x
    {no pandas metadata, pandas metadata naming each numpy/pandas dtype} x {chunk has NULLs or not} x pandas_nulls;
  * the finite table Same(k, d) is exported from the live converted_types.convert: probe values of the physical type,
    `out = empty(D); out[:] = convert(values, se)` compared bytewise with the probe bytes viewed as D.
The solver is asked for (k, d, page flags) with Alloc(k,d) and into0 and not Same(k,d); every model is blocked and
the query repeated until unsat, so all failing (k, d) pairs are reported.  A model is replayed on a real file.

Outside: use_cat (dictionary codes read into place) is fixed to False - that branch is not PLAIN; the byte copy and
convert themselves are numpy (concrete probe, stated).  Bounded by the enumerated kinds / metadata options below.
"""
import ast
import io
import json
import os
import struct
import sys
import time

import z3

STAGE = os.environ.get("VERIF_STAGE")
if STAGE and STAGE not in sys.path:
    sys.path.insert(0, STAGE)

from vf.pyshim import astz3
from vf.pyshim.lemmas import _res, _check

NONE = -1
UNITS = ["", "s", "ms", "us", "ns", "D"]
TS_UNITS = ["", "MILLIS", "MICROS", "NANOS"]


# ------------------------------------------------------------------------------------------ kinds ---
def kinds():
    """schema-element kinds of a flat primitive column a valid file can carry (format's annotation table)"""
    from fastparquet import parquet_thrift as pt
    T, C = pt.Type, pt.ConvertedType
    out = []

    def add(t, c=None, ts=0, tl=None, adj=True):
        out.append(dict(type=t, converted=c, ts=ts, type_length=tl, adj=adj))

    for t in (T.BOOLEAN, T.INT32, T.INT64, T.INT96, T.FLOAT, T.DOUBLE, T.BYTE_ARRAY):
        add(t)
    for tl in (1, 2, 4, 8, 12, 16):
        add(T.FIXED_LEN_BYTE_ARRAY, tl=tl)
    for c in (C.UTF8, C.JSON, C.BSON, C.ENUM):
        add(T.BYTE_ARRAY, c)
    for t in (T.INT32, T.INT64, T.BYTE_ARRAY):
        add(t, C.DECIMAL)
    add(T.FIXED_LEN_BYTE_ARRAY, C.DECIMAL, tl=8)
    for c in (C.DATE, C.TIME_MILLIS, C.UINT_8, C.UINT_16, C.UINT_32, C.INT_8, C.INT_16, C.INT_32):
        add(T.INT32, c)
    for c in (C.TIME_MICROS, C.TIMESTAMP_MILLIS, C.TIMESTAMP_MICROS, C.UINT_64, C.INT_64):
        add(T.INT64, c)
    add(T.FIXED_LEN_BYTE_ARRAY, C.INTERVAL, tl=12)
    # logical TIMESTAMP (with the converted type a writer sets beside it, or none for nanos)
    add(T.INT64, C.TIMESTAMP_MILLIS, ts=1)
    add(T.INT64, C.TIMESTAMP_MICROS, ts=2)
    add(T.INT64, None, ts=3)
    add(T.INT64, None, ts=1)
    add(T.INT64, None, ts=2)
    return out


def schema_element(k, name="a"):
    from fastparquet import parquet_thrift as pt
    se = pt.SchemaElement(name=name, type=k["type"], repetition_type=pt.FieldRepetitionType.OPTIONAL)
    if k["converted"] is not None:
        se.converted_type = k["converted"]
    if k["type_length"] is not None:
        se.type_length = k["type_length"]
    if k["ts"]:
        from fastparquet.cencoding import ThriftObject
        se.logicalType = ThriftObject.from_fields(
            "LogicalType", TIMESTAMP=ThriftObject.from_fields(
                "TimestampType", isAdjustedToUTC=True,
                unit=ThriftObject.from_fields("TimeUnit", **{TS_UNITS[k["ts"]]: {}})))
    return se


MD_OPTIONS = [None, "int8", "int16", "int32", "int64", "uint8", "uint16", "uint32", "uint64", "float32", "float64",
              "bool", "object", "Int8", "Int16", "Int32", "Int64", "UInt8", "UInt16", "UInt32", "UInt64", "boolean",
              "datetime64[s]", "datetime64[ms]", "datetime64[us]", "datetime64[ns]",
              "timedelta64[s]", "timedelta64[ms]", "timedelta64[us]", "timedelta64[ns]"]


def _plausible(k, md):
    """pandas metadata a writer could have put beside this kind: same family (a footer is written by one writer)"""
    from fastparquet import parquet_thrift as pt
    if md is None:
        return True
    T = pt.Type
    C = pt.ConvertedType
    fam_stamp = bool(k["ts"]) or k["converted"] in (C.DATE, C.TIMESTAMP_MILLIS, C.TIMESTAMP_MICROS) or \
        k["type"] == T.INT96
    fam_delta = k["converted"] in (C.TIME_MILLIS, C.TIME_MICROS)
    if "datetime" in md:
        return fam_stamp
    if "timedelta" in md:
        return fam_delta
    if fam_stamp or fam_delta:
        return False
    if md in ("object",):
        return k["type"] in (T.BYTE_ARRAY, T.FIXED_LEN_BYTE_ARRAY)
    if k["type"] in (T.BYTE_ARRAY, T.FIXED_LEN_BYTE_ARRAY, T.INT96):
        return False
    if md in ("bool", "boolean"):
        return k["type"] == T.BOOLEAN
    if k["type"] == T.BOOLEAN:
        return False
    if md.startswith("float"):
        return k["type"] in (T.FLOAT, T.DOUBLE) or k["converted"] == C.DECIMAL
    if k["type"] in (T.FLOAT, T.DOUBLE):
        return False
    return True        # integer family (any width: the writer narrows/widens through converted types)


def footer_bytes(k, md, nulls):
    from fastparquet import parquet_thrift as pt
    se = schema_element(k)
    root = pt.SchemaElement(name="schema", num_children=1)
    st = pt.Statistics(null_count=1 if nulls else 0)
    cmd = pt.ColumnMetaData(type=k["type"], encodings=[0], path_in_schema=["a"], codec=0, num_values=2,
                            total_uncompressed_size=10, total_compressed_size=10, data_page_offset=4,
                            statistics=st)
    rg = pt.RowGroup(columns=[pt.ColumnChunk(file_offset=4, meta_data=cmd)], total_byte_size=10, num_rows=2)
    kv = []
    if md is not None:
        pandas_type = {"object": "unicode"}.get(md, md.lower() if md[0].isupper() else md)
        if "datetime" in md:
            pandas_type = "datetime"
        meta = dict(index_columns=[], column_indexes=[], creator=dict(library="x", version="1"),
                    pandas_version="2.0", columns=[dict(name="a", field_name="a", pandas_type=pandas_type,
                                                        numpy_type=md, metadata=None)])
        kv = [pt.KeyValue(key="pandas", value=json.dumps(meta))]
    fmd = pt.FileMetaData(version=1, schema=[root, se], num_rows=2, row_groups=[rg], key_value_metadata=kv)
    foot = fmd.to_bytes()
    foot = bytes(foot)
    return b"PAR1" + b"\0" * 10 + foot + struct.pack("<I", len(foot)) + b"PAR1"


def describe_dtype(dt):
    """(kind, itemsize, unit, masked) of what _dtypes returned"""
    import numpy as np
    import pandas as pd
    masked = isinstance(dt, pd.core.arrays.masked.BaseMaskedDtype)
    if masked:
        return (dt.kind, dt.itemsize, "", 1)
    if isinstance(dt, str) or not hasattr(dt, "kind") or not isinstance(dt, np.dtype):
        try:
            dt = np.dtype(dt)
        except Exception:
            dt = pd.Series([], dtype=dt).dtype
            return (getattr(dt, "kind", "O"), getattr(dt, "itemsize", 8), getattr(dt, "unit", ""), 0)
    unit = ""
    if dt.kind in "Mm":
        unit = np.datetime_data(dt)[0]
    return (dt.kind, dt.itemsize, unit, 0)


def alloc_relation(ks):
    """{(k index, dtype description)} -> one example (md, nulls, pandas_nulls) exported from the live _dtypes"""
    import fastparquet
    rel = {}
    errors = 0
    for i, k in enumerate(ks):
        for md in MD_OPTIONS:
            if not _plausible(k, md):
                continue
            for nulls in (0, 1):
                try:
                    data = footer_bytes(k, md, nulls)
                except Exception:
                    errors += 1
                    continue
                for pn in (True, False):
                    try:
                        pf = fastparquet.ParquetFile(io.BytesIO(data), pandas_nulls=pn)
                        dt = pf._dtypes()["a"]
                        d = describe_dtype(dt)
                    except Exception:
                        errors += 1
                        continue
                    rel.setdefault((i, d), dict(md=md, nulls=nulls, pandas_nulls=pn))
    return rel, errors


# ------------------------------------------------------------------------------- Same(k, d) table ---
def _probe(k):
    """probe values of the physical type, as the PLAIN decoder hands them to convert (None: not a fixed-width type)"""
    import numpy as np
    from fastparquet import parquet_thrift as pt
    T = pt.Type
    base = {T.INT32: "int32", T.INT64: "int64", T.FLOAT: "float32", T.DOUBLE: "float64"}.get(k["type"])
    if base is None:
        return None
    if base.startswith("int"):
        return np.array([3, 1000, 86400123, 7, 250, 70000], dtype=base)
    return np.array([1.5, -2.25, 1e10, 3.0], dtype=base)


def np_dtype_of(d):
    import numpy as np
    kind, size, unit, masked = d
    if kind in "Mm":
        return np.dtype("%s8[%s]" % (kind, unit))
    if kind == "O":
        return np.dtype("O")
    if kind == "S":
        return np.dtype("S%d" % size)
    return np.dtype("%s%d" % (kind, size))


def same_table(ks, rel):
    """Same[(k, d)] = the probe bytes viewed as d equal convert(probe) assigned into d (what the slow branch stores)"""
    import numpy as np
    import warnings
    from fastparquet.converted_types import convert
    same = {}
    for (i, d) in rel:
        vals = _probe(ks[i])
        ok = False
        if vals is not None:
            try:
                D = np_dtype_of(d)
                if D.kind != "O" and D.itemsize == vals.dtype.itemsize:
                    with warnings.catch_warnings():
                        warnings.simplefilter("ignore")
                        out = np.empty(len(vals), dtype=D)
                        out[:] = convert(vals.copy(), schema_element(ks[i]))
                    ok = out.tobytes() == vals.tobytes()
            except Exception:
                ok = False
        same[(i, d)] = ok
    return same


# ------------------------------------------------------------------------------------ translation ---
class Tr:
    """boolean/integer expression translator with an atom table keyed by source text"""

    def __init__(self, atoms, consts_ns, funcs=None):
        self.atoms = atoms
        self.ns = consts_ns
        self.funcs = funcs or {}

    def const(self, node):
        try:
            v = eval(compile(ast.Expression(node), "<const>", "eval"), {"__builtins__": {}}, self.ns)
        except Exception:
            return None
        return v

    def tr(self, node):
        src = ast.unparse(node)
        if src in self.atoms:
            return self.atoms[src]
        if isinstance(node, ast.Constant):
            v = node.value
            if v is None:
                return z3.IntVal(NONE)
            if isinstance(v, bool):
                return z3.BoolVal(v)
            if isinstance(v, int):
                return z3.IntVal(v)
            if isinstance(v, str) and len(v) == 1:
                return z3.IntVal(ord(v))
            raise astz3.Untranslatable("constant %r" % (v,))
        if isinstance(node, ast.Attribute):
            v = self.const(node)
            if isinstance(v, int):
                return z3.IntVal(int(v))
            raise astz3.Untranslatable("attribute " + src)
        if isinstance(node, ast.Call):
            f = ast.unparse(node.func)
            if f in self.funcs:
                return self.funcs[f](node)
            raise astz3.Untranslatable("call " + src)
        if isinstance(node, ast.UnaryOp) and isinstance(node.op, ast.Not):
            return z3.Not(self.b(node.operand))
        if isinstance(node, ast.BoolOp):
            vs = [self.b(v) for v in node.values]
            return z3.And(*vs) if isinstance(node.op, ast.And) else z3.Or(*vs)
        if isinstance(node, ast.BinOp):
            a, b = self.tr(node.left), self.tr(node.right)
            if isinstance(node.op, ast.Mult):
                return a * b
            if isinstance(node.op, ast.Add):
                return a + b
            if isinstance(node.op, ast.Sub):
                return a - b
        if isinstance(node, ast.Compare) and len(node.ops) == 1:
            op, right = node.ops[0], node.comparators[0]
            if isinstance(op, (ast.In, ast.NotIn)):
                left = self.tr(node.left)
                if isinstance(right, ast.Constant) and isinstance(right.value, str):
                    alts = [z3.IntVal(ord(c)) for c in right.value]
                elif isinstance(right, (ast.List, ast.Tuple, ast.Set)):
                    alts = [self.tr(e) for e in right.elts]
                else:
                    v = self.const(right)
                    if isinstance(v, str):
                        alts = [z3.IntVal(ord(c)) for c in v]
                    elif isinstance(v, (list, tuple, set, frozenset, dict)):
                        alts = [z3.IntVal(NONE if x is None else int(x)) for x in v]
                    else:
                        raise astz3.Untranslatable("membership in " + ast.unparse(right))
                e = z3.Or(*[left == a for a in alts]) if alts else z3.BoolVal(False)
                return z3.Not(e) if isinstance(op, ast.NotIn) else e
            a, b = self.tr(node.left), self.tr(right)
            if isinstance(op, (ast.Eq, ast.Is)):
                return a == b
            if isinstance(op, (ast.NotEq, ast.IsNot)):
                return a != b
            if isinstance(op, ast.Lt):
                return a < b
            if isinstance(op, ast.LtE):
                return a <= b
            if isinstance(op, ast.Gt):
                return a > b
            if isinstance(op, ast.GtE):
                return a >= b
        raise astz3.Untranslatable(src[:100])

    def b(self, node):
        """truthiness"""
        v = self.tr(node)
        if z3.is_bool(v):
            return v
        return z3.And(v != 0, v != NONE)


def lift_predicate(fn, tr, local_atoms):
    """a function made of assignments, `if c: return e` and a final return -> one z3 Bool (nested If)"""
    tree = astz3.func_ast(fn)
    body = [s for s in tree.body if not (isinstance(s, ast.Expr) and isinstance(s.value, ast.Constant))]

    def block(stmts):
        if not stmts:
            raise astz3.Untranslatable("function may fall off the end")
        s = stmts[0]
        if isinstance(s, ast.Return):
            return tr.b(s.value)
        if isinstance(s, ast.Assign) and len(s.targets) == 1 and isinstance(s.targets[0], ast.Name):
            tr.atoms[s.targets[0].id] = tr.tr(s.value)
            return block(stmts[1:])
        if isinstance(s, ast.If):
            c = tr.b(s.test)
            rest = stmts[1:]
            then = block(list(s.body) + rest) if not _returns(s.body) else block(list(s.body))
            other = block(list(s.orelse) + rest) if s.orelse and not _returns(s.orelse) else \
                (block(list(s.orelse)) if s.orelse else block(rest))
            return z3.If(c, then, other)
        raise astz3.Untranslatable("statement " + ast.unparse(s)[:80])

    return block(body)


def _returns(stmts):
    return bool(stmts) and isinstance(stmts[-1], ast.Return)


# ------------------------------------------------------------------------------------------ lemma ---
def v2_inplace():
    import numpy as np
    import fastparquet.core as core
    import fastparquet.converted_types as ct
    from fastparquet import parquet_thrift as pt
    res = _res("lemma.v2_inplace[read_data_page_v2.into0]",
               ["core.read_data_page_v2 (see, into0)", "converted_types.converts_inplace",
                "api.ParquetFile._dtypes (exported relation)", "converted_types.convert (exported table)"], {})
    ks = kinds()
    t0 = time.time()
    rel, errors = alloc_relation(ks)
    same = same_table(ks, rel)
    ds = sorted({d for (_, d) in rel})
    res["shape"] = dict(kinds=len(ks), dtypes=len(ds), alloc_pairs=len(rel), footers_skipped=errors,
                        export_s=round(time.time() - t0, 1))
    if not rel:
        res["status"] = "error"
        res["error"] = "could not export the allocation relation"
        return res
    k, d = z3.Int("k"), z3.Int("d")
    P, C, TL, TS = (z3.Function(n, z3.IntSort(), z3.IntSort()) for n in ("ptype", "ctype", "type_length", "ts"))
    KIND, SIZE = z3.Function("kind", z3.IntSort(), z3.IntSort()), z3.Function("itemsize", z3.IntSort(), z3.IntSort())
    SIMPLE_SIZE = z3.Function("simple_itemsize", z3.IntSort(), z3.IntSort())
    SIMPLE_KIND = z3.Function("simple_kind", z3.IntSort(), z3.IntSort())
    s = z3.Solver()
    s.set("timeout", 60000)
    for i, kk in enumerate(ks):
        s.add(P(i) == kk["type"], C(i) == (NONE if kk["converted"] is None else kk["converted"]),
              TL(i) == (NONE if kk["type_length"] is None else kk["type_length"]), TS(i) == kk["ts"])
    for j, dd in enumerate(ds):
        s.add(KIND(j) == ord(dd[0]), SIZE(j) == dd[1])
    for t, dt in ct.simple.items():
        s.add(SIMPLE_SIZE(int(t)) == dt.itemsize, SIMPLE_KIND(int(t)) == ord(dt.kind))
    num_nulls, max_rep = z3.Int("num_nulls"), z3.Int("max_rep")
    row_filter_none = z3.Bool("row_filter_is_None")
    s.add(num_nulls >= 0, max_rep >= 0, max_rep <= 3)
    atoms = {
        "se.type": P(k), "se.converted_type": C(k), "se.type_length": TL(k),
        "assign.dtype.kind": KIND(d), "assign.dtype.itemsize": SIZE(d),
        "simple.get(se.type).itemsize": SIMPLE_SIZE(P(k)), "simple[se.type].itemsize": SIMPLE_SIZE(P(k)),
        "simple.get(se.type).kind": SIMPLE_KIND(P(k)), "simple[se.type].kind": SIMPLE_KIND(P(k)),
        "data_header2.num_nulls": num_nulls, "max_rep": max_rep,
        "row_filter is None": row_filter_none, "row_filter is not None": z3.Not(row_filter_none),
        "use_cat": z3.BoolVal(False),
        "getattr(se.logicalType, 'TIMESTAMP', None)": z3.If(TS(k) != 0, z3.IntVal(1), z3.IntVal(NONE)),
        "se.logicalType": z3.If(TS(k) != 0, z3.IntVal(1), z3.IntVal(NONE)),
        "se.logicalType.TIMESTAMP": z3.If(TS(k) != 0, z3.IntVal(1), z3.IntVal(NONE)),
    }
    ns = {"parquet_thrift": pt, "np": np}
    try:
        tr_ci = Tr(dict(atoms), dict(ns, **{n: getattr(ct, n) for n in ("simple", "complex") if hasattr(ct, n)}))
        conv_inplace = lift_predicate(ct.converts_inplace, tr_ci, {})
        tr = Tr(dict(atoms), dict(ns, simple=ct.simple), funcs={"converts_inplace": lambda node: conv_inplace})
        tree = astz3.func_ast(core.read_data_page_v2)
        sees = astz3.find_assign(tree, "see")
        intos = astz3.find_assign(tree, "into0")
        if len(intos) != 1 or len(sees) < 1:
            raise astz3.Untranslatable("expected one `into0 =` and >= 1 `see =` in read_data_page_v2 (found %d, %d)"
                                       % (len(intos), len(sees)))
        for e in sees:                      # later assignments may refer to the earlier value
            tr.atoms["see"] = tr.b(e)
        into0 = tr.b(intos[0])
    except astz3.Untranslatable as ex:
        res["status"] = "inconclusive"
        res["inconclusive"].append("cannot translate the shortcut condition from the current source: %s" % ex)
        return res
    didx = {dd: j for j, dd in enumerate(ds)}
    alloc = z3.Or(*[z3.And(k == i, d == didx[dd]) for (i, dd) in rel])
    bad = z3.Or(*([z3.And(k == i, d == didx[dd]) for (i, dd) in rel if not same[(i, dd)]] or [z3.BoolVal(False)]))
    s.add(alloc)
    # reachability: the shortcut is taken somewhere, and somewhere it is sound
    if _check(res, s, into0) != "sat":
        res["status"] = "inconclusive"
        res["inconclusive"].append("the shortcut condition is never true: vacuous")
        return res
    res["reached"] = 1
    found = 0
    while True:
        r = _check(res, s, into0, bad)
        if r == "unsat":
            break
        if r != "sat":
            res["status"] = "inconclusive"
            res["inconclusive"].append("solver answered %s" % r)
            return res
        m = s.model()
        i = m.eval(k, model_completion=True).as_long()
        j = m.eval(d, model_completion=True).as_long()
        dd = ds[j]
        ex = rel[(i, dd)]
        kk = ks[i]
        found += 1
        res["status"] = "violation"
        res["findings"].append(dict(
            kind="contract", function="core.read_data_page_v2", obligation="read-into-place shortcut preserves values",
            detail="PLAIN v2 page without NULLs: column of physical type %s converted type %s logical timestamp %s "
                   "allocated as %s%s (pandas metadata numpy_type=%r, NULLs elsewhere=%s, pandas_nulls=%s) takes the "
                   "read-into-place shortcut although the page bytes viewed as that dtype differ from the converted "
                   "values" % (kk["type"], kk["converted"], TS_UNITS[kk["ts"]] or None, np_dtype_of(dd),
                               " (masked)" if dd[3] else "", ex["md"], bool(ex["nulls"]), ex["pandas_nulls"]),
            shape=dict(harness="lemma.v2_inplace", ptype=kk["type"], converted=kk["converted"], ts=kk["ts"],
                       kind=dd[0], itemsize=dd[1], unit=dd[2]),
            cls="lemma:v2_inplace",
            witness=dict(driver="py:vf.pyshim.lemma_v2:replay_v2_inplace",
                         args=dict(k=dict(kk), d=list(dd), md=ex["md"], nulls=ex["nulls"],
                                   pandas_nulls=ex["pandas_nulls"]))))
        s.add(z3.Not(z3.And(k == i, d == j)))
        if found >= 40:
            break
    return res


# ----------------------------------------------------------------------------------------- replay ---
def _rewrite_footer(fn, mutate):
    """parse the footer of a real file, let `mutate(fmd)` edit it, write it back in place"""
    from fastparquet.cencoding import from_buffer
    with open(fn, "rb+") as f:
        f.seek(-8, 2)
        n = struct.unpack("<I", f.read(4))[0]
        f.seek(-8 - n, 2)
        start = f.tell()
        fmd = from_buffer(f.read(n), "FileMetaData")
        mutate(fmd)
        foot = fmd.to_bytes()
        f.seek(start)
        f.write(bytes(foot) + struct.pack("<I", len(foot)) + b"PAR1")
        f.truncate()


def replay_v2_inplace(k, d, md, nulls, pandas_nulls):
    """write a real two-row-group file with v2 pages whose second row group has no NULLs, make its footer describe the
    witness kind / pandas metadata, read it, and compare the null-free row group with convert(values) (the ordinary
    branch's semantics)"""
    import shutil
    import tempfile
    import warnings
    import numpy as np
    import pandas as pd
    import fastparquet
    import fastparquet.writer as writer
    from fastparquet import parquet_thrift as pt
    from fastparquet.converted_types import convert
    vals = _probe(k)
    if vals is None:
        return None, "kind without fixed-width PLAIN values"
    D = np_dtype_of(tuple(d))
    tmp = tempfile.mkdtemp(prefix="v2inplace-")
    saved = writer.DATAPAGE_VERSION
    try:
        writer.DATAPAGE_VERSION = 2
        base = vals.dtype
        n = len(vals)
        if base.kind == "i":
            first = pd.array([1, None, 2] if nulls else [1, 5, 2], dtype="Int%d" % (base.itemsize * 8))
            col = pd.concat([pd.Series(first), pd.Series(pd.array(vals.tolist(), dtype=first.dtype))],
                            ignore_index=True)
        else:
            col = pd.Series(np.concatenate([np.array([1.0, np.nan if nulls else 5.0, 2.0], dtype=base), vals]))
        fn = os.path.join(tmp, "t.parq")
        fastparquet.write(fn, pd.DataFrame({"a": col}), row_group_offsets=[0, 3], has_nulls=True, write_index=False,
                          compression=None)

        def mutate(fmd):
            se = fmd.schema[1]
            want = schema_element(k)
            se.converted_type = want.converted_type
            se.logicalType = want.logicalType
            kv = []
            if md is not None:
                meta = json.loads(footer_kv(k, md))
                kv = [pt.KeyValue(key="pandas", value=json.dumps(meta))]
            fmd.key_value_metadata = kv

        _rewrite_footer(fn, mutate)
        with warnings.catch_warnings():
            warnings.simplefilter("ignore")
            pf = fastparquet.ParquetFile(fn, pandas_nulls=pandas_nulls)
            got = pf.to_pandas()["a"]
            want = np.empty(n, dtype=D)
            want[:] = convert(vals.copy(), schema_element(k))
        tail = got.iloc[3:]
        tail_np = np.asarray(tail.array._data if hasattr(tail.array, "_data") and d[3] else tail.to_numpy())
        try:
            ok = bool((tail_np.astype(D) == want).all())
        except Exception as ex:
            return True, "cannot compare: %r" % ex
        if not ok:
            return True, "row group without NULLs read as %r (column dtype %s), expected %r" % (
                tail.tolist()[:4], got.dtype, want.tolist()[:4])
        return False, "values agree"
    finally:
        writer.DATAPAGE_VERSION = saved
        shutil.rmtree(tmp, ignore_errors=True)


def footer_kv(k, md):
    pandas_type = {"object": "unicode"}.get(md, md.lower() if md[0].isupper() else md)
    if "datetime" in md:
        pandas_type = "datetime"
    return json.dumps(dict(index_columns=[], column_indexes=[], creator=dict(library="x", version="1"),
                           pandas_version="2.0",
                           columns=[dict(name="a", field_name="a", pandas_type=pandas_type, numpy_type=md,
                                         metadata=None)]))
