"""C16 - key-value metadata verbatim; in-place update touches nothing else.
K1: real writer.update_file_custom_metadata on a SymFile (open / struct / int.from_bytes / from_buffer rebound):
    for every data length and every old/new footer length the file afterwards is  data ++ new footer ++ len32 ++ PAR1
    and ends there; nothing before the footer is written.
K2: real util.update_custom_metadata over real KeyValue ThriftObjects vs. the dict-update-with-None-deletes model."""
import os
from typing import Dict, List, Optional, Tuple

from vf.pyshim.kit import Seg, SymFile, REPLAY

import fastparquet.writer as writer
import fastparquet.util as util
from fastparquet import parquet_thrift
from fastparquet.cencoding import ThriftObject


class _FMD:
    thrift_name = "FileMetaData"

    def __init__(self, new_len):
        self.key_value_metadata = []
        self.new_len = new_len

    def to_bytes(self):
        return Seg("footer", self.new_len)


class _Struct:
    @staticmethod
    def pack(fmt, v):
        return Seg("len32", 4, value=v)


def h_footer_rewrite(data_len: int, old_footer: int, new_footer: int, is_md: bool) -> bool:
    """
    pre: data_len >= 4 and old_footer >= 1 and new_footer >= 1
    pre: (not is_md) or data_len == 4
    post: __return__
    """
    size = data_len + old_footer + 8
    f = SymFile(size)
    state = {}

    class _Int:                       # int.from_bytes(<the 4 length bytes>, "little") == old footer length
        @staticmethod
        def from_bytes(b, order):
            assert b.n == 4 and b.value == (size - 8, size - 4), "length field read from the wrong place"
            return old_footer

    def _from_buffer(data, name):
        state["parsed"] = data.value
        return _FMD(new_footer)

    saved = (writer.__dict__.get("open"), writer.struct, writer.__dict__.get("int"), writer.from_buffer,
             writer.update_custom_metadata)
    writer.open = lambda path, mode: f
    writer.struct = _Struct
    writer.int = _Int
    writer.from_buffer = _from_buffer
    writer.update_custom_metadata = lambda fmd, md: None
    try:
        writer.update_file_custom_metadata("x/_metadata" if is_md else "x/part.0.parquet", {"k": "v"},
                                           is_metadata_file=is_md if is_md else None)
    finally:
        for k, v in zip(("open", "struct", "int", "from_buffer", "update_custom_metadata"), saved):
            if v is None:
                writer.__dict__.pop(k, None)
            else:
                setattr(writer, k, v)
    # the old footer was parsed from its own start and the parsed bytes cover all of it (the thrift parser stops at
    # the end of the structure: trailing length/magic bytes are ignored)
    parsed = state.get("parsed")
    if parsed is None or parsed[0] != data_len or parsed[1] < data_len + old_footer or parsed[1] > size:
        return False
    # nothing before the footer is touched, and the writes are footer, length, magic laid end to end from data_len
    want_pos = data_len
    tags = []
    for a, b, tag, val in f.writes:
        if a != want_pos:
            return False
        want_pos = b
        tags.append((tag, b - a, val))
    if tags != [("footer", new_footer, None), ("len32", 4, new_footer), ("bytes", 4, None)]:
        return False
    # the file ends with the new frame: no stale tail of a longer old footer
    return f.size == data_len + new_footer + 8 and f.closed


def replay_h_footer_rewrite(data_len, old_footer, new_footer, is_md):
    """real files: shrink the footer by removing a key whose value is long enough"""
    import os, shutil, tempfile
    import pandas as pd
    import fastparquet
    delta = old_footer - new_footer
    d = tempfile.mkdtemp(prefix="c16-")
    try:
        fn = os.path.join(d, "_metadata" if is_md else "t.parq")
        df = pd.DataFrame({"a": [1, 2, 3]})
        if abs(delta) > 100:
            return None, "footer delta too large for the concrete driver"
        # replacing the value of one key changes the footer length by exactly -delta (lengths stay < 128)
        fastparquet.write(os.path.join(d, "t.parq"), df, custom_metadata={"k": "v" * (1 + max(delta, 0))})
        upd = {"k": "v" * (1 + max(-delta, 0))}
        if is_md:
            fastparquet.writer.merge([os.path.join(d, "t.parq")])
        before = fastparquet.ParquetFile(fn).to_pandas() if not is_md else None
        size0 = os.path.getsize(fn)
        fastparquet.update_file_custom_metadata(fn, upd)
        raw = open(fn, "rb").read()
        try:
            pf = fastparquet.ParquetFile(fn)
            flen = int.from_bytes(raw[-8:-4], "little")
            ok = raw[-4:] == b"PAR1"
            kv = pf.key_value_metadata
            if kv.get("k") != upd["k"]:
                return True, "value not updated"
            if not is_md and not pf.to_pandas().equals(before):
                return True, "data changed"
            # structural check: the footer occupies exactly the bytes the length field announces
            import numpy as np
            from fastparquet import cencoding
            foot = np.frombuffer(raw[len(raw) - 8 - flen:len(raw) - 8], dtype="uint8")
            io = cencoding.NumpyIO(foot)
            cencoding.read_thrift(io)
            if not ok or io.tell() != flen:
                return True, "after the footer shrank by %d bytes the file (still %d bytes) announces a %d-byte " \
                             "footer of which only %d bytes are metadata; stale bytes follow" % (
                                 delta, len(raw), flen, io.tell())
            return False, "file valid after update (size %d -> %d)" % (size0, len(raw))
        except Exception as ex:
            return True, "file unreadable after a footer that shrinks (size %d -> %d): %s: %s" % (
                size0, len(raw), type(ex).__name__, str(ex)[:100])
    finally:
        shutil.rmtree(d, ignore_errors=True)


# ------------------------------------------------------------------ K2 merge rules --
def _kvlist(keys, vals):
    return [parquet_thrift.KeyValue(key=k, value=v) for k, v in zip(keys, vals)]


ONE_DICT = os.environ.get("VERIF_ONE_DICT", "0") == "1"
# str and bytes spellings; one non-ASCII key in DECOMPOSED form (e + combining acute) and a value that is not in any
# Unicode normal form (OHM SIGN): keys and values are stored and matched byte for byte, never normalised
KEYS = ["a", "b", b"a", "e\u0301"]
VALS = ["\u2126", b"y", "", None]


def _b(x):
    return x.encode("utf-8") if isinstance(x, str) else x


def h_update_rules(n_old: int, u0: int, w0: int, u1: int, w1: int, n_upd: int) -> bool:
    """
    pre: 0 <= n_old <= 2 and 0 <= u0 < 4 and 0 <= u1 < 4 and 0 <= w0 < 4 and 0 <= w1 < 4 and 1 <= n_upd <= 2
    pre: n_upd == 1 or (n_old == 2 and u0 in (0, 3) and w0 in (0, 3))
    post: __return__
    """
    # existing entries are bytes (as parsed from a file); the update dict may spell a key as str or bytes; None
    # deletes.  Two successive single-key updates == the model (dict update, untouched keys keep their place).
    old = [(b"a", b"1"), (b"e\xcc\x81", b"2")][:n_old]
    fmd = ThriftObject.from_fields("FileMetaData", key_value_metadata=_kvlist([e[0] for e in old],
                                                                              [e[1] for e in old]),
                                   version=1, num_rows=0, row_groups=[],
                                   schema=[parquet_thrift.SchemaElement(name="schema", num_children=0)])
    upds = [(KEYS[u0], VALS[w0]), (KEYS[u1], VALS[w1])][:n_upd]
    if ONE_DICT and len({k for k, _ in upds}) == len(upds):
        util.update_custom_metadata(fmd, dict(upds))          # one update dict naming several keys
    else:
        for k, v in upds:
            util.update_custom_metadata(fmd, {k: v})          # a sequence of single-key updates
    got = [(kv.key, kv.value) for kv in (fmd.key_value_metadata or [])]
    # the updated footer is still writable: the real writer.write_thrift (key/value type validation + serialisation)
    # accepts it, whatever was removed
    out = SymFile(0)
    if writer.write_thrift(out, fmd) < 1:
        return False
    model = list(old)
    for k, v in upds:
        kb = _b(k)
        idx = [i for i, e in enumerate(model) if e[0] == kb]
        if idx:
            if v is None:
                del model[idx[0]]
            else:
                model[idx[0]] = (kb, _b(v))
        elif v is not None:
            model.append((kb, _b(v)))
    return got == model


def replay_h_update_rules(n_old, u0, w0, u1, w1, n_upd):
    import os, shutil, tempfile
    import pandas as pd
    import fastparquet
    old = dict([(b"a", b"1"), (b"e\xcc\x81", b"2")][:n_old])
    upds = [(KEYS[u0], VALS[w0]), (KEYS[u1], VALS[w1])][:n_upd]
    d = tempfile.mkdtemp(prefix="c16-")
    try:
        fn = os.path.join(d, "t.parq")
        fastparquet.write(fn, pd.DataFrame({"a": [1]}), custom_metadata=dict(old))
        # the footer's key/value list is exactly the harness's existing entries, in order (fastparquet's own writer
        # always puts its "pandas" entry first; other writers do not)
        from vf.pyshim.realfile import rewrite_footer
        from fastparquet import parquet_thrift as _pt

        def only_old(fmd):
            fmd.key_value_metadata = [_pt.KeyValue(key=k, value=v) for k, v in old.items()]
        rewrite_footer(fn, only_old)
        model = dict(old)
        try:
            if ONE_DICT and len({k for k, _ in upds}) == len(upds):
                fastparquet.update_file_custom_metadata(fn, dict(upds))
            else:
                for k, v in upds:
                    fastparquet.update_file_custom_metadata(fn, {k: v})
        except Exception as ex:
            return True, "updates %r on %r are refused: %s: %s" % (upds, old, type(ex).__name__, str(ex)[:80])
        for k, v in upds:
            if v is None:
                model.pop(_b(k), None)
            else:
                model[_b(k)] = _b(v)
        kv = fastparquet.ParquetFile(fn).key_value_metadata
        got = {_b(k): _b(v) for k, v in kv.items() if k != "pandas"}
        if got != model:
            return True, "updates %r on %r give %r, model %r" % (upds, old, got, model)
        return False, "agrees"
    finally:
        shutil.rmtree(d, ignore_errors=True)


def h_write_read_verbatim(k: int, v: int) -> bool:
    """
    pre: 0 <= k < 4 and 0 <= v < 3
    post: __return__
    """
    # write-time path: the KeyValue entry stores key/value as given, the serialiser's validation (writer.write_thrift)
    # accepts str/bytes only, and api.ParquetFile.key_value_metadata decodes UTF-8 text back verbatim
    from fastparquet.api import ParquetFile
    from fastparquet.util import ensure_str
    key, val = KEYS[k], VALS[v]
    kvm = [parquet_thrift.KeyValue(key=key, value=val)]
    stored = [(_b(e.key), _b(e.value)) for e in kvm]          # what reaches the wire (UTF-8 of str, bytes as is)

    class _H:
        _kvm = None

        class fmd:
            key_value_metadata = [parquet_thrift.KeyValue(key=a, value=b) for a, b in stored]
    got = ParquetFile.key_value_metadata.fget(_H())
    want_k = key if isinstance(key, str) else key.decode("utf-8")
    want_v = val if isinstance(val, str) else val.decode("utf-8")
    return got == {want_k: want_v}


def replay_h_write_read_verbatim(k, v):
    import os, shutil, tempfile
    import pandas as pd
    import fastparquet
    key, val = KEYS[k], VALS[v]
    d = tempfile.mkdtemp(prefix="c16-")
    try:
        fn = os.path.join(d, "t.parq")
        fastparquet.write(fn, pd.DataFrame({"a": [1]}), custom_metadata={key: val})
        kv = fastparquet.ParquetFile(fn).key_value_metadata
        wk = key if isinstance(key, str) else key.decode()
        wv = val if isinstance(val, str) else val.decode()
        if kv.get(wk) != wv:
            return True, "custom_metadata {%r: %r} reads back as %r" % (key, val, kv.get(wk))
        return False, "verbatim"
    finally:
        shutil.rmtree(d, ignore_errors=True)


# ------------------------------------------------------------------ K3b: what the handle reports ---
RAW = [b"k", b"", b"\xc3\xa9", b"\xff\xfe", b"caf\xc3\xa9", b"\x80"]


def _pk(v, hi):
    for k in range(hi + 1):
        if v == k:
            return k
    raise ValueError(v)


def _dec(b):
    try:
        return b.decode("utf-8")
    except UnicodeDecodeError:
        return b


def h_kv_property(ik0: int, iv0: int, ik1: int, iv1: int, n: int) -> bool:
    """
    pre: 0 <= ik0 < 6 and 0 <= iv0 < 6 and 0 <= ik1 < 6 and 0 <= iv1 < 6 and 1 <= n <= 2
    pre: n == 2 or (ik1 == 0 and iv1 == 0)
    post: __return__
    """
    # ParquetFile.key_value_metadata over stored entries whose keys / values are any byte strings (valid UTF-8 or
    # not, empty or not): each key and each value is reported as text when it is text and as the stored bytes
    # otherwise - independently of each other
    import fastparquet.api as api
    ents = [(RAW[_pk(ik0, 5)], RAW[_pk(iv0, 5)]), (RAW[_pk(ik1, 5)], RAW[_pk(iv1, 5)])][:_pk(n, 2)]
    pf = object.__new__(api.ParquetFile)
    pf.__dict__.update(_kvm=None, fmd=parquet_thrift.FileMetaData(
        key_value_metadata=[parquet_thrift.KeyValue(key=k, value=v) for k, v in ents]))
    got = pf.key_value_metadata
    want = {}
    for k, v in ents:
        want[_dec(k)] = _dec(v)
    return got == want


def replay_h_kv_property(ik0, iv0, ik1, iv1, n):
    import os, shutil, tempfile
    import pandas as pd
    import fastparquet
    ents = [(RAW[ik0], RAW[iv0]), (RAW[ik1], RAW[iv1])][:n]
    d = tempfile.mkdtemp(prefix="c16-")
    try:
        fn = os.path.join(d, "t.parq")
        fastparquet.write(fn, pd.DataFrame({"a": [1]}))
        from vf.pyshim.realfile import rewrite_footer

        def setkv(fmd):
            fmd.key_value_metadata = [parquet_thrift.KeyValue(key=k, value=v) for k, v in ents]
        rewrite_footer(fn, setkv)
        got = fastparquet.ParquetFile(fn).key_value_metadata
        want = {}
        for k, v in ents:
            want[_dec(k)] = _dec(v)
        if got != want:
            return True, "stored key-value entries %r are reported as %r, expected %r" % (ents, got, want)
        return False, "verbatim"
    finally:
        shutil.rmtree(d, ignore_errors=True)
