"""C20 (reduced): deriving a handle by slicing while another thread reads the parent.

`pf[i]` builds a new handle over the *same* schema-element dictionaries (shallow copy of the footer) and runs
SchemaHelper.__init__ -> schema_tree / flatten on them.  A reader of the parent walks root["children"][...] of those
very dictionaries.  The real functions are re-compiled from their source with one declared rewrite - a `yield` after
every statement (statement-level atomicity made explicit; calls between the rewritten functions become `yield from`) -
and a scheduler interleaves

    thread B:  SchemaHelper.__init__(new helper, shared elements)          (what pf[i] does)
    thread A:  parent_helper.schema_element(path) / is_required / max_definition_level

according to a symbolic schedule: the positions (numbers of B-statements executed) at which A's statements run.
Postcondition: A obtains what it obtains when run alone (same element, no exception)."""
import ast
import inspect
import os
import textwrap
from typing import List

from vf.pyshim.kit import REPLAY

import fastparquet.schema as schema_mod
from fastparquet import parquet_thrift

SHAPE = os.environ.get("VERIF_SCHEMA", "flat")          # flat | list | struct
OP = os.environ.get("VERIF_OP", "element")              # element | required | maxdef

NAMES = {"schema_tree", "flatten", "schema_element", "is_required", "max_definition_level", "max_repetition_level",
         "__init__"}


class _Y(ast.NodeTransformer):
    """insert `yield` after every statement; calls to the rewritten functions become `yield from`"""

    def __init__(self):
        self.calls = 0

    def _yf(self, node):
        if isinstance(node, ast.Call):
            f = node.func
            name = f.id if isinstance(f, ast.Name) else (f.attr if isinstance(f, ast.Attribute) else None)
            if name in NAMES and name != "__init__":
                self.calls += 1
                return ast.YieldFrom(value=node)
        return node

    def visit_Assign(self, node):
        node.value = self._yf(node.value)
        return node

    def visit_Expr(self, node):
        node.value = self._yf(node.value)
        return node

    def visit_Return(self, node):
        if node.value is not None:
            node.value = self._yf(node.value)
        return node

    def _body(self, stmts):
        out = []
        for st in stmts:
            st = self.visit(st)
            for fld in ("body", "orelse", "finalbody"):
                if hasattr(st, fld) and isinstance(getattr(st, fld), list) and not isinstance(st, ast.FunctionDef):
                    setattr(st, fld, self._body(getattr(st, fld)))
            if isinstance(st, ast.Try):
                for h in st.handlers:
                    h.body = self._body(h.body)
            out.append(st)
            if not isinstance(st, (ast.Return, ast.Raise, ast.Break, ast.Continue)):
                out.append(ast.Expr(value=ast.Yield(value=None)))
        return out


def _rewrite(fn):
    src = textwrap.dedent(inspect.getsource(fn))
    tree = ast.parse(src)
    fd = tree.body[0]
    t = _Y()
    fd.body = [ast.Expr(value=ast.Yield(value=None))] + t._body(fd.body)
    ast.fix_missing_locations(tree)
    return tree, t.calls


def _build():
    ns = dict(schema_mod.__dict__)
    stats = {}
    for name in ("schema_tree", "flatten"):
        tree, n = _rewrite(getattr(schema_mod, name))
        exec(compile(tree, "<schema.%s, yield after every statement>" % name, "exec"), ns)
        stats[name] = n
    cls = {}
    for name in ("__init__", "schema_element", "is_required", "max_definition_level", "max_repetition_level"):
        tree, n = _rewrite(getattr(schema_mod.SchemaHelper, name))
        exec(compile(tree, "<SchemaHelper.%s, yield after every statement>" % name, "exec"), ns, cls)
        stats[name] = n
    # __init__ calls schema_tree(...) and flatten(...) as plain statements: they were turned into `yield from`
    helper = type("SchemaHelperStepped", (), cls)
    return helper, stats


STEPPED, REWRITES = _build()


def _elements():
    S = parquet_thrift.SchemaElement
    if SHAPE == "flat":
        return [S(name="schema", num_children=2), S(name="a", type=2, repetition_type=0),
                S(name="b", type=2, repetition_type=1)], ["b"]
    if SHAPE == "list":
        return [S(name="schema", num_children=2), S(name="a", type=2, repetition_type=0),
                S(name="l", num_children=1, repetition_type=1, converted_type=3),
                S(name="list", num_children=1, repetition_type=2),
                S(name="element", type=2, repetition_type=1)], ["l", "list", "element"]
    return [S(name="schema", num_children=2), S(name="a", type=2, repetition_type=0),
            S(name="s", num_children=2, repetition_type=1),
            S(name="x", type=2, repetition_type=0), S(name="y", type=2, repetition_type=1)], ["s", "y"]


def _drain(gen):
    try:
        while True:
            next(gen)
    except StopIteration as st:
        return st.value


def _reader(helper, path):
    if OP == "element":
        return helper.schema_element(list(path))
    if OP == "required":
        return helper.is_required(list(path))
    return helper.max_definition_level(list(path))


def _outcome(gen_or_value):
    return gen_or_value


def run(positions):
    """returns (outcome under the schedule, outcome alone, number of statements of the derivation)"""
    els, path = _elements()
    fmd = parquet_thrift.FileMetaData(version=1, schema=els, row_groups=[], num_rows=0)
    parent = object.__new__(STEPPED)
    _drain(parent.__init__(fmd.schema))                       # the parent handle was opened earlier, alone
    alone = _drain(_reader(parent, path))
    alone = alone.name if hasattr(alone, "name") else alone
    child = object.__new__(STEPPED)
    b = child.__init__(fmd.schema)                            # same element dictionaries, fresh wrappers
    a = _reader(parent, path)
    nb, k, done_b, result = 0, 0, False, None
    while True:
        run_a = done_b or (k < len(positions) and positions[k] <= nb) or k >= len(positions)
        if run_a:
            try:
                next(a)
                k += 1
            except StopIteration as st:
                result = st.value
                break
            except (KeyError, AttributeError, TypeError) as ex:
                result = ("raised", type(ex).__name__)
                break
        else:
            try:
                next(b)
                nb += 1
            except StopIteration:
                done_b = True
    result = result.name if hasattr(result, "name") else result
    return result, alone, nb


NPOS = int(os.environ.get("VERIF_NPOS", "2"))


def h_slice_vs_read(p0: int, p1: int, p2: int) -> bool:
    """
    pre: 0 <= p0 <= p1 <= p2 <= 60
    post: __return__
    """
    # A's first NPOS statements run once B (the derivation of a sliced handle) has executed p0 <= p1 <= p2 of its
    # statements; A's remaining statements run without further delay
    got, alone, nb = run([p0, p1, p2][:NPOS])
    return got == alone


def replay_h_slice_vs_read(p0, p1, p2):
    """threads on the real classes: a reader of the parent handle's schema against repeated slicing, with a minimal
    switch interval"""
    import sys
    import threading
    import fastparquet.schema as sm
    els, path = _elements()
    fmd = parquet_thrift.FileMetaData(version=1, schema=els, row_groups=[], num_rows=0)
    parent = sm.SchemaHelper(fmd.schema)
    want = _real_reader(parent, path)
    errors = []
    stop = threading.Event()

    def derive():
        while not stop.is_set():
            sm.SchemaHelper(fmd.schema)

    def read():
        for _ in range(200000):
            try:
                got = _real_reader(parent, path)
                if got != want:
                    errors.append("got %r" % (got,))
                    return
            except Exception as ex:
                errors.append("%s: %s" % (type(ex).__name__, ex))
                return
    old = sys.getswitchinterval()
    sys.setswitchinterval(1e-6)
    try:
        t = threading.Thread(target=derive)
        t.start()
        read()
        stop.set()
        t.join()
    finally:
        sys.setswitchinterval(old)
    if errors:
        return True, "a reader of the parent handle (%s of %r) fails while a sliced handle is being derived: %s" % (
            OP, path, errors[0])
    return False, "no interference observed in 200000 reads"


def _real_reader(helper, path):
    if OP == "element":
        return helper.schema_element(list(path)).name
    if OP == "required":
        return helper.is_required(list(path))
    return helper.max_definition_level(list(path))


# ------------------------------------------------------------------ reads do not disturb the shared handle ---
# A read-only operation on a handle (head, count, slicing) may run while another thread uses the same handle: at no
# statement boundary of the operation may the handle's shared state (its list of row groups, the footer's list, the
# derived dtypes) differ from what it was.  The real method is re-compiled with a `yield` after every statement; the
# state is compared at every yield (every point at which another thread could run).
import fastparquet.api as api_mod


def _stepped_method(fn, extra_names=()):
    ns = dict(api_mod.__dict__)
    tree, n = _rewrite(fn)
    exec(compile(tree, "<api.%s, yield after every statement>" % fn.__name__, "exec"), ns)
    return ns[fn.__name__]


HEAD_STEPPED = _stepped_method(api_mod.ParquetFile.head)


class _Read:
    def __init__(self, n):
        self.n = n

    def head(self, k):
        return min(self.n, k) if k >= 0 else 0


def _snapshot(pf):
    # (thrift wrappers are created on access; the dictionaries underneath are the row groups' identity)
    return ([id(rg.contents) for rg in pf.row_groups], [id(rg.contents) for rg in pf.fmd.row_groups], pf.file_scheme,
            dict(pf.cats))


def h_head_leaves_handle(n0: int, n1: int, n2: int, nrows: int) -> bool:
    """
    pre: 1 <= n0 <= 1000 and 1 <= n1 <= 1000 and 1 <= n2 <= 1000 and 0 <= nrows <= 4000
    post: __return__
    """
    from vf.pyshim.h_c06 import _real_handle
    rows = [n0, n1, n2]
    pf = _real_handle(rows)
    before = _snapshot(pf)
    saved = api_mod.ParquetFile.to_pandas
    # the read itself is a stub: it reports how many rows the handle it runs on covers
    api_mod.ParquetFile.to_pandas = lambda self, **kw: _Read(sum(rg.num_rows for rg in self.row_groups))
    ok = True
    try:
        gen = HEAD_STEPPED(pf, nrows)
        try:
            while True:
                next(gen)
                ok = ok and _snapshot(pf) == before        # another thread may look at the handle here
        except StopIteration as st:
            got = st.value
    finally:
        api_mod.ParquetFile.to_pandas = saved
    return ok and _snapshot(pf) == before and got == min(nrows, n0 + n1 + n2)


def replay_h_head_leaves_handle(n0, n1, n2, nrows):
    """real threads on one handle of a real file: head() in a loop against count() / len(row_groups)"""
    import os, shutil, sys, tempfile, threading
    import pandas as pd
    import fastparquet
    d = tempfile.mkdtemp(prefix="c20-")
    try:
        fn = os.path.join(d, "t.parq")
        rows = [min(n, 50) for n in (n0, n1, n2)]
        total = sum(rows)
        fastparquet.write(fn, pd.DataFrame({"a": range(total)}), row_group_offsets=[0, rows[0], rows[0] + rows[1]])
        pf = fastparquet.ParquetFile(fn)
        want = min(max(nrows, 1), rows[0])
        errors, stop = [], threading.Event()

        def heads():
            while not stop.is_set():
                try:
                    pf.head(want)
                except Exception as ex:
                    errors.append("head raised %s" % type(ex).__name__)
                    return

        old = sys.getswitchinterval()
        sys.setswitchinterval(1e-6)
        try:
            t = threading.Thread(target=heads)
            t.start()
            for _ in range(3000):
                n, c = len(pf.row_groups), pf.count()
                if n != 3 or c != total:
                    errors.append("while another thread runs head(%d), the shared handle shows %d row groups / "
                                  "count() = %d (file: 3 row groups, %d rows)" % (want, n, c, total))
                    break
            stop.set()
            t.join()
        finally:
            sys.setswitchinterval(old)
        if errors:
            return True, errors[0]
        return False, "no interference observed in 3000 reads"
    finally:
        shutil.rmtree(d, ignore_errors=True)
