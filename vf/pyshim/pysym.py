"""A very small symbolic interpreter for straight-line Python functions (AST of the real source -> z3 terms).

Used where CrossHair cannot reach: text that is parsed into integers (decimal rendering / parsing of symbolic
integers).  Values are Python constants, tuples/lists of values, z3 Int/Bool terms, and *model objects* supplied by the
caller (objects with the methods the code is expected to call, returning values of the same kinds).  Control flow:
`if` on a z3 Bool forks; every path ends in `return`.  Anything outside this fragment raises Untranslatable, which the
caller reports as inconclusive - never as "holds".

    paths = run(fn, {"z": model_object}, globals_for_calls)   ->  [(path_condition, return_value), ...]
"""
import ast

import z3

from vf.pyshim.astz3 import Untranslatable, func_ast

MAX_PATHS = 64


class Ret(Exception):
    def __init__(self, value):
        self.value = value


def _is_sym(v):
    return isinstance(v, z3.ExprRef)


def truth(v):
    """python truthiness as a z3 Bool or a python bool"""
    if _is_sym(v):
        if z3.is_bool(v):
            return v
        return v != 0
    return bool(v)


def _arith(op, a, b):
    if isinstance(op, ast.Add):
        return a + b
    if isinstance(op, ast.Sub):
        return a - b
    if isinstance(op, ast.Mult):
        return a * b
    if isinstance(op, ast.FloorDiv) and not _is_sym(b) and b > 0:
        from vf.pyshim.astz3 import pyfloordiv
        return pyfloordiv(a, b) if _is_sym(a) else a // b
    if isinstance(op, ast.Mod) and not _is_sym(b) and b > 0:
        from vf.pyshim.astz3 import pymod
        return pymod(a, b) if _is_sym(a) else a % b
    raise Untranslatable("operator " + type(op).__name__)


class Interp:
    def __init__(self, env, calls):
        self.calls = calls          # name (as written in the source) -> python callable over values
        self.paths = []
        self.env0 = env

    # ---------------------------------------------------------------- expressions ---
    def ev(self, node, env):
        if isinstance(node, ast.Constant):
            return node.value
        if isinstance(node, ast.Name):
            if node.id in env:
                return env[node.id]
            raise Untranslatable("free name %s" % node.id)
        if isinstance(node, ast.Tuple) or isinstance(node, ast.List):
            return tuple(self.ev(e, env) for e in node.elts)
        if isinstance(node, ast.UnaryOp):
            v = self.ev(node.operand, env)
            if isinstance(node.op, ast.USub):
                return -v
            if isinstance(node.op, ast.Not):
                t = truth(v)
                return z3.Not(t) if _is_sym(t) else (not t)
            raise Untranslatable("unary " + type(node.op).__name__)
        if isinstance(node, ast.BinOp):
            return _arith(node.op, self.ev(node.left, env), self.ev(node.right, env))
        if isinstance(node, ast.BoolOp):
            vs = [truth(self.ev(v, env)) for v in node.values]
            if any(_is_sym(v) for v in vs):
                vs = [v if _is_sym(v) else z3.BoolVal(v) for v in vs]
                return z3.And(*vs) if isinstance(node.op, ast.And) else z3.Or(*vs)
            return all(vs) if isinstance(node.op, ast.And) else any(vs)
        if isinstance(node, ast.Compare) and len(node.ops) == 1:
            a, b = self.ev(node.left, env), self.ev(node.comparators[0], env)
            op = node.ops[0]
            if isinstance(op, (ast.In, ast.NotIn)):
                if hasattr(b, "contains"):
                    r = b.contains(a)
                elif isinstance(b, (tuple, list, str)) and not _is_sym(a):
                    r = a in b
                elif isinstance(b, (tuple, list)):
                    r = z3.Or(*[a == x for x in b])
                else:
                    raise Untranslatable("membership in " + ast.unparse(node.comparators[0]))
                if isinstance(op, ast.NotIn):
                    r = z3.Not(r) if _is_sym(r) else (not r)
                return r
            table = {ast.Eq: lambda: a == b, ast.NotEq: lambda: a != b, ast.Lt: lambda: a < b,
                     ast.LtE: lambda: a <= b, ast.Gt: lambda: a > b, ast.GtE: lambda: a >= b,
                     ast.Is: lambda: a is b if not (_is_sym(a) or _is_sym(b)) else a == b,
                     ast.IsNot: lambda: a is not b if not (_is_sym(a) or _is_sym(b)) else a != b}
            if type(op) in table:
                return table[type(op)]()
            raise Untranslatable("comparison " + type(op).__name__)
        if isinstance(node, ast.IfExp):
            c = truth(self.ev(node.test, env))
            if not _is_sym(c):
                return self.ev(node.body if c else node.orelse, env)
            return z3.If(c, self.ev(node.body, env), self.ev(node.orelse, env))
        if isinstance(node, ast.Subscript):
            base = self.ev(node.value, env)
            idx = self.ev(node.slice, env) if not isinstance(node.slice, ast.Slice) else None
            if idx is None:
                if hasattr(base, "slice"):
                    lo = self.ev(node.slice.lower, env) if node.slice.lower else None
                    hi = self.ev(node.slice.upper, env) if node.slice.upper else None
                    return base.slice(lo, hi)
                raise Untranslatable("slice of " + ast.unparse(node.value))
            if isinstance(base, (tuple, list)):
                if _is_sym(idx):
                    if z3.is_bool(idx) and len(base) == 2:
                        return z3.If(idx, base[1], base[0])
                    raise Untranslatable("symbolic index")
                return base[int(idx)]
            if hasattr(base, "index"):
                return base.index(idx)
            raise Untranslatable("subscript of " + ast.unparse(node.value))
        if isinstance(node, ast.Attribute):
            src = ast.unparse(node)
            if src in self.calls:
                return self.calls[src]
            base = self.ev(node.value, env)
            if hasattr(base, node.attr) and not isinstance(base, (int, str, tuple)):
                return getattr(base, node.attr)
            raise Untranslatable("attribute " + src)
        if isinstance(node, ast.Call):
            src = ast.unparse(node.func)
            args = []
            for a in node.args:
                if isinstance(a, ast.GeneratorExp):
                    args.append(self.genexp(a, env))
                else:
                    args.append(self.ev(a, env))
            kwargs = {k.arg: self.ev(k.value, env) for k in node.keywords}
            if src in self.calls:
                return self.calls[src](*args, **kwargs)
            f = self.ev(node.func, env)
            if callable(f):
                return f(*args, **kwargs)
            raise Untranslatable("call " + src)
        if isinstance(node, ast.GeneratorExp) or isinstance(node, ast.ListComp):
            return self.genexp(node, env)
        raise Untranslatable(ast.unparse(node)[:80])

    def genexp(self, node, env):
        if len(node.generators) != 1 or node.generators[0].ifs:
            raise Untranslatable("comprehension shape")
        g = node.generators[0]
        seq = self.ev(g.iter, env)
        if not isinstance(seq, (tuple, list)):
            raise Untranslatable("comprehension over " + ast.unparse(g.iter))
        out = []
        for x in seq:
            e2 = dict(env)
            self.bind(g.target, x, e2)
            out.append(self.ev(node.elt, e2))
        return tuple(out)

    def bind(self, target, value, env):
        if isinstance(target, ast.Name):
            env[target.id] = value
        elif isinstance(target, (ast.Tuple, ast.List)):
            if not isinstance(value, (tuple, list)) or len(value) != len(target.elts):
                raise Untranslatable("unpacking " + ast.unparse(target))
            for t, v in zip(target.elts, value):
                self.bind(t, v, env)
        else:
            raise Untranslatable("assignment target " + ast.unparse(target))

    # ----------------------------------------------------------------- statements ---
    def block(self, stmts, env, cond):
        """runs stmts; forks at symbolic ifs; records (cond, value) at returns; returns list of (env, cond) that fall
        through"""
        live = [(env, cond)]
        for i, s in enumerate(stmts):
            nxt = []
            for e, c in live:
                nxt += self.stmt(s, e, c)
            live = nxt
            if not live:
                break
            if len(live) + len(self.paths) > MAX_PATHS:
                raise Untranslatable("too many paths")
        return live

    def stmt(self, s, env, cond):
        if isinstance(s, ast.Expr) and isinstance(s.value, ast.Constant):
            return [(env, cond)]
        if isinstance(s, (ast.Import, ast.ImportFrom, ast.Pass)):
            return [(env, cond)]
        if isinstance(s, ast.Assign):
            v = self.ev(s.value, env)
            env = dict(env)
            for t in s.targets:
                self.bind(t, v, env)
            return [(env, cond)]
        if isinstance(s, ast.AugAssign) and isinstance(s.target, ast.Name):
            env = dict(env)
            env[s.target.id] = _arith(s.op, self.ev(s.target, env), self.ev(s.value, env))
            return [(env, cond)]
        if isinstance(s, ast.Return):
            self.paths.append((cond, self.ev(s.value, env) if s.value is not None else None))
            return []
        if isinstance(s, ast.If):
            c = truth(self.ev(s.test, env))
            if not _is_sym(c):
                return self.block(s.body if c else s.orelse, dict(env), cond)
            out = self.block(s.body, dict(env), cond + [c])
            out += self.block(s.orelse, dict(env), cond + [z3.Not(c)])
            return out
        raise Untranslatable("statement " + ast.unparse(s)[:60])


def run(fn, env, calls):
    tree = func_ast(fn)
    it = Interp(env, calls)
    rest = it.block(tree.body, dict(env), [])
    for e, c in rest:
        it.paths.append((c, None))          # fell off the end: returns None
    return it.paths
