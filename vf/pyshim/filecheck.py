"""Structural validator for written Parquet files (used to replay bookkeeping witnesses on real files).
Walks every column chunk page by page using only the recorded offsets/sizes: pages must tile the chunk, sizes and
counts must describe the bytes present.  Returns a list of problems (empty = structurally consistent)."""
import io
import struct


def validate(path):
    import numpy as np
    from fastparquet import cencoding
    from fastparquet.cencoding import from_buffer, ThriftObject
    from fastparquet.compression import decompress_data
    raw = open(path, "rb").read()
    problems = []
    if raw[:4] != b"PAR1" or raw[-4:] != b"PAR1":
        return ["magic bytes"]
    flen = struct.unpack("<I", raw[-8:-4])[0]
    foot = np.frombuffer(raw[len(raw) - 8 - flen:len(raw) - 8], dtype="uint8")
    fio = cencoding.NumpyIO(foot)
    fmd = ThriftObject("FileMetaData", cencoding.read_thrift(fio))
    if fio.tell() != flen:
        problems.append("footer length field %d but footer occupies %d bytes" % (flen, fio.tell()))
    problems += idl_conformance("FileMetaData", bytes(foot))
    total_rows = 0
    for ri, rg in enumerate(fmd.row_groups):
        total_rows += rg.num_rows
        tb = 0
        for ci, col in enumerate(rg.columns):
            if col.file_path:
                continue
            md = col.meta_data
            start = md.data_page_offset
            if md.dictionary_page_offset is not None:
                start = min(start, md.dictionary_page_offset)
            pos = start
            end = start + md.total_compressed_size
            nvals, nnulls, unc, first_data, first_dict = 0, 0, 0, None, None
            codec = md.codec
            while pos < end:
                buf = np.frombuffer(raw[pos:min(len(raw), pos + 100000)], dtype="uint8")
                pio = cencoding.NumpyIO(buf)
                ph = ThriftObject("PageHeader", cencoding.read_thrift(pio))
                hl = pio.tell()
                problems += ["rg%d col%d page at %d: %s" % (ri, ci, pos, p) for p in
                             idl_conformance("PageHeader", raw[pos:pos + hl])]
                body = raw[pos + hl:pos + hl + ph.compressed_page_size]
                if len(body) != ph.compressed_page_size:
                    problems.append("rg%d col%d: page at %d runs past the end of the file" % (ri, ci, pos))
                    break
                if ph.type == 2:
                    first_dict = pos if first_dict is None else first_dict
                    data = decompress_data(body, ph.uncompressed_page_size, codec) if codec else body
                    if len(data) != ph.uncompressed_page_size:
                        problems.append("rg%d col%d: dictionary page uncompressed size" % (ri, ci))
                elif ph.type == 0:
                    first_data = pos if first_data is None else first_data
                    data = decompress_data(body, ph.uncompressed_page_size, codec) if codec else body
                    if len(data) != ph.uncompressed_page_size:
                        problems.append("rg%d col%d: v1 page uncompressed size %d != %d" % (
                            ri, ci, len(data), ph.uncompressed_page_size))
                    nvals += ph.data_page_header.num_values
                elif ph.type == 3:
                    first_data = pos if first_data is None else first_data
                    h2 = ph.data_page_header_v2
                    lev = (h2.definition_levels_byte_length or 0) + (h2.repetition_levels_byte_length or 0)
                    vals = body[lev:]
                    if lev > len(body):
                        problems.append("rg%d col%d: v2 level bytes exceed the page" % (ri, ci))
                    if h2.is_compressed and codec:
                        vals = decompress_data(vals, ph.uncompressed_page_size - lev, codec)
                    if len(vals) + lev != ph.uncompressed_page_size:
                        problems.append("rg%d col%d: v2 page uncompressed size %d != %d" % (
                            ri, ci, len(vals) + lev, ph.uncompressed_page_size))
                    nvals += h2.num_values
                    nnulls += h2.num_nulls
                else:
                    problems.append("rg%d col%d: unknown page type %r" % (ri, ci, ph.type))
                unc += hl + ph.uncompressed_page_size
                pos += hl + ph.compressed_page_size
            if pos != end:
                problems.append("rg%d col%d: pages end at %d, total_compressed_size says %d" % (ri, ci, pos, end))
            if nvals != md.num_values:
                problems.append("rg%d col%d: page num_values sum %d != chunk num_values %d" % (ri, ci, nvals,
                                                                                            md.num_values))
            if md.num_values != rg.num_rows:
                problems.append("rg%d col%d: chunk num_values %d != row group rows %d" % (ri, ci, md.num_values,
                                                                                         rg.num_rows))
            if unc != md.total_uncompressed_size:
                problems.append("rg%d col%d: total_uncompressed_size %d != %d" % (ri, ci, md.total_uncompressed_size,
                                                                                 unc))
            if first_data is not None and md.data_page_offset != first_data:
                problems.append("rg%d col%d: data_page_offset %d, first data page at %d" % (
                    ri, ci, md.data_page_offset, first_data))
            if first_dict is not None and md.dictionary_page_offset != first_dict:
                problems.append("rg%d col%d: dictionary_page_offset" % (ri, ci))
            if first_dict is None and md.dictionary_page_offset is not None:
                problems.append("rg%d col%d: dictionary_page_offset set but no dictionary page" % (ri, ci))
            st = md.statistics
            if st is not None and st.null_count is not None and nnulls and st.null_count != nnulls:
                problems.append("rg%d col%d: null_count %d != sum of page nulls %d" % (ri, ci, st.null_count, nnulls))
            tb += md.total_uncompressed_size
        if rg.total_byte_size != tb:
            problems.append("rg%d: total_byte_size %d != sum of chunk uncompressed sizes %d" % (ri, rg.total_byte_size,
                                                                                              tb))
    if fmd.num_rows != total_rows:
        problems.append("file num_rows %d != sum of row groups %d" % (fmd.num_rows, total_rows))
    return problems


_IDL = [None]


def idl_conformance(sname, data):
    """the bytes of one serialised structure against parquet.thrift: field ids, wire types, nothing left over"""
    from vf.pyxlift import idl as IDLM, idl_bytes
    if _IDL[0] is None:
        _IDL[0] = IDLM.parse()
    try:
        toks, end = idl_bytes.to_tokens(_IDL[0], sname, data)
        ref, seen, pos = IDLM.decode(_IDL[0], sname, toks, 0)
    except (IDLM.Malformed, ValueError, IndexError) as ex:
        return ["%s does not follow parquet.thrift: %s" % (sname, ex)]
    if end != len(data):
        return ["%s occupies %d of its %d bytes" % (sname, end, len(data))]
    return []
