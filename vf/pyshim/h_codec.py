"""C01 / C02: codec dispatch.  The real compression.compress_data / decompress_data run with the codec tables replaced
by recorders: whichever way the codec is named (text in any case, a per-column dict with or without arguments, the
numeric code stored in a column chunk) the bytes go through the compressor / decompressor OF THAT CODEC, with the
caller's arguments and the recorded uncompressed size.  (What the codecs themselves do is cramjam's business.)"""
from typing import List

from vf.pyshim.kit import REPLAY

import fastparquet.compression as comp
from fastparquet import parquet_thrift

NAMES = ["UNCOMPRESSED", "SNAPPY", "GZIP", "BROTLI", "LZ4", "ZSTD", "LZ4_RAW"]


def _pick(v, lo, hi):
    for k in range(lo, hi + 1):
        if v == k:
            return k
    raise ValueError(v)


class _Arr:
    def __init__(self, n):
        self.n = n


class _NP:
    uint8 = "uint8"

    @staticmethod
    def empty(n, dtype=None):
        return _Arr(n)

    @staticmethod
    def frombuffer(data, dtype=None):
        return data


def h_codec_dispatch(ic: int, how: int, size: int, level: int) -> bool:
    """
    pre: 0 <= ic < 7 and 0 <= how <= 4 and 0 <= size <= 1 << 40 and 1 <= level <= 9
    post: __return__
    """
    # how: 0 upper-case name, 1 lower-case name, 2 {'type': name}, 3 {'type': name, 'args': {...}}, 4 numeric code
    ic, how = _pick(ic, 0, 6), _pick(how, 0, 4)
    name = NAMES[ic]
    calls = []
    saved = (comp.compressions, comp.decompressions, comp.decom_into, comp.np)
    comp.compressions = {n: (lambda data, n=n, **kw: calls.append(("c", n, data, kw)) or ("packed", n)) for n in NAMES}
    comp.decompressions = {n: (lambda data, sz, n=n: calls.append(("d", n, data, sz)) or ("plain", n)) for n in NAMES}
    comp.decom_into = {n: (lambda data, out, n=n: calls.append(("di", n, data, out.n))) for n in saved[2]}
    comp.np = _NP
    try:
        spec = [name, name.lower(), {"type": name}, {"type": name.lower(), "args": {"level": level}},
                getattr(parquet_thrift.CompressionCodec, name)][how]
        if how < 4:
            out = comp.compress_data("payload", spec)
            want_kw = {"level": level} if how == 3 else {}
            if calls != [("c", name, "payload", want_kw)] or out != ("packed", name):
                return False
        calls.clear()
        back = comp.decompress_data("packed-bytes", size, spec if how in (0, 1, 4) else name)
    finally:
        comp.compressions, comp.decompressions, comp.decom_into, comp.np = saved
    if len(calls) != 1:
        return False
    kind, n, data, sz = calls[0]
    if n != name or data != "packed-bytes" or sz != size:
        return False
    # decompress-into codecs hand back the buffer they filled, allocated with the recorded size
    return (kind == "di" and isinstance(back, _Arr) and back.n == size) or (kind == "d" and back == ("plain", name))


def replay_h_codec_dispatch(ic, how, size, level):
    import numpy as np
    name = NAMES[ic]
    payload = bytes(range(256)) * 8
    spec = [name, name.lower(), {"type": name}, {"type": name.lower(), "args": {"level": min(level, 9)}},
            getattr(parquet_thrift.CompressionCodec, name)][how]
    try:
        if how == 3 and name in ("UNCOMPRESSED", "SNAPPY", "LZ4", "LZ4_RAW"):
            spec = {"type": name.lower()}
        packed = comp.compress_data(payload, spec) if how < 4 else comp.compress_data(payload, name)
        back = comp.decompress_data(bytes(packed), len(payload), spec if how in (0, 1, 4) else name)
    except Exception as ex:
        return True, "codec %r named as %r fails: %s: %s" % (name, spec, type(ex).__name__, str(ex)[:80])
    if bytes(back) != payload:
        return True, "codec %r named as %r does not round-trip" % (name, spec)
    return False, "dispatch and round trip fine"
