"""C06 (placement arithmetic of partial/full reads) and C13-F2 (two-pass masked placement).
Real functions: ParquetFile.to_pandas, head, count, __len__, iter_row_groups' selection - called unbound on a shim
handle whose row groups carry symbolic num_rows; pre_allocate / read_row_group_file record what they are given."""
import os
from typing import List

from vf.pyshim.kit import BoolVec, NPVec, REPLAY

import fastparquet.api as api
from fastparquet.api import ParquetFile

if not REPLAY:
    api.np = NPVec


class RG:
    def __init__(self, n, tag):
        self.num_rows, self.tag = n, tag


class Part:
    def __init__(self, start, stop):
        self.start, self.stop = start, stop


class View:
    """a pre-allocated output column of `size` rows: slicing records the clamped [start, stop)"""

    def __init__(self, size):
        self.size = size

    def __getitem__(self, s):
        a = 0 if s.start is None else s.start
        b = self.size if s.stop is None else s.stop
        if a < 0 or b < 0:
            raise IndexError("negative slice bound in placement")
        a = min(a, self.size)
        b = min(max(b, a), self.size)
        return Part(a, b)


class _CallerFile:
    """an open file object handed in by the caller (ParquetFile(fileobj)): fastparquet must not close it"""

    def __init__(self):
        self.closed = False
        self.opens = 0

    def close(self):
        self.closed = True

    def __enter__(self):
        return self

    def __exit__(self, *a):
        self.closed = True
        return False


class _Fmd:
    def __init__(self, rows, rgs):
        total = 0
        for n in rows:
            total = total + n
        self.num_rows = total
        self.row_groups = rgs


class Handle:
    """what to_pandas/head/count read from `self`"""

    def __init__(self, rows, scheme="hive"):
        self.row_groups = [RG(n, i) for i, n in enumerate(rows)]
        self.fmd = _Fmd(rows, self.row_groups)        # the footer of an unsliced handle: num_rows = sum of its groups
        self.columns = ["a"]
        self.cats = {}
        self.key_value_metadata = {}
        self.file_scheme = scheme
        self.partition_meta = {}
        self.fn = "d/_metadata" if scheme == "hive" else "f.parq"
        self.allocated = None
        self.reads = []
        self.sliced = None
        self.file = _CallerFile()

    def open(self, fn, mode="rb"):
        # a handle built from a file object returns that very object (api.ParquetFile.__init__: self.open = lambda *a: fn)
        self.file.opens += 1
        return self.file

    def _get_index(self, index=None):
        return []

    def pre_allocate(self, size, columns, categories, index, dtypes=None):
        self.allocated = size
        return "frame", {"a": View(size), "a-catdef": "catdef"}

    def read_row_group_file(self, rg, columns, categories, index, assign=None, partition_meta=None,
                            row_filter=False, infile=None):
        if infile is not None and infile.closed:
            raise ValueError("I/O operation on closed file.")
        if self.file_scheme == "simple" and infile is not self.file:
            raise AssertionError("single-file read without the shared file object")
        self.reads.append((rg.tag, assign["a"].start, assign["a"].stop, row_filter, assign["a-catdef"]))

    _columns_from_filters = ParquetFile._columns_from_filters
    _column_filter = ParquetFile._column_filter
    to_pandas = ParquetFile.to_pandas
    count = ParquetFile.count
    head = ParquetFile.head

    def __getitem__(self, item):
        self.sliced = item
        return _Sliced(self.row_groups[item])


class _Sliced:
    def __init__(self, rgs):
        self.rgs = rgs

    def to_pandas(self, **kw):
        return _Rows(sum(rg.num_rows for rg in self.rgs))


class _Rows:
    def __init__(self, n):
        self.n = n

    def head(self, k):
        return min(self.n, max(k, 0))


if not REPLAY:
    api.filter_row_groups = lambda pf, filters, as_idx=False: list(pf.row_groups)   # pruning is C05's subject


# ------------------------------------------------------------- C06: full read ---
def h_to_pandas_plain(n0: int, n1: int, n2: int, n3: int, k: int) -> bool:
    """
    pre: 0 <= k <= 4
    pre: 0 <= n0 < 2147483648 and 0 <= n1 < 2147483648 and 0 <= n2 < 2147483648 and 0 <= n3 < 2147483648
    post: __return__
    """
    rows = [n0, n1, n2, n3][:k]
    h = Handle(rows)
    h.to_pandas()
    total = sum(rows)
    if h.allocated != total:
        return False
    # every row group (including empty ones is fine to skip or to read as an empty range) is placed at
    # [sum of previous, + num_rows) and is read unmasked, in order
    pos = 0
    want = []
    for i, n in enumerate(rows):
        want.append((i, pos, pos + n, None, "catdef"))
        pos += n
    got = [r for r in h.reads]
    want_nonempty = [w for w in want if w[2] > w[1]]
    got_nonempty = [g for g in got if g[2] > g[1]]
    return got_nonempty == want_nonempty and all(g in want for g in got)


def _real_groups(rows):
    """a real single file whose row groups have (scaled down) the witness's sizes; returns (path, frame, dir)"""
    import os, tempfile
    import pandas as pd
    import fastparquet
    rows = [min(int(r), 40) for r in rows]
    nz = [r for r in rows if r > 0]
    if not nz:
        return None, None, None
    d = tempfile.mkdtemp(prefix="c06-")
    df = pd.DataFrame({"a": range(sum(nz))})
    offs = [0]
    for n in nz[:-1]:
        offs.append(offs[-1] + n)
    fn = os.path.join(d, "t.parq")
    fastparquet.write(fn, df, row_group_offsets=offs)
    return fn, df, d


def replay_h_to_pandas_plain(n0, n1, n2, n3, k):
    import shutil
    import fastparquet
    fn, df, d = _real_groups([n0, n1, n2, n3][:k])
    if fn is None:
        return None, "no rows"
    try:
        pf = fastparquet.ParquetFile(fn)
        out = pf.to_pandas()
        if list(out["a"]) != list(df["a"]) or pf.count() != len(df):
            return True, "full read of row groups %r returns %d rows / count() %d, written %d" % (
                [rg.num_rows for rg in pf.row_groups], len(out), pf.count(), len(df))
        parts = [x for i in range(len(pf.row_groups)) for x in pf[i].to_pandas()["a"]]
        if parts != list(df["a"]):
            return True, "row-group picks do not concatenate to the full read"
        return False, "agrees"
    finally:
        shutil.rmtree(d, ignore_errors=True)


def h_count_len(n0: int, n1: int, n2: int, k: int) -> bool:
    """
    pre: 0 <= k <= 3 and 0 <= n0 and 0 <= n1 and 0 <= n2
    post: __return__
    """
    rows = [n0, n1, n2][:k]
    h = Handle(rows)
    return h.count() == sum(rows)


def replay_h_count_len(n0, n1, n2, k):
    return replay_h_to_pandas_plain(n0, n1, n2, 0, k)


def h_head(n0: int, n1: int, n2: int, k: int, nrows: int) -> int:
    """
    pre: 1 <= k <= 3 and 0 <= n0 and 0 <= n1 and 0 <= n2 and 0 <= nrows
    post: __return__ == min(nrows, sum([n0, n1, n2][:k]))
    """
    # head(n) must deliver the first min(n, total) rows: the prefix of row groups it reads has to hold that many
    rows = [n0, n1, n2][:k]
    h = Handle(rows)
    got = h.head(nrows)
    s = h.sliced
    assert s.start in (None, 0) and s.step in (None, 1)       # a prefix of the row groups, in order
    return got


def h_head_small(n0: int, n1: int, n2: int, k: int, nrows: int) -> int:
    """
    pre: 1 <= k <= 3 and 1 <= n0 <= 6 and 1 <= n1 <= 6 and 1 <= n2 <= 6 and 0 <= nrows <= 20
    post: __return__ == min(nrows, sum([n0, n1, n2][:k]))
    """
    # the same over small non-empty row groups (every witness can be written as a real file)
    rows = [n0, n1, n2][:k]
    h = Handle(rows)
    got = h.head(nrows)
    s = h.sliced
    assert s.start in (None, 0) and s.step in (None, 1)
    return got


def replay_h_head_small(n0, n1, n2, k, nrows):
    return replay_h_head(n0, n1, n2, k, nrows)


def replay_h_head(n0, n1, n2, k, nrows):
    import tempfile, os, shutil
    import pandas as pd
    import fastparquet
    rows = [n0, n1, n2][:k]
    if sum(rows) > 5000 or min(rows + [1]) < 1:
        return None, "witness too large / has empty groups for the concrete driver"
    df = pd.DataFrame({"a": range(sum(rows))})
    offs = [0]
    for n in rows[:-1]:
        offs.append(offs[-1] + n)
    d = tempfile.mkdtemp(prefix="c06-")
    try:
        fn = os.path.join(d, "t.parq")
        fastparquet.write(fn, df, row_group_offsets=offs)
        pf = fastparquet.ParquetFile(fn)
        got = pf.head(nrows)
        want = pf.to_pandas().head(nrows)
        if list(got["a"]) != list(want["a"]):
            return True, "head(%d) on row groups %r returns %d rows, full read gives %d" % (nrows, rows, len(got),
                                                                                           len(want))
        return False, "agrees"
    finally:
        shutil.rmtree(d, ignore_errors=True)


# ----------------------------------------------------- C13-F2: masked placement ---
ROWS = [int(x) for x in os.environ.get("VERIF_ROWS", "2,1,2").split(",")]    # concrete row-group sizes (lattice)


def h_to_pandas_mask2(n0: int, n1: int, mask: List[bool]) -> bool:
    """
    pre: 0 <= n0 <= 2 and 0 <= n1 <= 2 and len(mask) == n0 + n1
    post: __return__
    """
    return _mask_case([n0, n1], mask)


def replay_h_to_pandas_mask2(n0, n1, mask):
    return replay_h_to_pandas_mask(mask, [n0, n1])


def h_to_pandas_mask(mask: List[bool]) -> bool:
    """
    pre: len(mask) == sum(ROWS)
    post: __return__
    """
    return _mask_case(list(ROWS), mask)


def _mask_case(rows, mask):
    h = Handle(rows)
    h.to_pandas(row_filter=BoolVec(mask))
    total = 0
    for m in mask:
        if m:
            total += 1
    if h.allocated != total:
        return False
    pos, off = 0, 0
    want = []
    for i, n in enumerate(rows):
        bits = mask[off:off + n]
        cnt = 0
        for m in bits:
            if m:
                cnt += 1
        if cnt > 0:
            want.append((i, pos, pos + cnt, None if cnt == n else bits))
        pos += cnt
        off += n
    got = []
    for tag, a, b, sel, cd in h.reads:
        if cd != "catdef":
            return False
        if b > a:
            got.append((tag, a, b, None if sel is None else list(sel)))
        elif rows[tag] != 0:
            return False        # only a row group that holds no rows may be "read" into an empty range
    return got == want


def replay_h_to_pandas_mask(mask, rows=None):
    import tempfile, os, shutil
    import numpy as np
    import pandas as pd
    import fastparquet
    rows = list(rows or ROWS)
    if min(rows) < 1:
        return None, "empty row groups cannot be written by the concrete driver"
    df = pd.DataFrame({"a": range(sum(rows))})
    offs = [0]
    for n in rows[:-1]:
        offs.append(offs[-1] + n)
    d = tempfile.mkdtemp(prefix="c13-")
    try:
        fn = os.path.join(d, "t.parq")
        fastparquet.write(fn, df, row_group_offsets=offs)
        pf = fastparquet.ParquetFile(fn)
        got = list(pf.to_pandas(row_filter=np.array(mask, dtype=bool))["a"])
        want = [i for i, m in enumerate(mask) if m]
        if got != want:
            return True, "mask %r over row groups %r selects rows %r, expected %r" % (mask, rows, got, want)
        return False, "agrees"
    finally:
        shutil.rmtree(d, ignore_errors=True)


def h_to_pandas_mask_wrong_length(n0: int, n1: int, extra: int) -> bool:
    """
    pre: 0 <= n0 <= 3 and 0 <= n1 <= 3 and -2 <= extra <= 2 and extra != 0 and n0 + n1 + extra >= 0
    post: __return__
    """
    # a caller-supplied mask of the wrong length is refused, never applied
    h = Handle([n0, n1])
    try:
        h.to_pandas(row_filter=BoolVec([True] * (n0 + n1 + extra)))
    except ValueError:
        return h.reads == []
    return False


def replay_h_to_pandas_mask_wrong_length(n0, n1, extra):
    import shutil
    import numpy as np
    import fastparquet
    fn, df, d = _real_groups([max(n0, 1), max(n1, 1)])
    try:
        pf = fastparquet.ParquetFile(fn)
        try:
            out = pf.to_pandas(row_filter=np.ones(len(df) + extra, dtype=bool))
        except ValueError:
            return False, "refused"
        except Exception as ex:
            return True, "a mask of the wrong length is not refused cleanly: %s" % type(ex).__name__
        return True, "a mask of length %d was applied to %d rows (returned %d rows)" % (len(df) + extra, len(df),
                                                                                        len(out))
    finally:
        shutil.rmtree(d, ignore_errors=True)


# ----------------------------------------------- C06: range-index reconstruction ---
class _RangeShim:
    """pandas.RangeIndex(start, stop, step) contract: the arithmetic progression of Python's range"""

    def __init__(self, start=0, stop=None, step=1):
        self.r = range(start, stop, step)

    def __getitem__(self, s):
        out = _RangeShim.__new__(_RangeShim)
        out.r = self.r[s]
        return out

    def __len__(self):
        return len(self.r)


class _DF:
    class _Cols:
        names = None

    def __init__(self, size=0):
        self.index = _DF._Idx()
        self.index.r = range(size)             # the allocated frame starts with the default index 0..size-1
        self.columns = _DF._Cols()

    class _Idx:
        names = None


class _PA:
    cats = {}
    tz = None
    _columns_dtype = None
    has_pandas_metadata = True

    def __init__(self, start, step, stop=0):
        self.pandas_metadata = {"columns": [], "index_columns": [{"kind": "range", "name": None, "start": start,
                                                                  "stop": stop, "step": step}],
                                "column_indexes": []}

    def _dtypes(self, categories):
        return {}

    def check_categories(self, categories):
        return {}

    pre_allocate = ParquetFile.pre_allocate


def _pick_i(v, lo, hi):
    for k in range(lo, hi + 1):
        if v == k:
            return k
    raise ValueError(v)


def h_range_index(start: int, step: int, size: int, first: int = 1) -> bool:
    """
    pre: step != 0 and -3 <= step <= 3 and 1 <= size <= 5 and -2 <= start <= 2 and 1 <= first <= 5
    post: __return__
    """
    # the regenerated range index has exactly `size` labels start, start+step, ... (pandas refuses an index of the
    # wrong length, so a wrong count surfaces as an exception on read).  The three parameters are enumerated by
    # branching (every start incl. 0, every step incl. 1): which of them the code treats specially is its business;
    # all integer starts / sizes of the arithmetic itself are the SMT lemma's subject (lemmas.range_index)
    start, step, size, first = _pick_i(start, -2, 2), _pick_i(step, -3, 3), _pick_i(size, 1, 5), _pick_i(first, 1, 5)
    # the recorded `stop` is that of the FIRST frame written (`first` rows); appends and row-group selections change
    # the number of rows read, not the metadata
    stop = start + first * step
    import pandas
    orig = pandas.RangeIndex
    pandas.RangeIndex = _RangeShim
    old = api._pre_allocate
    api._pre_allocate = lambda n, *a, **k: (_DF(n), {})
    try:
        df, _ = _PA(start, step, stop).pre_allocate(size, ["a"], None, None)
    finally:
        pandas.RangeIndex = orig
        api._pre_allocate = old
    r = df.index.r
    return len(r) == size and all(r[k] == start + k * step for k in range(size))


def replay_h_range_index(start, step, size, first=1):
    import tempfile, os, shutil
    import pandas as pd
    import fastparquet
    if size < 1:
        return None, "empty frame"
    df = pd.DataFrame({"a": range(size)}, index=pd.RangeIndex(start, start + size * step, step))
    d = tempfile.mkdtemp(prefix="c06-")
    try:
        fn = os.path.join(d, "t.parq")
        if 1 <= first < size:
            # the first `first` rows written, the rest appended
            fastparquet.write(fn, df.iloc[:first])
            fastparquet.write(fn, df.iloc[first:], append=True)
        else:
            fastparquet.write(fn, df)
        try:
            out = fastparquet.ParquetFile(fn).to_pandas()
        except Exception as ex:
            return True, "frame with RangeIndex(start=%d, step=%d, %d rows) is written but cannot be read back: %s: %s" % (
                start, step, size, type(ex).__name__, str(ex)[:120])
        if list(out.index) != list(df.index):
            return True, "range index comes back as %r, written %r" % (list(out.index)[:6], list(df.index)[:6])
        return False, "agrees"
    finally:
        shutil.rmtree(d, ignore_errors=True)



# --------------------------------------------- repeated use of one handle (C06 / C13) ---
def _snapshot(h):
    return (h.allocated, list(h.reads))


def h_repeat_reads_filelike(n0: int, n1: int, first: int) -> bool:
    """
    pre: 1 <= n0 <= 3 and 1 <= n1 <= 3 and 0 <= first <= 2
    post: __return__
    """
    # a handle on a caller-supplied open file: any first operation (full read / head / count) leaves the file open and
    # the handle unchanged, so a following full read equals the read of a fresh handle
    h = Handle([n0, n1], scheme="simple")
    if first == 0:
        h.to_pandas()
    elif first == 1:
        if n0 + n1 > 0:
            h.count()
    else:
        h.count()
    if h.file.closed:
        return False
    h.allocated, h.reads = None, []
    h.to_pandas()
    fresh = Handle([n0, n1], scheme="simple")
    fresh.to_pandas()
    return _snapshot(h) == _snapshot(fresh) and not h.file.closed and [rg.num_rows for rg in h.row_groups] == [n0, n1]


def replay_h_repeat_reads_filelike(n0, n1, first):
    import io, os, shutil, tempfile
    import pandas as pd
    import fastparquet
    rows = [n for n in (n0, n1) if n > 0]
    if not rows:
        return None, "no rows"
    df = pd.DataFrame({"a": range(sum(rows))})
    d = tempfile.mkdtemp(prefix="c06-")
    try:
        fn = os.path.join(d, "t.parq")
        fastparquet.write(fn, df, row_group_offsets=[0, rows[0]][:len(rows)])
        with open(fn, "rb") as f:
            pf = fastparquet.ParquetFile(f)
            try:
                if first == 0:
                    pf.to_pandas()
                else:
                    pf.count()
                out = pf.to_pandas()
            except Exception as ex:
                return True, "second read through a handle on an open file object fails: %s: %s" % (
                    type(ex).__name__, ex)
            if list(out["a"]) != list(df["a"]):
                return True, "second read differs"
            if f.closed:
                return True, "reading through a handle built on the caller's open file object closed that file"
        return False, "agrees"
    finally:
        shutil.rmtree(d, ignore_errors=True)


def h_mask_then_reads(mask: List[bool]) -> bool:
    """
    pre: len(mask) == sum(ROWS)
    post: __return__
    """
    # a masked read must not disturb the handle: the following plain read and count equal those of a fresh handle
    h = Handle(list(ROWS))
    h.to_pandas(row_filter=BoolVec(mask))
    h.allocated, h.reads = None, []
    h.to_pandas()
    fresh = Handle(list(ROWS))
    fresh.to_pandas()
    return _snapshot(h) == _snapshot(fresh) and h.count() == sum(ROWS)


def replay_h_mask_then_reads(mask):
    import os, shutil, tempfile
    import numpy as np
    import pandas as pd
    import fastparquet
    rows = [r for r in ROWS]
    if min(rows) < 1:
        return None, "empty row groups cannot be written by the concrete driver"
    df = pd.DataFrame({"a": range(sum(rows))})
    offs = [0]
    for n in rows[:-1]:
        offs.append(offs[-1] + n)
    d = tempfile.mkdtemp(prefix="c13-")
    try:
        fn = os.path.join(d, "t.parq")
        fastparquet.write(fn, df, row_group_offsets=offs)
        pf = fastparquet.ParquetFile(fn)
        pf.to_pandas(row_filter=np.array(mask, dtype=bool))
        try:
            out = pf.to_pandas()
            cnt = pf.count()
        except Exception as ex:
            return True, "read after a masked read fails: %s" % ex
        if list(out["a"]) != list(df["a"]) or cnt != len(df):
            return True, "after to_pandas(row_filter=%r) the same handle returns %d rows (count()=%d) of %d" % (
                mask, len(out), cnt, len(df))
        return False, "agrees"
    finally:
        shutil.rmtree(d, ignore_errors=True)



# ----------------------------------------------------------------- iteration row group by row group ---
class _IterHandle(Handle):
    """row groups are real RowGroup objects (iter_row_groups finds each one's position with list.index, i.e. by the
    metadata's own equality)"""

    def __init__(self, rows):
        Handle.__init__(self, rows)
        from fastparquet import parquet_thrift
        self.row_groups = [parquet_thrift.RowGroup(num_rows=n, total_byte_size=100 + i, columns=[])
                           for i, n in enumerate(rows)]
        self.picked = []

    def __getitem__(self, item):
        self.picked.append(item)
        return _Sliced([self.row_groups[item]])

    iter_row_groups = ParquetFile.iter_row_groups


class _Df:
    def __init__(self, n):
        self.n = n

    @property
    def empty(self):
        return self.n == 0


def h_iter_row_groups(n0: int, n1: int, n2: int, k: int) -> bool:
    """
    pre: 0 <= k <= 3 and 0 <= n0 < 2147483648 and 0 <= n1 < 2147483648 and 0 <= n2 < 2147483648
    post: __return__
    """
    # iterating yields one frame per non-empty row group, in order, each read from its own row group
    rows = [n0, n1, n2][:k]
    h = _IterHandle(rows)
    saved = _Sliced.to_pandas
    _Sliced.to_pandas = lambda self, **kw: _Df(sum(rg.num_rows for rg in self.rgs))
    try:
        out = [df.n for df in h.iter_row_groups()]
    finally:
        _Sliced.to_pandas = saved
    return h.picked == list(range(k)) and out == [n for n in rows if n > 0]


def replay_h_iter_row_groups(n0, n1, n2, k):
    import shutil
    import fastparquet
    fn, df, d = _real_groups([n0, n1, n2][:k])
    if fn is None:
        return None, "no rows"
    try:
        pf = fastparquet.ParquetFile(fn)
        got = [x for part in pf.iter_row_groups() for x in part["a"]]
        if got != list(df["a"]):
            return True, "iter_row_groups over %r yields rows %r..., full read %r..." % (
                [rg.num_rows for rg in pf.row_groups], got[:6], list(df["a"])[:6])
        return False, "agrees"
    finally:
        shutil.rmtree(d, ignore_errors=True)


OPTION_VALUES = dict(columns=["a"], categories=[], index=False, row_filter=False, dtypes={})


def h_iter_row_groups_options(g_columns: bool, g_categories: bool, g_index: bool, g_row_filter: bool,
                              g_dtypes: bool, n0: int, n1: int) -> bool:
    """
    pre: 1 <= n0 < 2147483648 and 1 <= n1 < 2147483648
    post: __return__
    """
    # every read option given to iter_row_groups reaches the read of every row group with the value given (so each part
    # is what to_pandas with the same options gives for that row group); options not given are not invented
    given = dict(columns=g_columns, categories=g_categories, index=g_index, row_filter=g_row_filter, dtypes=g_dtypes)
    kw = {k: OPTION_VALUES[k] for k in OPTION_VALUES if given[k]}
    h = _IterHandle([n0, n1])
    h.cats = {}
    seen = []
    saved = _Sliced.to_pandas

    def rec(self, **kwargs):
        seen.append(kwargs)
        return _Df(1)
    _Sliced.to_pandas = rec
    try:
        parts = len(list(h.iter_row_groups(**kw)))
    finally:
        _Sliced.to_pandas = saved
    if parts != 2 or len(seen) != 2:
        return False
    for got in seen:
        eff = {k: v for k, v in got.items() if not (k == "filters" and not v)}
        for k in OPTION_VALUES:
            if given[k]:
                if k not in eff or eff[k] is not OPTION_VALUES[k] and eff[k] != OPTION_VALUES[k]:
                    return False
            elif eff.get(k) is not None:
                return False
    return True


def replay_h_iter_row_groups_options(g_columns, g_categories, g_index, g_row_filter, g_dtypes, n0, n1):
    import shutil, tempfile, os
    import pandas as pd
    import fastparquet
    given = dict(columns=g_columns, categories=g_categories, index=g_index, row_filter=g_row_filter, dtypes=g_dtypes)
    kw = {k: OPTION_VALUES[k] for k in OPTION_VALUES if given[k]}
    kw.pop("dtypes", None)
    d = tempfile.mkdtemp(prefix="c06-")
    try:
        fn = os.path.join(d, "t.parq")
        df = pd.DataFrame({"a": pd.Categorical(["x", "y", "x", "z"]), "b": [1, 2, 3, 4]},
                          index=pd.Index([10, 11, 12, 13], name="k"))
        fastparquet.write(fn, df, row_group_offsets=[0, 2])
        pf = fastparquet.ParquetFile(fn)
        parts = list(pf.iter_row_groups(**kw))
        for i, part in enumerate(parts):
            want = pf[i].to_pandas(**kw)
            if list(part.columns) != list(want.columns) or [str(t) for t in part.dtypes] != [str(t) for t in
                                                                                             want.dtypes]:
                return True, ("iter_row_groups(%s): part %d has columns %r of dtypes %r; to_pandas with the same "
                              "options on that row group gives %r of dtypes %r" % (
                                  ", ".join("%s=%r" % kv for kv in kw.items()), i, list(part.columns),
                                  [str(t) for t in part.dtypes], list(want.columns), [str(t) for t in want.dtypes]))
        return False, "parts agree with the per-row-group reads"
    finally:
        shutil.rmtree(d, ignore_errors=True)


# ------------------------------------------------------------------ sliced handles ---
SLICES = [0, 1, 2, slice(0, 2), slice(1, 3), slice(None, None, 2), slice(2, None), slice(0, 0), slice(None)]


def _real_handle(rows):
    """a real ParquetFile over real thrift metadata (row counts symbolic), built the way __getitem__ builds one"""
    from fastparquet import parquet_thrift as pt
    rgs = []
    for i, n in enumerate(rows):
        md = pt.ColumnMetaData(type=2, encodings=[0], path_in_schema=["a"], codec=0, num_values=n,
                               total_uncompressed_size=8, total_compressed_size=8, data_page_offset=4,
                               statistics=pt.Statistics(null_count=0))
        rgs.append(pt.RowGroup(columns=[pt.ColumnChunk(file_offset=4, meta_data=md)], total_byte_size=8, num_rows=n))
    total = 0
    for n in rows:
        total = total + n
    fmd = pt.FileMetaData(version=1, schema=[pt.SchemaElement(name="schema", num_children=1),
                                              pt.SchemaElement(name="a", type=2, repetition_type=0)],
                          num_rows=total, row_groups=rgs, created_by=b"x")
    pf = object.__new__(ParquetFile)
    pf.__setstate__({"fn": "f.parq", "open": None, "fmd": fmd, "pandas_nulls": True, "_base_dtype": None,
                     "tz": None, "_columns_dtype": None})
    return pf


def h_slice_count(n0: int, n1: int, n2: int, si: int) -> bool:
    """
    pre: 0 <= si < 9 and 0 <= n0 < 2147483648 and 0 <= n1 < 2147483648 and 0 <= n2 < 2147483648
    post: __return__
    """
    # a handle obtained by picking / slicing row groups reports the rows of exactly those row groups
    rows = [n0, n1, n2]
    pf = _real_handle(rows)
    item = SLICES[si]
    sub = pf[item]
    picked = rows[item] if isinstance(item, slice) else [rows[item]]
    want = 0
    for n in picked:
        want = want + n
    bad = 0
    bad += (len(sub.row_groups) != len(picked))
    bad += (sub.count() != want)
    bad += (sub.info["rows"] != want)
    bad += (pf.count() != n0 + n1 + n2)
    return bad == 0


def h_slice_state(n0: int, n1: int, n2: int, si: int, stats_first: bool, tzname: int) -> bool:
    """
    pre: 0 <= si < 9 and 0 <= n0 < 1000 and 0 <= n1 < 1000 and 0 <= n2 < 1000 and 0 <= tzname < 2
    post: __return__
    """
    # what a sliced handle carries over from its parent: the read options that determine dtypes (time zones, column
    # index dtype, pandas_nulls) are the parent's; anything derived from the row groups (statistics) is its own - also
    # when the parent's were already computed and cached
    rows = [n0, n1, n2]
    pf = _real_handle(rows)
    pf.tz = {"t": ["UTC", "Europe/Paris"][tzname]}
    pf._columns_dtype = "object"
    if stats_first:
        full = pf.statistics
        if full["null_count"]["a"] != [0, 0, 0]:
            return False
    item = SLICES[si]
    sub = pf[item]
    k = len(rows[item]) if isinstance(item, slice) else 1
    st = sub.statistics
    return (sub.tz == pf.tz and sub._columns_dtype == pf._columns_dtype and sub.pandas_nulls == pf.pandas_nulls and
            st["null_count"]["a"] == [0] * k and st["min"]["a"] == [None] * k)


def replay_h_slice_state(n0, n1, n2, si, stats_first, tzname):
    import shutil, tempfile
    import pandas as pd
    import fastparquet
    d = tempfile.mkdtemp(prefix="c06-")
    try:
        fn = os.path.join(d, "t.parq")
        tz = ["UTC", "Europe/Paris"][tzname]
        df = pd.DataFrame({"a": [1, 2, 3, 4, 5, 6],
                           "t": pd.date_range("2020-01-01", periods=6, freq="h", tz=tz)})
        fastparquet.write(fn, df, row_group_offsets=[0, 2, 4], stats=True)
        pf = fastparquet.ParquetFile(fn)
        if stats_first:
            pf.statistics
        item = SLICES[si]
        sub = pf[item]
        idx = list(range(3))[item] if isinstance(item, slice) else [list(range(3))[item]]
        out = sub.to_pandas()
        want = pd.concat([df.iloc[2 * i:2 * i + 2] for i in idx]) if idx else df.iloc[0:0]
        if len(out) and str(out["t"].dtype) != str(df["t"].dtype):
            return True, "pf[%r] reads the tz-aware column as %s (parent: %s)" % (item, out["t"].dtype, df["t"].dtype)
        if list(out["a"]) != list(want["a"]):
            return True, "pf[%r] returns rows %r" % (item, list(out["a"]))
        st = sub.statistics
        mins = [int(want["a"].iloc[2 * j]) for j in range(len(idx))]
        if [int(x) for x in st["min"]["a"]] != mins:
            return True, "pf[%r].statistics reports min(a) = %r for its %d row group(s), which hold minima %r" % (
                item, st["min"]["a"], len(idx), mins)
        return False, "slice carries the parent's options and its own statistics"
    finally:
        shutil.rmtree(d, ignore_errors=True)


def replay_h_slice_count(n0, n1, n2, si):
    import shutil
    import fastparquet
    rows = [n0, n1, n2]
    if min(rows) < 1 or sum(rows) > 5000:
        rows = [max(1, min(n, 50)) + i for i, n in enumerate(rows)]      # same shape, sizes the driver can write
    fn, df, d = _real_groups(rows)
    try:
        pf = fastparquet.ParquetFile(fn)
        item = SLICES[si]
        sub = pf[item]
        read = len(sub.to_pandas()) if len(sub.row_groups) else 0
        if sub.count() != read or sub.info["rows"] != read:
            return True, "pf[%r].count() == %r, info['rows'] == %r, but %d rows are read" % (
                item, sub.count(), sub.info["rows"], read)
        return False, "agrees"
    finally:
        shutil.rmtree(d, ignore_errors=True)


# ------------------------------------------------------------ the caller's column list is an input, not state ---
class _ColsHandle(Handle):
    """handle with an index column `i` known from the pandas metadata; records the column list of each allocation"""
    _get_index = ParquetFile._get_index

    def __init__(self, rows):
        Handle.__init__(self, rows)
        self.columns = ["a", "i"]
        self.pandas_metadata = {"index_columns": ["i"]}
        self.alloc_cols = []

    def pre_allocate(self, size, columns, categories, index, dtypes=None):
        self.alloc_cols.append((list(columns), index))
        return Handle.pre_allocate(self, size, columns, categories, index, dtypes)


def _index_arg(k):
    return [None, "i", False][k]


def h_columns_arg(n0: int, n1: int, sel_i: bool, k1: int, k2: int) -> bool:
    """
    pre: 0 <= n0 <= 1000 and 0 <= n1 <= 1000 and 0 <= k1 <= 2 and 0 <= k2 <= 2
    post: __return__
    """
    # two reads with ONE list object naming the data columns, each with its own index choice (metadata default, the
    # column i, or none): every read allocates exactly the named columns plus its own index columns, and the caller's
    # list is left as it was
    h = _ColsHandle([n0, n1])
    cols = ["a", "i"] if sel_i else ["a"]
    given = list(cols)
    for k in (k1, k2):
        h.to_pandas(columns=cols, index=_index_arg(k))
        if cols != given:
            return False
    for (got, index), k in zip(h.alloc_cols, (k1, k2)):
        idx = [] if _index_arg(k) is False else ["i"]
        if got != given + [c for c in idx if c not in given]:
            return False
        if list(index or []) != idx:
            return False
    return len(h.alloc_cols) == 2


def replay_h_columns_arg(n0, n1, sel_i, k1, k2):
    import shutil, tempfile
    import pandas as pd
    import fastparquet
    d = tempfile.mkdtemp(prefix="c06-")
    try:
        fn = os.path.join(d, "t.parq")
        df = pd.DataFrame({"a": [1.0, 2.0, 3.0], "i": pd.to_datetime(["2020-01-01", "2020-01-02", "2020-01-03"])})
        fastparquet.write(fn, df.set_index("i"), row_group_offsets=[0, 2])
        pf = fastparquet.ParquetFile(fn)
        cols = ["a", "i"] if sel_i else ["a"]
        given = list(cols)
        for k in (k1, k2):
            out = pf.to_pandas(columns=cols, index=_index_arg(k))
            idx = [] if _index_arg(k) is False else ["i"]
            want = [c for c in given if c not in idx]
            if cols != given:
                return True, "to_pandas(columns=%r, index=%r) changed the caller's list to %r" % (given, _index_arg(k), cols)
            if list(out.columns) != want:
                return True, "to_pandas(columns=%r, index=%r) returned columns %r" % (given, _index_arg(k),
                                                                                     list(out.columns))
        return False, "columns as requested"
    finally:
        shutil.rmtree(d, ignore_errors=True)
